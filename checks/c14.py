"""C14 The asyncio classes behave exactly like their threaded counterparts.

Differential monitor: one generated *script* (plain data: configuration + a
list of operations that refer to session ids only symbolically) is executed
once against the threaded class and once against the asyncio class; the two
normalised traces (frames per peer in per-peer order, published pub/sub
messages, handler/callback invocations with arguments, results or exception
types of API calls, types of contained errors) must be equal.

Parts (each its own script family):
  S  Server/Manager      vs AsyncServer/AsyncManager      (direct-drive)
  C  Client              vs AsyncClient                   (scripted engine.io)
  P  PubSubManager       vs AsyncPubSubManager            (in-memory channel)
  N  Namespace/ClientNamespace vs Async twins             (recorder)
  Q  SimpleClient        vs AsyncSimpleClient             (scripted engine.io)
"""
import copy
import json

from vlib import core
from vlib import gen
from vlib import refcodec as R
from vlib import scenario as S

from checks import c14_client, c14_misc, c14_pubsub
from checks.c12 import mutate_msgpack, mutate_text, valid_frames

LEVEL = 'exploration'
TIERS = {
    'quick': {'budget': 50, 'watchdog': 400, 'shards': 1},
    'thorough': {'budget': 420, 'watchdog': 900, 'shards': 16},
}
NAMESPACES = ['/', '/a', '/b']
ROOMS = ['r1', 'r2', 'lobby', 7]
AUTHS = [None, None, {'token': 'abc'}, 'secret', 0, [1, 2]]
BEHAVIOURS = ['accept', 'accept', 'accept', 'accept', 'true', 'false',
              ['refuse'], ['refuse', 'no'], ['refuse', 'no', {'code': 7}],
              ['refuse', {'a': 1}, 2, 3]]
IDS = [None, None, 0, 1, 2, 7, 10**20]


# --------------------------------------------------------------- part S
def gen_return(rng):
    k = rng.random()
    if k < 0.3:
        return None
    if k < 0.45:
        return rng.choice([0, '', False, [], {}, 'ok', 5, 2.5])
    if k < 0.6:
        return ['$tuple'] + gen.gen_args(rng, True, 2, maxn=3)
    if k < 0.7:
        return ['$tuple']
    return gen.gen_tree(rng, 3, [10], True)


def untuple(x):
    if isinstance(x, list) and x and x[0] == '$tuple':
        return tuple(x[1:])
    return x


def departure_script(rng):
    """A client that is connected to several namespaces is lost while an
    observer watches every one of them; the disconnect handlers tell the
    room, in two emits each, that the client left."""
    served = NAMESPACES[:rng.choice([2, 3])]
    cfg = S.default_config(
        serializer=rng.choice(['default', 'msgpack']),
        async_handlers=rng.random() < 0.3, always_connect=False,
        served=served, namespaces_opt=None,
        style={ns: 'func' for ns in served}, global_catchall=False,
        coroutines=True, connect_script={}, returns={}, faults=[])
    cfg['disconnect_emits'] = ROOMS[0]
    ops = [['open', 1], ['open', 2]]
    for ns in served:
        ops.append(['connect', 1, ns, None])
        ops.append(['enter', ['sid', 1, ns], ROOMS[0], ns])
    member = rng.random() < 0.6
    for ns in served:
        ops.append(['connect', 2, ns, None])
        if member:
            # the departing client is in the room its own departure is
            # announced to
            ops.append(['enter', ['sid', 2, ns], ROOMS[0], ns])
    how = rng.choice(['lose', 'cclose', 'sdisc', 'sdisc', 'cdisc'])
    if how in ('lose', 'cclose'):
        ops.append([how, 2])
    else:
        # the server (or the client) ends the namespaces one by one: what
        # the handlers send reaches the transport's other sessions - and,
        # for a server-initiated end, the departing session itself, after
        # its DISCONNECT packet
        for ns in rng.sample(served, rng.randint(1, len(served))):
            ops.append(['sdisc', ['sid', 2, ns], ns] if how == 'sdisc'
                       else ['cdisc', 2, ns])
    ops.append(['emit', 1, ROOMS[0], None, served[0], None, 'after'])
    return cfg, ops


def callback_script(rng):
    """Emits with callbacks (some of them raise) to one client, each
    acknowledged, some acknowledgements repeated."""
    served = NAMESPACES[:rng.choice([1, 2])]
    cfg = S.default_config(
        serializer=rng.choice(['default', 'msgpack']),
        async_handlers=rng.random() < 0.3, always_connect=False,
        served=served, namespaces_opt=None,
        style={ns: 'func' for ns in served}, global_catchall=False,
        coroutines=rng.random() < 0.7, connect_script={}, returns={},
        faults=[])
    ns = rng.choice(served)
    ops = [['open', 1], ['connect', 1, ns, None]]
    for tok in range(1, rng.randint(2, 5)):
        cb = rng.choice([True, 'co', 'raise', 'raise', 'raise_co'])
        ops.append(['emit', tok, ['sid', 1, ns], None, ns, cb,
                    {'t': tok}])
        if cfg['serializer'] == 'default' and rng.random() < 0.4:
            # an acknowledgement with the right id whose payload is not a
            # list (a string, an object, a number, nothing at all)
            ops.append(['raw', 1, '3%s%d%s' % (
                '' if ns == '/' else ns + ',', tok,
                rng.choice(['"ab"', '{"a":1}', '5', '', 'null', '"x"']))])
        ops.append(['ack', 1, ns, tok, ['a', tok]])
        if rng.random() < 0.7:
            ops.append(['ack', 1, ns, tok, ['again', tok]])
        if rng.random() < 0.3:
            ops.append(['ack', 1, ns, rng.randint(1, tok), ['old']])
    return cfg, ops


def gen_server_script(rng):
    if rng.random() < 0.06:
        return departure_script(rng)
    if rng.random() < 0.06:
        return callback_script(rng)
    served = NAMESPACES[:rng.choice([1, 2, 3])]
    serializer = 'msgpack' if rng.random() < 0.25 else 'default'
    nopt = rng.choice([None, None, 'list', '*'])
    cfg = S.default_config(
        # call() is only available with async_handlers on; the harness joins
        # every background handler after each frame / API call, so the order
        # of events stays the script's
        serializer=serializer, async_handlers=rng.random() < 0.3,
        always_connect=rng.random() < 0.3, served=served,
        namespaces_opt=(served if nopt == 'list' else nopt),
        style={ns: rng.choice(['func', 'func', 'class', 'catchall'])
               for ns in served},
        global_catchall=rng.random() < 0.2,
        coroutines=rng.random() < 0.7,
        connect_script={ns: [rng.choice(BEHAVIOURS) for _ in range(6)]
                        for ns in served},
        returns={}, faults=[])
    nT = rng.randint(1, 4)
    pool = served + (['/zz'] if rng.random() < 0.5 else [])
    ops = []
    tok = [0]
    opened = []

    def T():
        return rng.choice(opened)

    hinted = []          # (T, ns) that had a CONNECT earlier in the script

    def sid():
        if rng.random() < 0.06:
            return rng.choice(['nosuchsid', '', 'r1'])
        if hinted and rng.random() < 0.85:
            t, ns = rng.choice(hinted)
            return ['sid', t, ns]
        return ['sid', T(), rng.choice(pool)]

    def tns():
        if hinted and rng.random() < 0.8:
            return rng.choice(hinted)
        return T(), rng.choice(pool)

    def connect(t):
        ns = rng.choice(pool)
        hinted.append((t, ns))
        ops.append(['connect', t, ns, rng.choice(AUTHS)])

    def target():
        k = rng.random()
        if k < 0.3:
            return None
        if k < 0.6:
            return rng.choice(ROOMS)
        if k < 0.85:
            return sid()
        return ['list'] + [rng.choice(ROOMS + [sid()])
                           for _ in range(rng.randint(1, 3))]

    n = rng.choice([15, 30, 60])
    for _ in range(n):
        r = rng.random()
        if not opened or (len(opened) < nT and r < 0.08):
            t = len(opened) + 1
            opened.append(t)
            ops.append(['open', t])
            if rng.random() < 0.8:
                connect(t)
            continue
        if r < 0.16:
            connect(T())
        elif r < 0.36:
            tok[0] += 1
            name = rng.choice(S.EVENT_POOL)
            args = [tok[0]] + gen.gen_args(rng, serializer == 'default' or
                                           True, 2, maxn=2)
            pid = rng.choice(IDS)
            cfg['returns'][tok[0]] = gen_return(rng)
            if rng.random() < 0.05 and cfg['coroutines']:
                # the handler of this event disconnects the sender before it
                # returns (asyncio: a coroutine handler, which can await the
                # server's disconnect())
                cfg.setdefault('bye_tokens', []).append(tok[0])
            if rng.random() < 0.12 and R.has_bytes(args) and \
                    serializer == 'default':
                t, ns = tns()
                ops.append(['event_partial', t, ns, name, args, pid, 1])
            else:
                t, ns = tns()
                ops.append(['event', t, ns, name, args, pid])
        elif r < 0.42:
            t, ns = tns()
            ops.append(['ack', t, ns, rng.choice([0, 1, 1, 2, 3, 9]),
                        gen.gen_args(rng, True, 2, maxn=2)])
        elif r < 0.47:
            t, ns = tns()
            ops.append(['cdisc', t, ns])
        elif r < 0.485:
            ops.append([rng.choice(['lose', 'lose', 'cclose']), T()])
        elif r < 0.50:
            # engine.io's heartbeat task runs for the transport
            ops.append(['heartbeat', T()])
        elif r < 0.58:
            frames = valid_frames(rng, serializer)
            f = rng.choice(frames)
            if rng.random() < 0.7:
                if isinstance(f, str):
                    f = mutate_text(rng, f)
                    if len(f) > 3000:
                        f = f[:3000]
                elif serializer == 'msgpack':
                    f = mutate_msgpack(rng, f)
            ops.append(['raw', T(), f])
        elif r < 0.66:
            # (rooms named like a session id: somebody's personal room)
            ops.append(['enter', sid(), rng.choice(ROOMS) if rng.random() <
                        0.8 else sid(), rng.choice(pool)])
        elif r < 0.70:
            ops.append(['leave', sid(), rng.choice(ROOMS) if rng.random() <
                        0.8 else sid(), rng.choice(pool)])
        elif r < 0.73:
            ops.append(['close_room', rng.choice(ROOMS) if rng.random() <
                        0.8 else sid(), rng.choice(pool)])
        elif r < 0.78:
            ops.append(['sdisc', sid(), rng.choice(pool)])
        elif r < 0.91:
            tok[0] += 1
            to = target()
            cb = None
            if isinstance(to, list) and to[0] == 'sid' and \
                    rng.random() < 0.5:
                cb = rng.choice([True, 'co', 'raise', 'raise_co'])
            skip = None
            if rng.random() < 0.25:
                skip = sid() if rng.random() < 0.6 else \
                    ['list', sid(), sid()]
            data = rng.choice([None, 'd', ['$tuple', 1, 'two'],
                               {'t': tok[0]}, [1, 2], 0, False, '', [], {},
                               0.0, ['$tuple']]) \
                if rng.random() < 0.5 else gen.gen_tree(rng, 3, [8], True)
            ops.append(['emit', tok[0], to, skip,
                        rng.choice(pool + [None]), cb, data])
        elif r < 0.955 and hinted and cfg['async_handlers']:
            tok[0] += 1
            t, ns = rng.choice(hinted)
            to = ['sid', t, ns] if rng.random() < 0.9 else \
                rng.choice([None, 'r1'])
            ops.append(['call', tok[0], to,
                        ns if rng.random() < 0.9 else None,
                        rng.choice([None, 'd', ['$tuple', 1, 'two'],
                                    {'t': tok[0]}]),
                        rng.choice([0.5, 1, 5]),
                        rng.choice(['ack', 'ack', 'ack', 'timeout',
                                    'wrongid_then_ack', 'cdisc_timeout',
                                    'lose_timeout', 'ack_after_timeout',
                                    'ack_other_ns']),
                        gen.gen_args(rng, True, 2, maxn=3), t])
        elif r < 0.96:
            ops.append(['rooms', sid(), rng.choice(pool)])
        else:
            s = sid()
            ns = rng.choice(pool)
            ops.append(rng.choice([
                ['save_session', s, ns, {'v': tok[0]}],
                ['get_session', s, ns],
                ['get_session_mutate', s, ns, 'm%d' % tok[0], tok[0]],
                ['get_session_mutate', s, ns, 'm', tok[0]],
                ['session_block', s, ns, {'k': tok[0]}],
                ['is_connected', s, ns]]))
    # handler faults: a few handler invocations raise
    if rng.random() < 0.35:
        cfg['faults'] = sorted(rng.sample(range(0, 40), rng.randint(1, 3)))
    if rng.random() < 0.25 and cfg['coroutines']:
        # disconnect handlers that tell a room (two emits) that the client
        # left: per-peer packet order is part of what both servers do alike
        cfg['disconnect_emits'] = ROOMS[0]
    if rng.random() < 0.3:
        # disconnect handlers that look up the departing client's environ
        cfg['disconnect_reads_environ'] = True
    if rng.random() < 0.25:
        # failing disconnect handlers (rare among all handler invocations:
        # aimed at separately); behaviours of the first few invocations
        cfg['disconnect_behaviours'] = [rng.choice(['ok', 'exc', 'exc'])
                                        for _ in range(rng.randint(1, 4))]
    return cfg, ops


def materialise(cfg, ops):
    """Scripts are JSON-like; tuples are tagged lists."""
    cfg = copy.deepcopy(cfg)
    cfg['returns'] = {k: untuple(v) for k, v in cfg['returns'].items()}
    out = []
    for op in ops:
        op = copy.deepcopy(op)
        if op[0] == 'emit' and len(op) > 6:
            op[6] = untuple(op[6])
        if op[0] == 'call':
            op[4] = untuple(op[4])
        out.append(op)
    return cfg, out


def project(norm):
    """Drop what the property does not promise to be equal: the global
    interleaving of sends to *different* peers (per-peer order is kept in
    'sent')."""
    out = []
    for e in norm:
        e = dict(e)
        e['events'] = [x for x in e['events'] if x[0] != 'send']
        if e['op'][0] == 'rooms' and isinstance(e.get('ret'), list):
            # a set rendered as a list: order by the *renamed* values
            e['ret'] = sorted(e['ret'], key=stable)
        out.append(e)
    return out


def run_server_side(kind, cfg, ops):
    cfg = dict(cfg, kind=kind)
    r = S.Runner(cfg)
    try:
        res = r.run(ops)
        return project(S.normalise(res, r)), res
    finally:
        r.close()


def stable(x):
    return json.dumps(core.jsonable(x), sort_keys=True, default=repr)


def first_diff(a, b):
    """a, b: lists of dicts; comparison through the type-preserving JSON
    rendering (so 1 != 1.0 != True and tuples != lists)."""
    for i, (x, y) in enumerate(zip(a, b)):
        if stable(x) != stable(y):
            keys = sorted(k for k in set(x) | set(y)
                          if stable(x.get(k)) != stable(y.get(k)))
            return i, keys
    if len(a) != len(b):
        return min(len(a), len(b)), ['length']
    return None


def part_server(ctx, k):
    rng = ctx.case_rng(k)
    cfg0, ops0 = gen_server_script(rng)
    cfg, ops = materialise(cfg0, ops0)
    ta, ra = run_server_side('sync', copy.deepcopy(cfg), copy.deepcopy(ops))
    tb, rb = run_server_side('async', copy.deepcopy(cfg), copy.deepcopy(ops))
    ctx.count('server_scripts')
    ctx.count('server_ops_compared', len(ops))
    ctx.count('server_frames_compared',
              sum(len(v) for e in ta for v in e['sent'].values()))
    ctx.count('server_handler_events_compared',
              sum(len(e['events']) for e in ta))
    ctx.count('server_api_exceptions_compared',
              sum(1 for e in ta if 'exc' in e))
    ctx.count('server_contained_errors_compared',
              sum(len(e.get('errors', [])) for e in ta))
    d = first_diff(ta, tb)
    kinds = sorted({op[0] for op in ops})
    if d is None:
        ctx.case(('S', cfg['serializer'], cfg['always_connect'],
                  cfg['async_handlers'],
                  str(cfg['namespaces_opt']), tuple(kinds),
                  bool(cfg['faults'])),
                 {'part': 'server', 'ops': ops0[:6],
                  'trace_head': ta[:3]})
        return
    i, keys = d
    ctx.violation(None, 'Server vs AsyncServer: traces differ at operation '
                  '%d (%r) in %s' % (i, ops[i] if i < len(ops) else None,
                                     keys),
                  {'part': 'server', 'case_index': k, 'config': cfg0,
                   'ops': ops0[:i + 1], 'threaded': ta[i] if i < len(ta)
                   else None, 'asyncio': tb[i] if i < len(tb) else None,
                   'threaded_raw_errors': (ra[i].get('errors') or
                                           ra[i].get('exc_tb'))
                   if i < len(ra) else None,
                   'asyncio_raw_errors': (rb[i].get('errors') or
                                          rb[i].get('exc_tb'))
                   if i < len(rb) else None})


PARTS = [
    ('S', part_server, 5),
    ('C', c14_client.part_client, 4),
    ('P', c14_pubsub.part_pubsub, 3),
    ('N', c14_misc.part_namespace, 1),
    ('Q', c14_misc.part_simple, 2),
]


def run_case(ctx, k, only=None):
    total = sum(w for _, _, w in PARTS)
    slot = k % total
    for name, fn, w in PARTS:
        if slot < w:
            if only is None or only == name:
                fn(ctx, k)
            return
        slot -= w


def run(ctx):
    ctx.rule = ('one generated script (configuration + operations with '
                'symbolic session ids) is executed against the threaded class '
                'and against its asyncio twin; normalised traces (frames per '
                'peer, pub/sub messages, handler/callback invocations, API '
                'results / exception types, contained error types) must be '
                'identical; distinct = (part, serializer/configuration, set '
                'of operation kinds in the script)')
    ctx.assumptions = [
        'async_handlers disabled (handlers inline) as the quantifier says',
        'the global interleaving of sends to different peers is not compared '
        '(the property promises per-peer order)',
        'a defect present on both sides is invisible to this check by '
        'construction']
    ctx.require('server_scripts', 20)
    ctx.require('server_frames_compared', 200)
    ctx.require('server_handler_events_compared', 200)
    ctx.require('client_scripts', 20)
    ctx.require('client_frames_compared', 100)
    ctx.require('pubsub_scripts', 10)
    ctx.require('pubsub_messages_compared', 50)
    ctx.require('namespace_calls_compared', 50)
    ctx.require('simple_scripts', 10)
    k = ctx.shard
    while not ctx.out_of_time() and not ctx.too_many_violations():
        run_case(ctx, k)
        k += ctx.nshards


def replay(ctx, w):
    run_case(ctx, w['witness']['case_index'])
