"""C15 The pub/sub listener survives anything that arrives on the channel.

Part (a): a real PubSubManager / AsyncPubSubManager (in-memory backend) with
local clients; after every bad / faulty message a valid sentinel emit from
another host must be delivered exactly once; echoes and foreign callback
messages must have no effect.  Part (b): the bundled Redis backends' retry
loops driven with a fake redis client whose connections fail on schedule.
"""
import asyncio
import json
import pickle
import types

from vlib import gen
from vlib import pubsub_mem as PM
from vlib import refcodec as R
from vlib import scenario as S
from vlib.vtime import settle

LEVEL = 'fault_enumeration'
TIERS = {
    'quick': {'budget': 40, 'watchdog': 400, 'shards': 1},
    'thorough': {'budget': 400, 'watchdog': 900, 'shards': 16},
}
OTHER = 'f' * 32
# "undecodable bytes": the first byte is not a pickle opcode, so that
# pickle.loads rejects the message at once.  (An arbitrary byte string can be
# a pickle program that imports modules or makes the unpickler pre-allocate
# gigabytes - e.g. LONG_BINPUT with a 4-byte memo index spins inside
# pickle.loads while holding the GIL; unpickling what arrives on the channel
# is the backend's documented trust assumption, not something python-socketio
# can contain.)
import pickletools  # noqa: E402
_OPCODES = {op.code.encode('latin-1')[0] for op in pickletools.opcodes}
NON_OPCODES = bytes(b for b in range(256) if b not in _OPCODES)
METHODS = ['emit', 'disconnect', 'enter_room', 'leave_room', 'close_room',
           'callback']


class _Kill(BaseException):
    """What a green-thread kill looks like: not an Exception subclass."""


def _raise_exit():
    raise SystemExit(3)


def _raise_kill():
    raise _Kill()


def _raise_cancelled():
    import asyncio
    raise asyncio.CancelledError()


def _raise_value_error():
    raise ValueError('bad state')


class _LoadRaises:
    """A pickle that is well-formed but whose loading raises."""

    def __init__(self, fn):
        self.fn = fn

    def __reduce__(self):
        return (self.fn, ())


def gen_bad(rng, host_id, sids):
    """Returns (class, raw message)."""
    k = rng.randrange(14)
    if k == 13:
        # nothing at all: what a backend hands over for an empty payload
        v = rng.choice([b'', '', None, {}, [], 0, pickle.dumps(None),
                        pickle.dumps({}), '""', '{}', 'null'])
        return 'empty_' + type(v).__name__, v
    if k == 12:
        fn = rng.choice([_raise_exit, _raise_kill, _raise_cancelled,
                         _raise_value_error])
        return 'pickle_load_raises_' + fn.__name__[7:], pickle.dumps(
            _LoadRaises(fn))
    sid = rng.choice(sids) if sids else 'nosid'
    if k == 0:
        return 'random_bytes', (bytes([rng.choice(NON_OPCODES)]) +
                                rng.randbytes(rng.randint(0, 40))
                                if rng.random() < 0.9 else b'')
    if k == 1:
        v = rng.choice([None, 5, 'str', 'has method inside', ['method'],
                        [1, 2], {'method'}, b'bytes', True, 0.5, (),
                        'method', {'a': 1}, []])
        return 'pickle_non_dict', pickle.dumps(v)
    if k == 2:
        v = rng.choice([None, 5, 'str', 'has method inside', ['method'],
                        [1, 2], True, 0.5, 'method', {'a': 1}, [],
                        {'method': None}, {'method': 5}])
        return 'json_non_dict', json.dumps(v)
    if k == 3:
        m = rng.choice(METHODS)
        return 'dict_missing_fields', pickle.dumps(
            {'method': m, 'host_id': OTHER})
    if k == 4:
        m = rng.choice(METHODS)
        d = {'method': m, 'host_id': OTHER, 'event': rng.choice(
            ['e', 5, None, ['x']]), 'data': rng.choice([1, None, {'a': b'x'}]),
            'namespace': rng.choice(['/', None, 5, ['/'], {}]),
            'room': rng.choice(['someroom', None, 5, {}, ['a', 'b'], [[1]]]),
            'skip_sid': rng.choice([None, 5, {}, [sid]]),
            'callback': rng.choice([None, 5, (1,), (1, 2), (sid, '/', 1),
                                    'abc', ('r', '/', [1])]),
            'sid': rng.choice([sid, None, 5, []]),
            'id': rng.choice([None, 0, 1, 'x', [1], {}]),
            'args': rng.choice([None, 5, [], [1], 'xy'])}
        return 'dict_wrong_types', pickle.dumps(d)
    if k == 5:
        return 'unknown_method', pickle.dumps(
            {'method': rng.choice(['nope', '', 5, None, [], 'EMIT']),
             'host_id': OTHER})
    if k == 6:
        m = rng.choice(METHODS[:-1])
        d = {'method': m, 'host_id': host_id, 'event': 'echo',
             'data': ['echo'], 'namespace': '/', 'room': None,
             'skip_sid': None, 'callback': None, 'sid': sid}
        return 'own_echo_' + m, pickle.dumps(d)
    if k == 7:
        return 'foreign_callback', pickle.dumps(
            {'method': 'callback', 'host_id': OTHER, 'sid': sid,
             'namespace': '/', 'id': rng.choice([0, 1, 2, 3]),
             'args': ['x']})
    if k == 8:
        return 'own_callback_unknown_id', pickle.dumps(
            {'method': 'callback', 'host_id': host_id, 'sid': sid,
             'namespace': '/', 'id': rng.choice([0, 99, 'x', None]),
             'args': rng.choice([['x'], [], None, 5])})
    if k == 9:
        return 'surplus_fields', pickle.dumps(
            {'method': 'close_room', 'room': 'none', 'namespace': '/',
             'host_id': OTHER, 'extra': [1, 2], 'more': {'x': b'y'}})
    if k == 10:
        return 'json_text_dict', json.dumps(
            {'method': rng.choice(METHODS + ['x']), 'host_id': OTHER})
    return 'raw_str', gen.gen_str(rng, 20)


class HostCase:
    def __init__(self, ctx, rng, kind, index):
        self.ctx, self.rng, self.kind, self.index = ctx, rng, kind, index
        self.chan = PM.Channel()
        self.faults = set()
        self.loop = None
        if kind == 'async':
            from vlib.vtime import VirtualLoop
            self.loop = VirtualLoop()
            asyncio.set_event_loop(self.loop)
            self.mgr = PM.make_async_manager(self.chan)
        else:
            # locks the manager creates notice a thread that acquires one it
            # already holds (the listener would hang for ever, silently)
            import socketio.base_manager
            import socketio.base_server
            import socketio.manager
            import socketio.pubsub_manager
            import socketio.server
            from vlib import sched as SCH
            self._undo_locks = SCH.patch_module_detect_locks([
                socketio.base_manager, socketio.manager,
                socketio.pubsub_manager, socketio.base_server,
                socketio.server])
            del SCH.DetectLock.found[:]
            self.mgr = PM.make_sync_manager(self.chan)
        self.cfg = S.default_config(kind=kind, served=['/', '/a'],
                                    async_handlers=False,
                                    coroutines=rng.random() < 0.6)
        dkw = {'client_manager': self.mgr}
        if self.loop is not None:
            dkw['loop'] = self.loop
        self.r = S.Runner(self.cfg, drive_kw=dkw)
        self.failed = False
        self.history = []
        self.tok = 0
        self.fault_mode = None
        self.listener_dead = False
        # in a third of the cases the backend is unreachable when the
        # listener starts: the listen iterator fails (once or twice) before it
        # has delivered a single message
        if rng.random() < 0.33:
            self.mgr.fail_first_listens = rng.choice([1, 2])
            self.history.append(['first_listen_fails',
                                 self.mgr.fail_first_listens])
            ctx.count('listen_failures_before_first_message')

    def witness(self, extra=None):
        w = {'case_index': self.index, 'kind': self.kind,
             'messages': self.history[-12:],
             'errors_logged': [e['exc'] for e in self.r.d.errors()][-5:]}
        if extra:
            w.update(extra)
        return w

    def fail(self, what, extra=None):
        self.failed = True
        self.ctx.violation(None, what, self.witness(extra))

    def push(self, raw):
        """Deliver one raw channel message to the listener and wait until it
        has been processed."""
        if self.kind == 'async':
            async def go():
                await self.mgr.a_inject(raw)
                await settle(self.loop)
            try:
                self.r.d.run(go())
            except (SystemExit, _Kill, KeyboardInterrupt) as e:
                # asyncio re-raises these from the task that died of them:
                # the listener let a non-Exception through
                self.listener_dead = True
                self.escaped = repr(e)
                self.ctx.count('non_exceptions_that_ended_the_listener_task')
            t = getattr(self.mgr, 'thread', None)
            if t is not None and t.done():
                self.listener_dead = True
        else:
            try:
                self.mgr.inject(raw, timeout=10)
            except TimeoutError:
                t = getattr(self.mgr, 'thread', None)
                if t is not None and not t.is_alive():
                    self.listener_dead = True
                else:
                    raise

    def sentinel(self, where):
        r = self.r
        self.tok += 1
        (T, ns), lst = self.rng.choice(sorted(r.issued.items()))
        sid = lst[-1]
        msg = {'method': 'emit', 'event': 'sentinel', 'data': self.tok,
               'namespace': ns, 'room': sid, 'skip_sid': None,
               'callback': None, 'host_id': OTHER}
        r.drain = None
        for t in r.T.values():
            t.drain()
        form = self.rng.choice(['pickle', 'pickle', 'json', 'dict',
                                'second_manager', 'json_bytes'])
        if form == 'second_manager':
            # published by another manager object of the same class in this
            # very process (a write-only emitter next to the server): it is
            # another host, its messages are not echoes of this one
            if getattr(self, 'emitter', None) is None:
                self.emitter = (PM.make_async_manager if self.kind == 'async'
                                else PM.make_sync_manager)(self.chan,
                                                           write_only=True)
            n0 = len(self.chan.log)
            if self.kind == 'async':
                r.d.run(self.emitter.emit('sentinel', self.tok, namespace=ns,
                                          room=sid))
            else:
                self.emitter.emit('sentinel', self.tok, namespace=ns,
                                  room=sid)
            raws = self.chan.log[n0:]
            # (the channel has queued it for the server: handed over below)
            for hst in self.chan.hosts:
                del hst.pending[:]
            if len(raws) != 1:
                self.fail('%s: a write-only manager published %d messages '
                          'for one emit' % (where, len(raws)))
                return False
            self.push(raws[0])
        else:
            # ('json_bytes': what a bytes-only broker hands over for a
            # message that an external process published as JSON)
            self.push(pickle.dumps(msg) if form == 'pickle' else (
                json.dumps(msg) if form == 'json' else (
                    json.dumps(msg).encode('utf-8') if form == 'json_bytes'
                    else dict(msg))))
        if self.listener_dead:
            self.fail('%s: the listener stopped' % where)
            return False
        self.ctx.count('sentinel_as_' + form)
        got = []
        for idx, t in r.T.items():
            for p in t.drain():
                got.append((idx, p['nsp'], p['data']))
        self.ctx.count('sentinels_checked')
        if got != [(T, ns, ['sentinel', self.tok])]:
            self.fail('%s: the sentinel emit that followed was delivered as '
                      '%r, expected exactly once to transport %s' % (
                          where, got, T))
            return False
        return True

    def setup(self):
        r = self.r
        for T in (1, 2):
            r.step(['open', T])
            r.step(['connect', T, '/', None])
            if self.rng.random() < 0.5:
                r.step(['connect', T, '/a', None])
        self.sids = [s for lst in r.issued.values() for s in lst]
        r.d.clear_errors()
        # outstanding local callback (to check foreign callback messages)
        self.cb_tok = None
        sid = r.issued[(1, '/')][-1]
        res = r.step(['emit', 1000, sid, None, '/', 'fn'])
        pk = res['sent'].get(1, [])
        self.cb_id = pk[0]['id'] if pk else None
        self.cb_sid = sid

    def room_view(self):
        r = self.r
        out = {}
        for (T, ns), lst in sorted(r.issued.items()):
            sid = lst[-1]
            try:
                out['%s%s' % (T, ns)] = sorted(
                    str(x) if x != sid else '<own>'
                    for x in r.sio.rooms(sid, namespace=ns))
            except Exception as e:
                out['%s%s' % (T, ns)] = 'exc:' + type(e).__name__
        return out

    def callbacks_fired(self, ev0):
        return [e for e in self.r.events[ev0:] if e[0] == 'callback']

    def step_bad(self):
        rng, r, ctx = self.rng, self.r, self.ctx
        cls, raw = gen_bad(rng, self.mgr.host_id, self.sids)
        as_dict = False
        if rng.random() < 0.1 and isinstance(raw, bytes) and \
                not cls.startswith('pickle_load_raises'):
            try:
                v = pickle.loads(raw)
                if isinstance(v, dict):
                    raw = v
                    as_dict = True
            except Exception:
                pass
        self.history.append([cls, repr(raw)[:160]])
        ev0 = len(r.events)
        for t in r.T.values():
            t.drain()
        rooms0 = self.room_view()
        # fault injection around this message
        fault = rng.random() < 0.25
        restore = []
        if fault:
            which = rng.choice(['server_op', 'send', 'listen'])
            self.history[-1].append('fault:' + which)
            if which == 'server_op':
                sio = r.sio
                for name in ('disconnect',):
                    orig = getattr(sio, name)

                    def boom(*a, _o=orig, **k):
                        raise RuntimeError('injected server operation '
                                           'failure')
                    setattr(sio, name, boom)
                    restore.append((sio, name))
            elif which == 'send':
                eio = r.d.eio
                orig = eio.send_packet
                if r.d.is_async:
                    # (an Exception: a CancelledError raised by a send that
                    # the listener task awaits directly *is* the cancellation
                    # of the listener; cancelled sends are injected where
                    # sends run in tasks of their own, see
                    # step_emit_with_failing_send)
                    async def boom2(*a, **k):
                        raise RuntimeError('injected send failure')
                else:
                    def boom2(*a, **k):
                        raise RuntimeError('injected send failure')
                eio.send_packet = boom2
                restore.append((eio, 'send_packet', orig))
            else:
                self.mgr.listen_faults.add(-1)
            ctx.count('faults_injected')
        try:
            self.push(raw)
        finally:
            for item in restore:
                if len(item) == 3:
                    setattr(item[0], item[1], item[2])
                else:
                    delattr(item[0], item[1])
        ctx.count('bad_messages')
        ctx.count('class_' + cls.split('_own')[0])
        if self.listener_dead:
            return self.fail('the listener stopped after a %s message' % cls)
        del as_dict
        # echoes and foreign callbacks must have no effect
        cbs = self.callbacks_fired(ev0)
        if cbs:
            return self.fail('a %s message completed a local callback: %r'
                             % (cls, cbs))
        if cls.startswith('own_echo'):
            got = [(i, p) for i, t in r.T.items() for p in t.drain()]
            dh = [e for e in r.events[ev0:] if e[0] == 'handler']
            if got or dh:
                return self.fail('the server re-applied a message it '
                                 'published itself (%s): sent %r handlers %r'
                                 % (cls, got, dh))
            for (T, ns), lst in r.issued.items():
                if not r.sio.manager.is_connected(lst[-1], ns):
                    return self.fail('own-host echo (%s) disconnected a '
                                     'local client' % cls)
            rooms1 = self.room_view()
            if rooms1 != rooms0:
                return self.fail('own-host echo (%s) changed the room '
                                 'membership of local clients' % cls,
                                 {'rooms_before': rooms0,
                                  'rooms_after': rooms1})
            ctx.count('echoes_checked')
        # a disconnect from another host may legitimately have removed a
        # local client; keep our view in sync
        for key in list(r.issued):
            lst = r.issued[key]
            if not r.sio.manager.is_connected(lst[-1], key[1]):
                del r.issued[key]
        if not r.issued:
            return 'empty'
        r.d.clear_errors()
        if not self.sentinel('after a %s message' % cls):
            return
        ctx.case((self.kind, cls, self.history[-1][2:] and
                  self.history[-1][2]), {'class': cls,
                                         'message': repr(raw)[:200]})

    def step_raising_callback(self):
        """A valid callback message for this host whose *application
        callback* raises (an Exception; on asyncio also the CancelledError of
        a coroutine callback that awaited a cancelled task): the listener
        must survive and process what follows."""
        rng, r, ctx = self.rng, self.r, self.ctx
        live = [(k, lst[-1]) for k, lst in sorted(r.issued.items())
                if r.sio.manager.is_connected(lst[-1], k[1])]
        if not live:
            return
        (T, ns), sid = rng.choice(live)
        kinds = ['exception']
        if r.d.is_async:
            kinds += ['cancelled', 'cancelled', 'pending_future']
        how = rng.choice(kinds)
        fired = []
        if how == 'pending_future':
            # a plain function that starts something of its own and returns
            # the future: the listener does not wait for it
            def cb(*a):
                fired.append(a)
                return asyncio.get_event_loop().create_future()
        elif r.d.is_async:
            async def cb(*a):
                fired.append(a)
                if how == 'cancelled':
                    fut = asyncio.get_event_loop().create_future()
                    fut.cancel()
                    await fut
                raise RuntimeError('application callback failed')
        else:
            def cb(*a):
                fired.append(a)
                raise RuntimeError('application callback failed')
        for t in r.T.values():
            t.drain()
        self.history.append(['raising_callback', how])
        try:
            r.d.api('emit', 'needs_ack', {'x': 1}, to=sid, namespace=ns,
                    callback=cb)
        except Exception as e:
            return self.fail('emit with callback raised %r' % e)
        pk = [p for p in r.T[T].drain()
              if p['type'] in (R.EVENT, R.BINARY_EVENT)]
        if len(pk) != 1 or pk[0]['id'] is None:
            return self.fail('emit with callback sent %r' % pk)
        msg = {'method': 'callback', 'host_id': self.mgr.host_id,
               'sid': sid, 'namespace': ns, 'id': pk[0]['id'],
               'args': ['x']}
        self.push(pickle.dumps(msg))
        ctx.count('raising_callbacks_' + how)
        if len(fired) != 1:
            return self.fail('callback message for this host invoked the '
                             'callback %d times' % len(fired))
        if self.listener_dead:
            return self.fail('the listener stopped after an application '
                             'callback raised (%s)' % how)
        r.d.clear_errors()
        if not self.sentinel('after an application callback raised (%s)'
                             % how):
            return
        ctx.case((self.kind, 'raising_callback', how), {'how': how})

    def step_reentrant_callback(self):
        """The application's callback, run by the listener for a relayed
        acknowledgement, uses the server again: it emits with a callback of
        its own and disconnects a client.  The listener must come out of it
        and go on with the channel."""
        rng, r, ctx = self.rng, self.r, self.ctx
        from vlib import sched as SCH
        if not r.issued:
            return
        (T, ns), lst = rng.choice(sorted(r.issued.items()))
        sid = lst[-1]
        fired = []
        what = rng.choice(['emit_cb', 'emit_cb', 'emit', 'enter_room'])

        def again(*a):
            fired.append(a)
            if what == 'emit_cb':
                return r.sio.emit('again', {'x': 2}, to=sid, namespace=ns,
                                  callback=lambda *b: None)
            if what == 'emit':
                return r.sio.emit('again', {'x': 2}, namespace=ns)
            return r.sio.enter_room(sid, 'from-callback', namespace=ns)
        if r.d.is_async:
            async def cb(*a):
                x = again(*a)
                if asyncio.iscoroutine(x):
                    await x
        else:
            cb = again
        for t in r.T.values():
            t.drain()
        r.d.clear_errors()
        self.history.append(['reentrant_callback', what])
        try:
            r.d.api('emit', 'needs_ack', {'x': 1}, to=sid, namespace=ns,
                    callback=cb)
        except Exception as e:
            return self.fail('emit with callback raised %r' % e)
        pk = [p for p in r.T[T].drain()
              if p['type'] in (R.EVENT, R.BINARY_EVENT)]
        if len(pk) != 1 or pk[0]['id'] is None:
            return self.fail('emit with callback sent %r' % pk)
        self.push(pickle.dumps({
            'method': 'callback', 'host_id': self.mgr.host_id, 'sid': sid,
            'namespace': ns, 'id': pk[0]['id'], 'args': ['x']}))
        ctx.count('callbacks_that_use_the_server_again')
        if SCH.DetectLock.found:
            tb = SCH.DetectLock.found[0]
            del SCH.DetectLock.found[:]
            return self.fail('the application callback of a relayed '
                             'acknowledgement used the server again (%s) '
                             'and the listener thread tried to acquire a '
                             'lock it already held: it would block for ever '
                             'and never process another message' % what,
                             {'stack': tb[-1500:]})
        if len(fired) != 1:
            return self.fail('callback message for this host invoked the '
                             'callback %d times' % len(fired))
        if self.listener_dead:
            return self.fail('the listener stopped after a callback that '
                             'used the server again (%s)' % what)
        # (the injected listen failures of this case are logged whenever the
        # listener gets round to them: not this step's business)
        errs = [e for e in r.d.errors()
                if 'injected' not in (e.get('tb') or '') and
                'injected' not in (e.get('msg') or '')]
        if errs:
            return self.fail('a callback that used the server again (%s): '
                             'exception (%s)' % (what, errs[0].get('exc')),
                             {'error': {k: str(v)[-800:]
                                        for k, v in errs[0].items()}})
        if not self.sentinel('after a callback that used the server again '
                             '(%s)' % what):
            return
        ctx.case((self.kind, 'reentrant_callback', what), None)

    def step_remote_callbacks(self):
        """Emits with callbacks to a client that is connected to another
        server.  The acknowledgement comes back as a channel message that
        names this server: it completes the callback once.  Messages that do
        not name this server - another server's id, no id at all, None, '' -
        and repeated messages for an id that has been used complete nothing
        (an id is therefore never issued twice for one client)."""
        rng, r, ctx = self.rng, self.r, self.ctx
        import pickle as _p
        self.remote_n = getattr(self, 'remote_n', 0) + 1
        sid = 'remote-client-%d' % (self.remote_n if rng.random() < 0.5
                                    else 1)
        ns = rng.choice(['/', '/a'])
        fired = []
        used = self.__dict__.setdefault('remote_ids', {}).setdefault(
            (sid, ns), set())
        self.history.append(['remote_callbacks', sid, ns])

        def emit(tag):
            n0 = len(self.chan.log)
            try:
                r.d.api('emit', 'needs_ack', {'tag': tag}, to=sid,
                        namespace=ns, callback=lambda *a: fired.append(
                            (tag, a)))
            except Exception as e:
                self.fail('emit with callback to a remote client raised %r'
                          % e)
                return None
            msgs = [_p.loads(x) for x in self.chan.log[n0:]]
            msgs = [m for m in msgs if isinstance(m, dict) and
                    m.get('method') == 'emit']
            if len(msgs) != 1 or not msgs[0].get('callback'):
                self.fail('emit with callback published %r' % (msgs,))
                return None
            return msgs[0]['callback'][2]

        def inject(host, cid, args):
            msg = {'method': 'callback', 'sid': sid, 'namespace': ns,
                   'id': cid, 'args': args}
            if host != 'absent':
                msg['host_id'] = host
            self.push(_p.dumps(msg))
        own = self.mgr.host_id
        id_a = emit('a')
        if id_a is None:
            return
        inject(own, id_a, ['for-a'])
        if fired != [('a', ('for-a',))]:
            return self.fail('the acknowledgement of a remote client, '
                             'relayed to this server, invoked %r' % (fired,))
        used.add(id_a)
        id_b = emit('b')
        if id_b is None:
            return
        ctx.count('remote_callback_ids_checked')
        if id_b in used:
            return self.fail('acknowledgement id %r was issued a second time '
                             'for client %r: a repeated or late callback '
                             'message for the earlier emit would complete '
                             'this one' % (id_b, sid))
        del fired[:]
        # repeated message for the id that was used
        inject(own, id_a, ['again'])
        # messages that do not name this server
        for host in rng.sample([OTHER, 'absent', None, '', 0], 3):
            inject(host, id_b, ['not-for-you'])
            ctx.count('callback_messages_not_naming_this_server')
        if fired:
            return self.fail('a callback message that was repeated / did not '
                             'name this server completed a local callback: '
                             '%r' % (fired,))
        inject(own, id_b, ['for-b', 2])
        if fired != [('b', ('for-b', 2))]:
            return self.fail('after callback messages for other servers the '
                             'acknowledgement meant for this server invoked '
                             '%r' % (fired,))
        used.add(id_b)
        if self.listener_dead:
            return self.fail('the listener stopped while handling callback '
                             'messages')
        r.d.clear_errors()
        ctx.case((self.kind, 'remote_callbacks', ns), None)

    def step_bad_burst(self):
        """Several bad messages in a row, nothing valid between them: the
        listener is still there for what follows."""
        rng, r, ctx = self.rng, self.r, self.ctx
        n = rng.randint(3, 7)
        kinds = []
        for _ in range(n):
            cls, raw = gen_bad(rng, self.mgr.host_id, self.sids)
            if cls.startswith('own_echo') or 'callback' in cls:
                continue
            kinds.append(cls)
            if rng.random() < 0.3:
                self.mgr.listen_faults.add(-1)
                kinds[-1] += '+listen_fault'
            self.push(raw)
            if self.listener_dead:
                return self.fail('the listener stopped during a run of bad '
                                 'messages (%s)' % ', '.join(kinds))
        self.history.append(['bad_burst', kinds])
        ctx.count('bad_message_bursts')
        r.d.clear_errors()
        for t in r.T.values():
            t.drain()
        # a disconnect from another host may legitimately have removed a
        # local client; keep our view in sync
        for key in list(r.issued):
            lst = r.issued[key]
            if not r.sio.manager.is_connected(lst[-1], key[1]):
                del r.issued[key]
        if not r.issued:
            return 'empty'
        if not self.sentinel('after %d bad messages in a row (%s)' % (
                len(kinds), ', '.join(kinds))):
            return
        ctx.case((self.kind, 'bad_burst', len(kinds)), None)

    def step_emit_with_failing_send(self):
        """A valid emit from another host whose delivery to the local
        recipients fails inside the transport layer (an error, or - asyncio -
        the cancellation of the send): the listener goes on."""
        rng, r, ctx = self.rng, self.r, self.ctx
        if not r.issued:
            return
        how = rng.choice(['error', 'cancelled'] if r.d.is_async
                         else ['error'])
        eio = r.d.eio
        orig = eio.send_packet
        state = {'n': 0}
        only_first = rng.random() < 0.5
        if r.d.is_async:
            async def failing(*a, **k):
                state['n'] += 1
                if only_first and state['n'] > 1:
                    return await orig(*a, **k)
                if how == 'cancelled':
                    raise asyncio.CancelledError()
                raise ConnectionResetError('injected send failure')
        else:
            def failing(*a, **k):
                state['n'] += 1
                if only_first and state['n'] > 1:
                    return orig(*a, **k)
                raise ConnectionResetError('injected send failure')
        (T, ns), lst = rng.choice(sorted(r.issued.items()))
        msg = {'method': 'emit', 'event': 'update', 'data': 1,
               'namespace': ns, 'room': None, 'skip_sid': None,
               'callback': None, 'host_id': OTHER}
        self.history.append(['emit_with_failing_send', how, only_first])
        eio.send_packet = failing
        try:
            self.push(pickle.dumps(msg))
        finally:
            eio.send_packet = orig
        ctx.count('emits_with_failing_send_' + how)
        if self.listener_dead:
            return self.fail('the listener stopped after the delivery of a '
                             'remote emit failed in the transport (%s)'
                             % how)
        r.d.clear_errors()
        for t in r.T.values():
            t.drain()
        if not self.sentinel('after a remote emit whose send failed (%s)'
                             % how):
            return
        ctx.case((self.kind, 'emit_with_failing_send', how, only_first),
                 None)

    def final(self):
        r, ctx = self.r, self.ctx
        # the outstanding local callback completes through a callback message
        # addressed to this host - and only once
        if self.cb_id is None or not r.sio.manager.is_connected(
                self.cb_sid, '/'):
            return
        ev0 = len(r.events)
        msg = {'method': 'callback', 'host_id': self.mgr.host_id,
               'sid': self.cb_sid, 'namespace': '/', 'id': self.cb_id,
               'args': ['done']}
        self.push(pickle.dumps(msg))
        self.push(pickle.dumps(msg))
        cbs = self.callbacks_fired(ev0)
        ctx.count('own_callback_completions')
        if cbs != [('callback', 1000, ['done'])]:
            self.fail('a callback message for this host completed the local '
                      'callback %r times' % (len(cbs),), {'callbacks': cbs})

    def run(self):
        self.setup()
        n = self.rng.choice([10, 25, 50])
        for _ in range(n):
            if self.rng.random() < 0.06:
                self.step_raising_callback()
                if self.failed:
                    return
                continue
            if self.rng.random() < 0.05:
                self.step_reentrant_callback()
                if self.failed:
                    return
                continue
            if self.rng.random() < 0.05:
                self.step_remote_callbacks()
                if self.failed:
                    return
                continue
            if self.rng.random() < 0.05:
                st = self.step_bad_burst()
                if self.failed or st == 'empty':
                    return
                continue
            if self.rng.random() < 0.06:
                self.step_emit_with_failing_send()
                if self.failed:
                    return
                continue
            st = self.step_bad()
            if self.failed or st == 'empty':
                return
        if self.mgr.listen_calls < 1:
            self.fail('listener never started')
        self.ctx.count('listen_restarts', self.mgr.listen_calls - 1)
        self.final()

    def close(self):
        undo = getattr(self, '_undo_locks', None)
        if undo:
            undo()
            self._undo_locks = None
        try:
            if self.kind == 'sync':
                self.mgr.stop()
        except Exception:
            pass
        self.r.close()
        if self.loop is not None:
            try:
                for task in asyncio.all_tasks(self.loop):
                    task.cancel()
                self.loop.run_until_complete(asyncio.sleep(0))
            except Exception:
                pass
            self.loop.close()


# --------------------------------------------------------------- part (b)
class FakeRedisError(Exception):
    pass


class EndOfPlan(BaseException):
    """Raised by the fake broker when its script is exhausted (a real
    listen() never returns while subscribed)."""


def make_fake_redis(schedule, is_async):
    """schedule: dict with 'connect_failures' (list of bools consumed per
    from_url), 'listen' (list per connection: list of items; an item is a
    message dict or 'ERR')."""
    state = {'connections': 0, 'subscribes': 0, 'sub_ok': 0}

    class PubSub:
        def __init__(self, conn_no):
            self.conn_no = conn_no

        def _items(self):
            state['listens'] = state.get('listens', 0) + 1
            if state['listens'] > 300:
                raise EndOfPlan()      # runaway retry loop
            # one planned batch per *successful* subscription
            plans = schedule['listen']
            i = state['sub_ok'] - 1
            self.batch = i
            return plans[i] if 0 <= i < len(plans) else None

        if is_async:
            async def subscribe(self, ch):
                state['subscribes'] += 1
                if schedule['subscribe_failures'] and \
                        schedule['subscribe_failures'].pop(0):
                    raise FakeRedisError('subscribe failed')
                state['sub_ok'] += 1
                state['current'] = self

            async def unsubscribe(self, ch):
                pass

            async def listen(self):
                if state.get('current') is not self:
                    # an abandoned connection stays dead
                    state['dead_listens'] = state.get('dead_listens', 0) + 1
                    if state['dead_listens'] > 50:
                        raise EndOfPlan()
                    raise FakeRedisError('connection is closed')
                items = self._items()
                if items is None:
                    raise EndOfPlan()
                for it in items:
                    if it == 'ERR':
                        raise FakeRedisError('connection lost')
                    yield it
                if self.batch < len(schedule['listen']) - 1:
                    raise FakeRedisError('connection lost at end')
                raise EndOfPlan()
        else:
            def subscribe(self, ch):
                state['subscribes'] += 1
                if schedule['subscribe_failures'] and \
                        schedule['subscribe_failures'].pop(0):
                    raise FakeRedisError('subscribe failed')
                state['sub_ok'] += 1
                state['current'] = self

            def unsubscribe(self, ch):
                pass

            def listen(self):
                if state.get('current') is not self:
                    state['dead_listens'] = state.get('dead_listens', 0) + 1
                    if state['dead_listens'] > 50:
                        raise EndOfPlan()
                    raise FakeRedisError('connection is closed')
                items = self._items()
                if items is None:
                    raise EndOfPlan()
                for it in items:
                    if it == 'ERR':
                        raise FakeRedisError('connection lost')
                    yield it
                if self.batch < len(schedule['listen']) - 1:
                    raise FakeRedisError('connection lost at end')
                raise EndOfPlan()

    class Redis:
        @classmethod
        def from_url(cls, url, **kw):
            n = state['connections']
            state['connections'] += 1
            return cls(n)

        def __init__(self, n):
            self.n = n

        def pubsub(self, ignore_subscribe_messages=True):
            return PubSub(self.n)

    mod = types.SimpleNamespace(
        Redis=Redis, exceptions=types.SimpleNamespace(
            RedisError=FakeRedisError))
    return mod, state


def redis_case(ctx, rng, is_async):
    import socketio
    nconn = rng.randint(1, 5)
    listen = []
    want = []
    tok = 0
    for c in range(nconn):
        items = []
        for _ in range(rng.randint(0, 4)):
            r = rng.random()
            if r < 0.6:
                tok += 1
                items.append({'channel': b'socketio', 'type': 'message',
                              'data': b'msg-%d' % tok})
                want.append(b'msg-%d' % tok)
            elif r < 0.8:
                items.append({'channel': b'other', 'type': 'message',
                              'data': b'skip'})
            else:
                items.append({'channel': b'socketio', 'type': 'subscribe'})
        if c < nconn - 1 and rng.random() < 0.5:
            items.append('ERR')
        listen.append(items)
    sub_fail = [rng.random() < 0.35 for _ in range(nconn * 3)]
    if rng.random() < 0.25:
        # a long outage, to reach the 60 s cap
        sub_fail[1:1] = [True] * rng.randint(6, 9)
    sub_fail[0] = False
    schedule = {'listen': listen, 'subscribe_failures': list(sub_fail)}
    fake, state = make_fake_redis(schedule, is_async)
    sleeps = []
    got = []
    w = {'async': is_async, 'listen_plan': [[('ERR' if i == 'ERR' else
                                              i.get('data', b'<sub>')
                                              .decode())
                                             for i in c] for c in listen],
         'subscribe_failures': sub_fail[:8]}
    if is_async:
        from socketio import async_redis_manager as M
        old = (M.aioredis, M.RedisError)
        M.aioredis, M.RedisError = fake, FakeRedisError
        from vlib.vtime import VirtualLoop
        loop = VirtualLoop()
        asyncio.set_event_loop(loop)
        try:
            mgr = socketio.AsyncRedisManager('redis://x')

            async def go():
                t0 = loop.time()
                last = [t0]
                orig_sleep = asyncio.sleep

                async def rec_sleep(d, *a, **k):
                    sleeps.append(d)
                    return await orig_sleep(d, *a, **k)
                M.asyncio.sleep = rec_sleep
                try:
                    async for m in mgr._listen():
                        got.append(m)
                finally:
                    M.asyncio.sleep = orig_sleep
                del last
            try:
                loop.run_until_complete(asyncio.wait_for(go(), 100000))
            except EndOfPlan:
                pass
            except Exception as e:
                w['exc'] = repr(e)
        finally:
            M.aioredis, M.RedisError = old
            loop.close()
    else:
        from socketio import redis_manager as M
        old = M.redis
        M.redis = fake
        old_sleep = M.time.sleep
        try:
            mgr = socketio.RedisManager('redis://x')
            fake_time = types.SimpleNamespace(sleep=sleeps.append)
            M.time = fake_time
            try:
                for m in mgr._listen():
                    got.append(m)
            except EndOfPlan:
                pass
            except Exception as e:
                w['exc'] = repr(e)
        finally:
            import time as _t
            M.time = _t
            M.redis = old
            del old_sleep
    w['received'] = [g.decode() for g in got]
    w['sleeps'] = sleeps
    ctx.count('redis_cases')
    ctx.count('redis_messages_expected', len(want))
    if 'exc' in w:
        ctx.violation(None, 'the Redis listen loop died: %s' % w['exc'], w)
        return
    if got != want:
        ctx.violation(None, 'the Redis listen loop yielded %r, the broker '
                      'sent %r' % (w['received'],
                                   [x.decode() for x in want]), w)
        return
    # back-off: 1, 2, 4 ... capped at 60, restarting at 1 after a
    # successful re-subscribe; computed from the failure schedule
    fails = list(sub_fail[1:])
    exp_sleeps = []
    cur = 1
    for i in range(nconn - 1):
        while True:
            exp_sleeps.append(cur)
            cur = min(cur * 2, 60)
            if not (fails.pop(0) if fails else False):
                cur = 1
                break
    if sleeps != exp_sleeps:
        ctx.violation(None, 'retry sleeps %r, expected %r (doubling, capped '
                      'at 60, reset after a successful re-subscribe)' % (
                          sleeps, exp_sleeps), w)
        return
    ctx.count('redis_sleeps_checked', len(sleeps))
    ctx.case(('redis', is_async, nconn, len(sleeps), len(want) > 0),
             w if sleeps else None)


def run_case(ctx, k):
    rng = ctx.case_rng(k)
    h = HostCase(ctx, rng, 'sync' if k % 2 == 0 else 'async', k)
    try:
        h.run()
    finally:
        h.close()


def run(ctx):
    import logging
    logging.getLogger('socketio').setLevel(logging.CRITICAL)
    ctx.rule = ('(a) channel message sequences of 10-50 bad messages (random '
                'bytes, pickles/JSON of non-dicts incl. strings and lists '
                'containing "method", dicts with missing/surplus/wrong-typed '
                'fields, unknown methods, own-host echoes of every method, '
                'callback messages for other hosts or unknown ids; as bytes, '
                'text or dict objects), a quarter of them combined with an '
                'injected fault (server operation raises, send raises, the '
                'listen iterator raises and is restarted); after each one a '
                'sentinel emit from another host must reach its local '
                'client exactly once; (b) Redis retry loops with a fake '
                'redis client; distinct = (manager kind, message class, '
                'fault kind) / (redis plan shape)')
    ctx.assumptions = [
        'injected faults raise Exception subclasses (not BaseException)',
        'random channel bytes start with a byte that is not a pickle opcode '
        '(the channel is trusted not to carry hostile pickle programs)',
        'the in-memory backend redelivers the message on which its iterator '
        'failed, as a broker would after re-subscription']
    ctx.require('bad_messages', 300)
    ctx.require('sentinels_checked', 300)
    ctx.require('faults_injected', 50)
    ctx.require('echoes_checked', 10)
    ctx.require('own_callback_completions', 5)
    ctx.require('raising_callbacks_exception', 5)
    ctx.require('listen_failures_before_first_message', 5)
    ctx.require('redis_sentinels_checked', 30)
    ctx.require('redis_connection_drops', 5)
    ctx.require('raising_callbacks_cancelled', 5)
    ctx.require('listen_restarts', 5)
    ctx.require('redis_cases', 20)
    ctx.require('remote_callback_ids_checked', 10)
    ctx.require('sentinel_as_second_manager', 20)
    ctx.require('sentinel_as_json_bytes', 20)
    ctx.require('callbacks_that_use_the_server_again', 10)
    ctx.require('callback_messages_not_naming_this_server', 20)
    k = 0
    j = 0
    while not ctx.out_of_time() and not ctx.too_many_violations():
        run_case(ctx, k)
        ctx.count('host_cases')
        k += 1
        for _ in range(3):
            rng = ctx.case_rng(10**6 + j)
            redis_case(ctx, rng, j % 2 == 1)
            j += 1
        if k % 10 == 0:
            from checks import c15_redis
            c15_redis.redis_host_case(ctx, k // 10)


def replay(ctx, w):
    if w['witness'].get('part') == 'redis_host':
        from checks import c15_redis
        return c15_redis.redis_host_case(ctx, w['witness']['case_index'])
    run_case(ctx, w['witness']['case_index'])
