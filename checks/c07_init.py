"""C07, fresh hosts: the first connections of a host arrive together.

The threaded server handles every engine.io request in its own thread and
connects to the message queue when the first client arrives.  A backend whose
every _listen() call is a subscription of its own (as the bundled Redis and
Kombu managers have) makes the number of listeners observable: a host that
started two of them handles every channel message twice, so an emit issued on
another host reaches this host's clients twice.

Scenario: host A is fresh; two transports open at the same time while the
backend connection of the first one is still being established (the window
is held open by the harness, bounded); then both connect to '/', and host B
broadcasts.  Every client of A must receive the event exactly once.
"""
import pickle
import queue
import threading
import time

from vlib import drive as D
from vlib import refcodec as R


class Broker:
    def __init__(self):
        self.subs = []
        self.lock = threading.Lock()
        self.stopped = False

    def publish(self, raw):
        with self.lock:
            subs = list(self.subs)
        for q in subs:
            q.put(raw)

    def stop(self):
        self.stopped = True
        with self.lock:
            for q in self.subs:
                q.put(None)


def make_manager(broker, slow=None):
    from socketio import pubsub_manager

    class SubMgr(pubsub_manager.PubSubManager):
        name = 'sub'

        def __init__(self):
            super().__init__(channel='verif')
            self.listeners = 0

        def initialize(self):
            if slow:
                slow()          # the connection to the backend takes time
            super().initialize()

        def _publish(self, data):
            broker.publish(pickle.dumps(data))

        def _listen(self):
            if broker.stopped:
                raise SystemExit
            q = queue.Queue()
            with broker.lock:
                broker.subs.append(q)
            self.listeners += 1
            while True:
                item = q.get()
                if item is None:
                    return
                yield item
    return SubMgr()


def connect(d, t, ns='/'):
    pk = [p for p in t.connect(ns) if p['type'] == R.CONNECT]
    return pk[0]['data']['sid'] if pk else None


def run_case(ctx, k):
    rng = ctx.case_rng(7 * 10 ** 7 + k)
    broker = Broker()
    entered = threading.Event()
    second = threading.Event()
    gate = threading.Event()
    entries = []

    def slow():
        entries.append(1)
        if len(entries) == 1:
            entered.set()
        else:
            second.set()
        gate.wait(5)
    mA = make_manager(broker, slow)
    mB = make_manager(broker)
    ser = rng.choice(['default', 'msgpack'])
    dA = D.SyncDrive(serializer=ser, client_manager=mA)
    dB = D.SyncDrive(serializer=ser, client_manager=mB)
    n_first = rng.choice([2, 2, 3])
    opened = [None] * n_first
    w = {'part': 'fresh_host', 'case_index': k, 'serializer': ser,
         'simultaneous_first_connections': n_first}
    try:
        def opener(i):
            if i:
                entered.wait(5)
            opened[i] = dA.open()
        ths = [threading.Thread(target=opener, args=(i,), daemon=True)
               for i in range(n_first)]
        for th in ths:
            th.start()
        entered.wait(5)
        # the later ones either pass (they do not connect to the backend
        # again) or arrive in the backend connection too
        t0 = time.time()
        while time.time() - t0 < 2 and not second.is_set() and \
                any(th.is_alive() for th in ths[1:]):
            time.sleep(0.002)
        gate.set()
        for th in ths:
            th.join(10)
        if any(th.is_alive() for th in ths) or None in opened:
            ctx.count('fresh_host_cases_not_set_up')
            return
        sids = [connect(dA, t) for t in opened]
        tB = dB.open()
        connect(dB, tB)
        for t in opened:
            t.drain()
        tok = 'tick%d' % k
        dB.sio.emit(tok, {'k': k}, namespace='/')
        got = {i: 0 for i in range(n_first)}
        t0 = time.time()
        settled = None
        while time.time() - t0 < 5:
            for i, t in enumerate(opened):
                for p in t.drain():
                    if p['type'] == R.EVENT and p['data'][0] == tok:
                        got[i] += 1
            if all(v >= 1 for v in got.values()):
                if settled is None:
                    settled = time.time()
                elif time.time() - settled > 0.05:
                    break
            time.sleep(0.003)
        w.update(sids=sids, deliveries=got, listeners_on_host=mA.listeners,
                 backend_connections_started=len(entries))
        if not all(v >= 1 for v in got.values()):
            # (slow machine: not judged)
            ctx.count('fresh_host_cases_not_settled')
            return
        ctx.count('fresh_host_cases')
        ctx.count('fresh_host_deliveries_checked', sum(got.values()))
        if any(v != 1 for v in got.values()):
            ctx.violation(None, 'the first %d connections of a fresh host '
                          'arrived together: a broadcast issued on another '
                          'host was then delivered %r times to its clients '
                          '(the host runs %d channel listeners)' % (
                              n_first, sorted(got.values()), mA.listeners),
                          w)
        else:
            ctx.case(('fresh_host', ser, n_first), None)
    finally:
        gate.set()
        broker.stop()
        dA.close()
        dB.close()


def replay(ctx, w):
    run_case(ctx, w['witness']['case_index'])
