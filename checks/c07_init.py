"""C07, fresh hosts: the first connections of a host arrive together.

The threaded server handles every engine.io request in its own thread and
connects to the message queue when the first client arrives.  A backend whose
every _listen() call is a subscription of its own (as the bundled Redis and
Kombu managers have) makes the number of listeners observable: a host that
started two of them handles every channel message twice, so an emit issued on
another host reaches this host's clients twice.

Scenario: host A is fresh; two transports open at the same time while the
backend connection of the first one is still being established (the window
is held open by the harness, bounded); then both connect to '/', and host B
broadcasts.  Every client of A must receive the event exactly once.
"""
import pickle
import queue
import threading
import time

from vlib import drive as D
from vlib import refcodec as R


class Broker:
    def __init__(self):
        self.subs = []
        self.lock = threading.Lock()
        self.stopped = False

    def publish(self, raw):
        with self.lock:
            subs = list(self.subs)
        for q in subs:
            q.put(raw)

    def stop(self):
        self.stopped = True
        with self.lock:
            for q in self.subs:
                q.put(None)


def make_manager(broker, slow=None):
    from socketio import pubsub_manager

    class SubMgr(pubsub_manager.PubSubManager):
        name = 'sub'

        def __init__(self):
            super().__init__(channel='verif')
            self.listeners = 0

        def initialize(self):
            if slow:
                slow()          # the connection to the backend takes time
            super().initialize()

        def _publish(self, data):
            broker.publish(pickle.dumps(data))

        def _listen(self):
            if broker.stopped:
                raise SystemExit
            q = queue.Queue()
            with broker.lock:
                broker.subs.append(q)
            self.listeners += 1
            while True:
                item = q.get()
                if item is None:
                    return
                yield item
    return SubMgr()


def connect(d, t, ns='/'):
    pk = [p for p in t.connect(ns) if p['type'] == R.CONNECT]
    return pk[0]['data']['sid'] if pk else None


def run_case(ctx, k):
    rng = ctx.case_rng(7 * 10 ** 7 + k)
    broker = Broker()
    entered = threading.Event()
    second = threading.Event()
    gate = threading.Event()
    entries = []

    def slow():
        entries.append(1)
        if len(entries) == 1:
            entered.set()
        else:
            second.set()
        gate.wait(5)
    mA = make_manager(broker, slow)
    mB = make_manager(broker)
    ser = rng.choice(['default', 'msgpack'])
    dA = D.SyncDrive(serializer=ser, client_manager=mA)
    dB = D.SyncDrive(serializer=ser, client_manager=mB)
    n_first = rng.choice([2, 2, 3])
    opened = [None] * n_first
    w = {'part': 'fresh_host', 'case_index': k, 'serializer': ser,
         'simultaneous_first_connections': n_first}
    try:
        def opener(i):
            if i:
                entered.wait(5)
            opened[i] = dA.open()
        ths = [threading.Thread(target=opener, args=(i,), daemon=True)
               for i in range(n_first)]
        for th in ths:
            th.start()
        entered.wait(5)
        # the later ones either pass (they do not connect to the backend
        # again) or arrive in the backend connection too
        t0 = time.time()
        while time.time() - t0 < 2 and not second.is_set() and \
                any(th.is_alive() for th in ths[1:]):
            time.sleep(0.002)
        gate.set()
        for th in ths:
            th.join(10)
        if any(th.is_alive() for th in ths) or None in opened:
            ctx.count('fresh_host_cases_not_set_up')
            return
        sids = [connect(dA, t) for t in opened]
        tB = dB.open()
        connect(dB, tB)
        for t in opened:
            t.drain()
        tok = 'tick%d' % k
        dB.sio.emit(tok, {'k': k}, namespace='/')
        got = {i: 0 for i in range(n_first)}
        t0 = time.time()
        settled = None
        while time.time() - t0 < 5:
            for i, t in enumerate(opened):
                for p in t.drain():
                    if p['type'] == R.EVENT and p['data'][0] == tok:
                        got[i] += 1
            if all(v >= 1 for v in got.values()):
                if settled is None:
                    settled = time.time()
                elif time.time() - settled > 0.05:
                    break
            time.sleep(0.003)
        w.update(sids=sids, deliveries=got, listeners_on_host=mA.listeners,
                 backend_connections_started=len(entries))
        if not all(v >= 1 for v in got.values()):
            # (slow machine: not judged)
            ctx.count('fresh_host_cases_not_settled')
            return
        ctx.count('fresh_host_cases')
        ctx.count('fresh_host_deliveries_checked', sum(got.values()))
        if any(v != 1 for v in got.values()):
            ctx.violation(None, 'the first %d connections of a fresh host '
                          'arrived together: a broadcast issued on another '
                          'host was then delivered %r times to its clients '
                          '(the host runs %d channel listeners)' % (
                              n_first, sorted(got.values()), mA.listeners),
                          w)
        else:
            ctx.case(('fresh_host', ser, n_first), None)
    finally:
        gate.set()
        broker.stop()
        dA.close()
        dB.close()


def make_async_manager(subs):
    """AsyncPubSubManager over a list of asyncio queues: one subscription
    per _listen() call."""
    import asyncio
    from socketio import async_pubsub_manager

    class ASubMgr(async_pubsub_manager.AsyncPubSubManager):
        name = 'asub'

        def __init__(self):
            super().__init__(channel='verif')
            self.listeners = 0

        async def _publish(self, data):
            raw = pickle.dumps(data)
            for q in list(subs):
                q.put_nowait(raw)

        async def _listen(self):
            q = asyncio.Queue()
            subs.append(q)
            self.listeners += 1
            while True:
                item = await q.get()
                if item is None:
                    return
                yield item
    return ASubMgr()


def run_clientless_case(ctx, k):
    """A host that has no client yet uses the API first (emit with a callback
    to a client of another host, plain emits, room operations, in a random
    order), then gets its first client; afterwards every broadcast issued
    anywhere reaches each client of the cluster exactly once and the callback
    runs at most once."""
    import asyncio
    from vlib.vtime import VirtualLoop
    rng = ctx.case_rng(7 * 10 ** 7 + 5 * 10 ** 6 + k)
    kind = rng.choice(['sync', 'async'])
    ser = rng.choice(['default', 'msgpack'])
    w = {'part': 'clientless_host', 'case_index': k, 'kind': kind,
         'serializer': ser}
    broker = Broker()
    subs = []
    loop = None
    if kind == 'async':
        loop = VirtualLoop()
        asyncio.set_event_loop(loop)
        mA, mB = make_async_manager(subs), make_async_manager(subs)
        dA = D.AsyncDrive(serializer=ser, client_manager=mA, loop=loop)
        dB = D.AsyncDrive(serializer=ser, client_manager=mB, loop=loop)
    else:
        mA, mB = make_manager(broker), make_manager(broker)
        dA = D.SyncDrive(serializer=ser, client_manager=mA)
        dB = D.SyncDrive(serializer=ser, client_manager=mB)
    fired = []
    counts = {}

    def scan(label, t):
        for p in t.drain():
            if p['type'] in (R.EVENT, R.BINARY_EVENT):
                key = (label, p['data'][0])
                counts[key] = counts.get(key, 0) + 1
                if p['id'] is not None:
                    t.send_packet(R.ACK, p['nsp'], p['id'], ['pong'])

    def wait_for(pred, tx):
        """Threads: poll (bounded); asyncio on the virtual loop: settled
        already.  Returns False when the machine was too slow."""
        t0 = time.time()
        while True:
            for label, t in tx:
                scan(label, t)
            if kind == 'async':
                dA.join()
                for label, t in tx:
                    scan(label, t)
                return pred()
            if pred():
                time.sleep(0.05)
                for label, t in tx:
                    scan(label, t)
                return True
            if time.time() - t0 > 5:
                return False
            time.sleep(0.003)
    try:
        tB = dB.open()
        x = connect(dB, tB)
        tx = [('x', tB)]
        # what the clientless host does first
        first = rng.sample(['emit_cb', 'emit', 'enter', 'close_room',
                            'disconnect_unknown'], rng.choice([1, 2, 3]))
        if 'emit_cb' not in first and rng.random() < 0.6:
            first.insert(rng.randrange(len(first) + 1), 'emit_cb')
        w['first_uses_of_the_clientless_host'] = first
        expect_x = {}
        for i, use in enumerate(first):
            if use == 'emit_cb':
                dA.api('emit', 'ping%d' % i, {'k': k}, to=x,
                       callback=lambda *a: fired.append(a))
                expect_x['ping%d' % i] = 1
            elif use == 'emit':
                dA.api('emit', 'hello%d' % i, {'k': k})
                expect_x['hello%d' % i] = 1
            elif use == 'enter':
                dA.api('enter_room', x, 'lobby')
            elif use == 'close_room':
                dA.api('close_room', 'nobody')
            else:
                dA.api('disconnect', 'nosuchsid')
            if not wait_for(lambda: all(
                    counts.get(('x', e), 0) >= 1 for e in expect_x), tx):
                ctx.count('clientless_cases_not_settled')
                return
        tA = dA.open()
        y = connect(dA, tA)
        tx.append(('y', tA))
        tA.drain()
        rounds = []
        for j in range(rng.choice([1, 2])):
            for src, d in rng.sample([('B', dB), ('A', dA)], 2):
                ev = 'news%s%d' % (src, j)
                d.api('emit', ev, {'k': k})
                rounds.append(ev)
                if not wait_for(lambda: all(
                        counts.get((c, ev), 0) >= 1 for c in 'xy'), tx):
                    ctx.count('clientless_cases_not_settled')
                    return
        w.update(x=x, y=y, deliveries={'%s:%s' % kk: v
                                       for kk, v in sorted(counts.items())},
                 listeners_on_the_clientless_host=mA.listeners,
                 callback_invocations=len(fired))
        ctx.count('clientless_host_cases')
        ctx.count('clientless_host_deliveries_checked', sum(counts.values()))
        errs = dA.errors() + dB.errors()
        if errs:
            w['errors'] = [{'exc': e.get('exc'), 'tb': (e.get('tb') or '')[
                -1000:]} for e in errs[:3]]
            ctx.violation(None, 'a host used the API before its first client '
                          'arrived: exception (%s)' % errs[0].get('exc'), w)
            return
        bad = {kk: v for kk, v in counts.items() if v != 1}
        if bad:
            ctx.violation(None, 'a host used the API (%s) before its first '
                          'client arrived; afterwards events were delivered '
                          '%r (the host runs %d channel listeners)' % (
                              ', '.join(first), sorted(
                                  ('%s:%s' % kk, v) for kk, v in bad.items()),
                              mA.listeners), w)
            return
        if len(fired) > 1:
            ctx.violation(None, 'the callback of an emit issued by a host '
                          'without clients ran %d times' % len(fired), w)
            return
        ctx.case(('clientless', kind, ser, tuple(first)), None)
    finally:
        broker.stop()
        for q in subs:
            q.put_nowait(None)
        dA.close()
        dB.close()
        if loop is not None:
            try:
                for task in asyncio.all_tasks(loop):
                    task.cancel()
                loop.run_until_complete(asyncio.sleep(0))
            except Exception:
                pass
            loop.close()


def replay(ctx, w):
    if w['witness'].get('part') == 'clientless_host':
        return run_clientless_case(ctx, w['witness']['case_index'])
    run_case(ctx, w['witness']['case_index'])
