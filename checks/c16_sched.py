"""C16, threaded server: the end of a connection races with the client's
re-CONNECT of the same namespace on the same transport (two polling requests
in flight: each handled by its own thread).

The new connection is a different client connection: what its connect handler
saves in its session is what get_session() returns afterwards, whatever the
other thread - which is still busy ending the *old* connection - does.

Real threads under vlib.sched.ThreadScheduler; pre-emption at every call into
the client manager, at every engine.io send and at every access to the
engine.io session store (where user sessions live); all schedules by DFS.
"""
import threading
import time

from engineio import packet as eio_packet

from vlib import drive as D
from vlib import sched as SC
from vlib.core import jsonable
from checks.c20 import MGR_METHODS

SchedLock = SC.SchedLock

KNOWN = 'session-survives-namespace-reconnect'
DEADLINE = [None]


def late():
    return DEADLINE[0] is not None and time.time() > DEADLINE[0]


def run_schedule(ctx, ender, choices, rng):
    sched = SC.ThreadScheduler(
        choices=choices, rng=rng, preemption_bound=None,
        switch_prob=rng.choice([None, 0.1, 0.3]) if rng is not None
        else None)
    d = D.SyncDrive(async_handlers=False, autojoin=False)
    sio = d.sio
    seen = {}

    def on_connect(sid, environ, auth=None):
        seen[sid] = dict(sio.get_session(sid))
        sio.save_session(sid, {'owner': sid, 'items': [sid]})
    d.on('connect', on_connect, '/')
    d.on('disconnect', lambda sid, reason: sched.yield_point('handler'), '/')
    t = d.open()
    t.connect('/')
    sid1 = t.sids['/']
    t.drain()
    # yield points
    m = sio.manager
    for name in MGR_METHODS:
        orig = getattr(m, name)

        def w(*a, _o=orig, _n=name, **k):
            sched.yield_point('mgr.' + _n)
            return _o(*a, **k)
        setattr(m, name, w)
    for attr, val in list(m.__dict__.items()):
        if isinstance(val, type(threading.Lock())):
            setattr(m, attr, SchedLock(sched))
        elif isinstance(val, type(threading.RLock())):
            setattr(m, attr, SchedLock(sched, reentrant=True))
    eio = d.eio
    for name in ('send_packet', 'get_session', 'save_session'):
        orig = getattr(eio, name)

        def w2(*a, _o=orig, _n=name, **k):
            sched.yield_point('eio.' + _n)
            return _o(*a, **k)
        setattr(eio, name, w2)
    if ender == 'server_disconnect':
        sched.spawn('end', lambda: sio.disconnect(sid1, namespace='/'))
    else:
        sched.spawn('end', lambda: t.socket.receive(eio_packet.Packet(
            eio_packet.MESSAGE, '1')))
    sched.spawn('reconnect', lambda: t.socket.receive(eio_packet.Packet(
        eio_packet.MESSAGE, '0')))
    trace = sched.run()
    ctx.count('reconnect_race_schedules')
    for name in ('send_packet', 'get_session', 'save_session'):
        if name in eio.__dict__:
            del eio.__dict__[name]
    new = [p['data']['sid'] for p in t.drain()
           if p['type'] == 0 and isinstance(p['data'], dict)]
    wit = {'part': 'reconnect_race', 'ender': ender,
           'choices': [c for _, c in trace],
           'labels': [[a, lbl] for a, lbl in sched.labels][-60:],
           'old_sid': sid1, 'new_sids': new,
           'seen_by_connect_handler': jsonable(seen)}
    errs = list(sched.errors) + d.errors()
    if sched.aborted:
        SC.report_abort(ctx, sched, wit)
        return trace
    if errs:
        wit['errors'] = [{'exc': e.get('exc'), 'tb': (e.get('tb') or '')[
            -1200:]} for e in errs[:3]]
        ctx.violation(None, 're-CONNECT racing the end of the old '
                      'connection: exception (%s)' % errs[0].get('exc'), wit)
        return trace
    if len(new) > 1:
        ctx.violation(None, 'one CONNECT was accepted %d times' % len(new),
                      wit)
        return trace
    if new:
        sid2 = new[0]
        ctx.count('reconnect_race_accepted')
        if seen.get(sid2):
            # the new session id does not start empty: the known mechanism
            # when what it sees is the old connection's session
            old = seen[sid2].get('owner') == sid1
            ctx.violation(KNOWN if old else None,
                          'a fresh session id started with a non-empty '
                          'session: %r' % (seen[sid2],), wit)
        try:
            got = sio.get_session(sid2)
        except Exception as e:
            got = 'raised %r' % e
        ctx.count('session_reads_checked')
        want = {'owner': sid2, 'items': [sid2]}
        if got != want:
            wit['got'] = jsonable(got)
            ctx.violation(None, 'the session saved by the connect handler '
                          'of a new connection (re-CONNECT racing the end '
                          'of the old one) reads back as %r, saved was %r'
                          % (got, want), wit)
            return trace
    else:
        ctx.count('reconnect_race_refused')
    ctx.case(('reconnect_race', ender, bool(new),
              tuple(c for _, c in trace)[:40]), None)
    return trace


def run_first_touch_schedule(ctx, styles, choices, rng, bound):
    """Two handlers of one client run in two threads (async_handlers=True:
    a thread per event) and both use the client's session, which nobody has
    touched before.  Each writes a key of its own inside a session() block
    (or get_session() + save_session()).  Once both have finished, both keys
    are in what get_session() returns."""
    sched = SC.ThreadScheduler(
        choices=choices, rng=rng, preemption_bound=bound,
        switch_prob=rng.choice([0.05, 0.15, 0.3]) if rng is not None
        else None, max_steps=100000)
    d = D.SyncDrive(async_handlers=False, autojoin=False)
    sio = d.sio
    d.on('connect', lambda sid, environ, auth=None: None, '/')
    t = d.open()
    t.connect('/')
    sid = t.sids['/']
    t.drain()

    def actor(i, style):
        def block():
            with sio.session(sid) as s:
                s['k%d' % i] = i

        def get_save():
            s = sio.get_session(sid)
            s['k%d' % i] = i
            sio.save_session(sid, s)
        return block if style == 'block' else get_save
    for i, style in enumerate(styles):
        sched.spawn('handler%d' % i, actor(i, style))
    import socketio.base_server
    import socketio.server
    SC.enable_lines(sched, [socketio.server.__file__,
                            socketio.base_server.__file__])
    try:
        trace = sched.run()
    finally:
        SC.disable_lines()
    ctx.count('first_touch_schedules')
    wit = {'part': 'first_touch', 'styles': list(styles), 'bound': bound,
           'choices': [c for _, c in trace],
           'labels': [[a, lbl] for a, lbl in sched.labels][-60:]}
    errs = list(sched.errors) + d.errors()
    if sched.aborted:
        SC.report_abort(ctx, sched, wit)
        return trace
    if errs:
        wit['errors'] = [{'exc': e.get('exc'), 'tb': (e.get('tb') or '')[
            -1200:]} for e in errs[:3]]
        ctx.violation(None, 'two handlers using a fresh session at the same '
                      'time: exception (%s)' % errs[0].get('exc'), wit)
        return trace
    got = sio.get_session(sid)
    want = {'k%d' % i: i for i in range(len(styles))}
    ctx.count('session_reads_checked')
    if got != want:
        wit['got'] = jsonable(got)
        ctx.violation(None, 'two handlers of one client each stored a key in '
                      'the session (nobody had touched it before); after '
                      'both had finished get_session() returned %r, expected '
                      '%r' % (got, want), wit)
        return trace
    ctx.case(('first_touch', tuple(styles),
              tuple(c for _, c in trace)[:40]), None)
    return trace


def run_two_clients_schedule(ctx, styles, choices, rng, bound):
    """Handlers of two different clients (one of them connected to two
    namespaces) use their sessions at the same time, each in its own thread.
    Afterwards every session holds exactly what its own client's handler
    stored."""
    sched = SC.ThreadScheduler(
        choices=choices, rng=rng, preemption_bound=bound,
        switch_prob=rng.choice([0.05, 0.15, 0.3]) if rng is not None
        else None, max_steps=100000)
    d = D.SyncDrive(async_handlers=False, autojoin=False)
    sio = d.sio
    for ns in ('/', '/a'):
        d.on('connect', lambda sid, environ, auth=None: None, ns)
    tA, tB = d.open(), d.open()
    tA.connect('/')
    tA.connect('/a')
    tB.connect('/')
    who = {'A': (tA.sids['/'], '/'), 'A2': (tA.sids['/a'], '/a'),
           'B': (tB.sids['/'], '/')}
    for t in (tA, tB):
        t.drain()
    # the sessions exist already (this is not about the first touch)
    for name, (sid, ns) in who.items():
        sio.save_session(sid, {'owner': name}, namespace=ns)

    def actor(name, style):
        sid, ns = who[name]

        def block():
            with sio.session(sid, namespace=ns) as s:
                s['mark'] = name

        def get_save():
            s = sio.get_session(sid, namespace=ns)
            s['mark'] = name
            sio.save_session(sid, s, namespace=ns)

        def replace():
            sio.save_session(sid, {'owner': name, 'mark': name},
                             namespace=ns)
            sio.get_session(sid, namespace=ns)
        return {'block': block, 'get_save': get_save,
                'replace': replace}[style]
    names = ['A', 'B', 'A2'][:len(styles)]
    for name, style in zip(names, styles):
        sched.spawn('handler_' + name, actor(name, style))
    import socketio.base_server
    import socketio.server
    SC.enable_lines(sched, [socketio.server.__file__,
                            socketio.base_server.__file__])
    try:
        trace = sched.run()
    finally:
        SC.disable_lines()
    ctx.count('two_client_session_schedules')
    wit = {'part': 'two_clients', 'styles': list(styles), 'bound': bound,
           'choices': [c for _, c in trace],
           'labels': [[a, lbl] for a, lbl in sched.labels][-60:]}
    errs = list(sched.errors) + d.errors()
    if sched.aborted:
        SC.report_abort(ctx, sched, wit)
        return trace
    if errs:
        wit['errors'] = [{'exc': e.get('exc'), 'tb': (e.get('tb') or '')[
            -1200:]} for e in errs[:3]]
        ctx.violation(None, 'handlers of two clients using their sessions at '
                      'the same time: exception (%s)' % errs[0].get('exc'),
                      wit)
        return trace
    for name, (sid, ns) in who.items():
        got = sio.get_session(sid, namespace=ns)
        want = {'owner': name}
        if name in names:
            want['mark'] = name
        ctx.count('session_reads_checked')
        if got != want:
            wit['got'] = jsonable(got)
            ctx.violation(None, 'handlers of different clients used their '
                          'sessions at the same time; afterwards the session '
                          'of %s (%s) reads %r, expected %r' % (
                              name, ns, got, want), wit)
            return trace
    ctx.case(('two_clients', tuple(styles),
              tuple(c for _, c in trace)[:40]), None)
    return trace


def explore_two_clients(ctx, styles, limit, bound):
    choices = []
    n = 0
    while choices is not None and n < limit and not late() and \
            not ctx.too_many_violations():
        trace = run_two_clients_schedule(ctx, styles, choices, None, bound)
        n += 1
        choices = SC.next_schedule(trace)
    return n, choices is None


def explore_first_touch(ctx, styles, limit, bound):
    choices = []
    n = 0
    while choices is not None and n < limit and not late() and \
            not ctx.too_many_violations():
        trace = run_first_touch_schedule(ctx, styles, choices, None, bound)
        n += 1
        choices = SC.next_schedule(trace)
    return n, choices is None


def explore(ctx, ender, limit):
    choices = []
    n = 0
    while choices is not None and n < limit and not late() and \
            not ctx.too_many_violations():
        trace = run_schedule(ctx, ender, choices, None)
        n += 1
        choices = SC.next_schedule(trace)
    return n, choices is None


def run_part(ctx, seconds=None):
    DEADLINE[0] = time.time() + seconds if seconds else None
    ctx.extra['reconnect_race'] = {}
    for ender in ('server_disconnect', 'client_disconnect'):
        n, complete = explore(ctx, ender,
                              400 if ctx.tier == 'quick' else 20000)
        ctx.extra['reconnect_race'][ender] = {'schedules': n,
                                              'complete': complete}


def run_first_touch_part(ctx, seconds=None):
    DEADLINE[0] = time.time() + seconds if seconds else None
    ctx.extra['first_touch'] = {}
    for bound in (1, 2):
        for styles in (('block', 'block'), ('block', 'get_save'),
                       ('get_save', 'get_save'), ('block', 'block', 'block')):
            n, complete = explore_first_touch(
                ctx, styles, 300 if ctx.tier == 'quick' else 20000, bound)
            ctx.extra['first_touch']['+'.join(styles) +
                                     ' <=%d pre-emptions' % bound] = {
                'schedules': n, 'complete': complete}


def run_two_clients_part(ctx, seconds=None):
    DEADLINE[0] = time.time() + seconds if seconds else None
    ctx.extra['two_clients'] = {}
    for bound in (1, 2):
        for styles in (('block', 'block'), ('block', 'get_save'),
                       ('get_save', 'replace'), ('block', 'block', 'block'),
                       ('replace', 'block', 'get_save')):
            n, complete = explore_two_clients(
                ctx, styles, 250 if ctx.tier == 'quick' else 20000, bound)
            ctx.extra['two_clients']['+'.join(styles) +
                                     ' <=%d pre-emptions' % bound] = {
                'schedules': n, 'complete': complete}


def replay(ctx, w):
    wi = w['witness']
    if wi.get('part') == 'two_clients':
        return run_two_clients_schedule(ctx, wi['styles'], wi['choices'],
                                        None, wi.get('bound'))
    if wi.get('part') == 'first_touch':
        return run_first_touch_schedule(ctx, wi['styles'], wi['choices'],
                                        None, wi.get('bound'))
    run_schedule(ctx, wi['ender'], wi['choices'], None)
