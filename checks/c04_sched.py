"""C04 part (b): asyncio server, interleavings of concurrent terminating
causes (and of client traffic racing with them).

The actors are tasks on a virtual-time loop; every legitimate suspension
point - the bodies of the coroutine handlers and every `await
eio.send_packet()` - awaits an AsyncGate future, and a controller releases one
parked actor at a time.  Small scenarios are enumerated exhaustively (DFS over
the choice points), larger ones are sampled.

Oracle per schedule, after everything has quiesced:
  * no exception escaped;
  * per session id: disconnect handler at most once, exactly once iff the id
    is no longer connected, never for an id nothing terminated;
  * the reason is one of the causes that were in progress for *that* id
    (`server disconnect` only for the id passed to disconnect(), `client
    disconnect` only if the client sent DISCONNECT while that id was its
    session, a transport reason only if the transport was lost);
  * a final broadcast reaches exactly the ids still connected; an ended id
    has no rooms;
  * a client event fed while its session was connected is handled exactly
    once (and acknowledged once); one fed while it was not (disconnect in
    progress or finished) is neither handled nor acknowledged.
"""
import asyncio
import collections
import itertools

from engineio import packet as eio_packet

from vlib import drive as D
from vlib import refcodec as R
from vlib import sched as SC

NS = '/a'
SIB = '/b'

ACTORS = ['sdisc', 'cdisc', 'lose', 'sibling', 'recon', 'event', 'sdisc2']


def frames(ptype, ns, pid=None, data=None):
    text, atts = R.encode(ptype, ns, pid, data)
    return [text] + atts


class Scenario:
    def __init__(self, ctx, spec, choices, rng):
        self.ctx, self.spec = ctx, spec
        self.gate = SC.AsyncGate(choices=choices, rng=rng)
        self.gate.active = False
        gate = self.gate
        self.d = D.AsyncDrive(async_handlers=False)
        d = self.d
        sio = d.sio
        self.log = []          # (kind, ns, sid, extra)
        log = self.log
        for ns in (NS, SIB):
            def mk(ns):
                async def connect(sid, environ, auth=None):
                    log.append(('connect', ns, sid, None))
                    await gate.pause('h:connect')
                    if isinstance(environ, dict) and \
                            environ.get('verif.refuse'):
                        return False

                async def disconnect(sid, reason):
                    log.append(('disconnect', ns, sid, reason))
                    await gate.pause('h:disconnect')
                    log.append(('disconnect_done', ns, sid, reason))

                async def ev(sid, tok):
                    log.append(('event', ns, sid, tok))
                    await gate.pause('h:event')
                    return 'r%s' % tok
                sio.on('connect', connect, namespace=ns)
                sio.on('disconnect', disconnect, namespace=ns)
                sio.on('ev', ev, namespace=ns)
            mk(ns)
        orig = d.eio.send_packet

        async def send_packet(sid, pkt):
            await gate.pause('send')
            return await orig(sid, pkt)
        d.eio.send_packet = send_packet
        # set-up (not scheduled): one transport, both namespaces connected
        self.t = d.open()
        self.t.connect(NS)
        self.t.connect(SIB)
        self.s1 = self.t.sids.get(NS)
        self.s1b = self.t.sids.get(SIB)
        d.api('enter_room', self.s1, 'room', namespace=NS)
        # a second transport whose CONNECT to NS will be refused
        self.t2 = d.open(environ={'verif.transport': 2,
                                  'verif.refuse': True})
        self.client_disc = collections.Counter()   # sid -> DISCONNECTs fed
        self.lost = False
        self.obs_violations = []
        self.events = []       # (tok, sid_at_feed or None, connected_at_feed)
        self.feed_log = []

    # ------------------------------------------------------------- actors
    async def feed(self, fr):
        for f in fr:
            if self.t.socket.closed:
                return
            await self.t.socket.receive(eio_packet.Packet(
                eio_packet.MESSAGE, f))

    def current(self, ns):
        m = self.d.sio.manager
        sid = m.sid_from_eio_sid(self.t.eio_sid, ns)
        return sid, bool(sid is not None and m.is_connected(sid, ns))

    async def a_sdisc(self):
        await self.gate.pause('start')
        await self.d.sio.disconnect(self.s1, namespace=NS)

    async def a_cdisc(self):
        await self.gate.pause('start')
        sid, conn = self.current(NS)
        if sid is not None:
            self.client_disc[sid] += 1
        await self.feed(frames(R.DISCONNECT, NS))

    async def a_sibling(self):
        await self.gate.pause('start')
        sid, conn = self.current(SIB)
        if sid is not None:
            self.client_disc[sid] += 1
        await self.feed(frames(R.DISCONNECT, SIB))

    async def a_lose(self):
        await self.gate.pause('start')
        self.lost = True
        await self.t.socket.close(
            wait=False, abort=True,
            reason=self.d.eio.reason.TRANSPORT_ERROR)

    async def a_recon(self):
        await self.gate.pause('start')
        sid, conn = self.current(NS)
        if sid is not None:
            self.client_disc[sid] += 1
        await self.feed(frames(R.DISCONNECT, NS))
        await self.gate.pause('between')
        await self.feed(frames(R.CONNECT, NS))

    async def a_refuse2(self):
        """Another client's CONNECT to the namespace is refused (its
        rollback must not disturb the sessions that are disconnecting)."""
        await self.gate.pause('start')
        for f in frames(R.CONNECT, NS):
            await self.t2.socket.receive(eio_packet.Packet(
                eio_packet.MESSAGE, f))

    async def a_observe(self):
        """The application looks at a session right after its disconnect
        handler has finished (no suspension in between): from then on it is
        not connected and in no room."""
        m = self.d.sio.manager
        for _ in range(3):
            await self.gate.pause('start')
            done = [(x[1], x[2]) for x in self.log
                    if x[0] == 'disconnect_done']
            for ns, sid in done:
                rooms = list(self.d.sio.rooms(sid, namespace=ns))
                conn = m.is_connected(sid, ns)
                self.ctx.count('observations_after_disconnect_handler')
                if rooms or conn:
                    self.obs_violations.append(
                        {'sid': sid, 'namespace': ns, 'rooms': rooms,
                         'connected': conn})

    async def a_event(self):
        for tok in (1, 2):
            await self.gate.pause('start')
            sid, conn = self.current(NS)
            self.events.append((tok, sid, conn))
            await self.feed(frames(R.EVENT, NS, 10 + tok, ['ev', tok]))

    def run(self):
        d, gate = self.d, self.gate
        loop = d.loop
        table = {'sdisc': self.a_sdisc, 'sdisc2': self.a_sdisc,
                 'cdisc': self.a_cdisc, 'sibling': self.a_sibling,
                 'lose': self.a_lose, 'recon': self.a_recon,
                 'event': self.a_event, 'refuse2': self.a_refuse2,
                 'observe': self.a_observe}

        async def quiesce():
            for _ in range(300):
                await asyncio.sleep(0)
                if not loop._ready:
                    return

        async def go():
            gate.active = True
            tasks = [gate.spawn('%d%s' % (i, a), table[a]())
                     for i, a in enumerate(self.spec['actors'])]
            done = await gate.drive(tasks, quiesce)
            gate.active = False
            await quiesce()
            for t in tasks:
                if t.done() and not t.cancelled() and t.exception():
                    e = t.exception()
                    d.bg_errors.append({
                        'level': 'TASK', 'msg': 'actor raised',
                        'exc': type(e).__name__, 'tb': repr(e)[:500],
                        'logger': 'actor'})
            return done
        self.completed = d.run(go())
        return gate.trace

    # -------------------------------------------------------------- judge
    def judge(self):
        ctx, spec, d = self.ctx, self.spec, self.d
        m = d.sio.manager
        actors = spec['actors']
        self.t.drain()
        pk = self.t.packets
        w = {'part': 'sched', 'scenario': spec,
             'choices': [c for _, c in self.gate.trace],
             'released': self.gate.labels[-80:],
             'handler_log': [list(x) for x in self.log],
             'frames_to_client': [[p['type'], p['nsp'], p['id'], p['data']]
                                  for p in pk]}
        ctx.count('async_schedules_run')
        if not self.completed:
            ctx.violation(None, 'asyncio schedule did not complete: a task '
                          'stays blocked', w)
            return 'blocked'
        if self.obs_violations:
            w['observations'] = self.obs_violations
            ctx.violation(None, 'after its disconnect handler had finished a '
                          'session was still %s' % (
                              'in rooms %r' % self.obs_violations[0]['rooms']
                              if self.obs_violations[0]['rooms']
                              else 'connected'), w)
            return 'observed'
        errs = d.errors()
        if errs:
            w['errors'] = [dict(e, tb=(e.get('tb') or '')[-1200:])
                           for e in errs[:3]]
            ctx.violation(None, 'concurrent terminations: exception escaped '
                          '(%s)' % errs[0]['exc'], w)
            return 'error'
        # every session id ever issued on this transport
        sids = []
        for p in pk:
            if p['type'] == R.CONNECT and isinstance(p['data'], dict):
                sids.append((p['data']['sid'], p['nsp']))
        dcalls = collections.defaultdict(list)
        for k, ns, sid, extra in self.log:
            if k == 'disconnect':
                dcalls[sid].append(extra)
        outcome = []
        for sid, ns in sids:
            n = len(dcalls.get(sid, []))
            conn = m.is_connected(sid, ns)
            ctx.count('sids_judged')
            if n > 1:
                ctx.violation(None, 'disconnect handler ran %d times for one '
                              'session id' % n, dict(w, sid=sid))
                return 'twice'
            if (not conn) != (n == 1):
                ctx.violation(None, 'session %s: connected=%s after '
                              'quiescence but its disconnect handler ran %d '
                              'times' % (ns, conn, n), dict(w, sid=sid))
                return 'mismatch'
            if conn and self.t.socket.closed:
                # accepted while the transport's teardown was already under
                # way (CONNECT processed while a disconnect handler of the
                # closing transport was suspended): nothing will ever end it
                if ctx.violation(
                        'session-accepted-during-transport-teardown',
                        'a session accepted while its transport was being '
                        'torn down stays connected for ever (no disconnect '
                        'handler, still registered)', dict(w, sid=sid)):
                    return 'zombie'
                outcome.append((ns, 'zombie'))
                continue
            causes = set()
            if self.lost:
                causes.add('transport error')
            if self.client_disc.get(sid):
                causes.add('client disconnect')
            if sid == self.s1 and ('sdisc' in actors or 'sdisc2' in actors):
                causes.add('server disconnect')
            if n == 1:
                reason = dcalls[sid][0]
                if reason not in causes:
                    ctx.violation(None, 'session on %s ended with reason %r '
                                  'but the causes in progress for it were %s'
                                  % (ns, reason, sorted(causes)),
                                  dict(w, sid=sid))
                    return 'reason'
                try:
                    rooms = d.api('rooms', sid, namespace=ns)
                except Exception:
                    rooms = []
                if rooms:
                    ctx.violation(None, 'ended session still has rooms %r'
                                  % (rooms,), dict(w, sid=sid))
                    return 'rooms'
            elif causes and not conn:
                pass
            outcome.append((ns, 'ended:' + dcalls[sid][0] if n else 'alive'))
            if not causes and n:
                ctx.violation(None, 'a session nothing terminated was '
                              'disconnected', dict(w, sid=sid))
                return 'collateral'
        # final broadcast reaches exactly the connected sessions
        before = len(pk)
        for ns in (NS, SIB):
            d.api('emit', 'probe', {'ns': ns}, namespace=ns)
        self.t.drain()
        got = collections.Counter(p['nsp'] for p in pk[before:]
                                  if p['type'] == R.EVENT)
        want = collections.Counter()
        for sid, ns in sids:
            if m.is_connected(sid, ns) and not self.t.socket.closed:
                want[ns] += 1
        ctx.count('probe_broadcasts')
        if got != want:
            ctx.violation(None, 'final broadcast reached %s, expected %s' % (
                dict(got), dict(want)), w)
            return 'probe'
        # client events
        for tok, sid, conn in self.events:
            inv = [x for x in self.log if x[0] == 'event' and x[3] == tok]
            acks = [p for p in pk if p['type'] == R.ACK and
                    p['id'] == 10 + tok]
            exp = 1 if conn else 0
            ctx.count('racing_events_judged')
            ctx.count('racing_events_while_disconnecting' if
                      (sid is not None and not conn) else
                      'racing_events_other')
            if len(inv) != exp or (inv and inv[0][2] != sid):
                ctx.violation(None, 'event fed while its session was %s '
                              '(disconnect %s): %d handler invocations, '
                              'expected %d' % (
                                  'connected' if conn else 'not connected',
                                  'in progress' if sid is not None and
                                  not conn else 'not in progress',
                                  len(inv), exp), dict(w, token=tok))
                return 'event'
            if len(acks) > exp or (exp and not self.lost and
                                   len(acks) != exp and
                                   m.is_connected(sid, NS)):
                ctx.violation(None, 'event %d: %d ACKs, expected %d' % (
                    tok, len(acks), exp), dict(w, token=tok))
                return 'ack'
        return tuple(sorted(outcome))

    def close(self):
        self.d.close()


def specs():
    out = []
    for a, b in itertools.combinations(
            ['sdisc', 'cdisc', 'lose', 'sibling', 'recon', 'event'], 2):
        out.append({'actors': [a, b]})
    out.append({'actors': ['sdisc', 'sdisc2']})
    for tri in (['sdisc', 'cdisc', 'lose'], ['sdisc', 'recon', 'event'],
                ['sdisc', 'sibling', 'lose'], ['cdisc', 'lose', 'event'],
                ['sdisc', 'cdisc', 'event'], ['sdisc', 'lose', 'recon'],
                ['sdisc', 'sdisc2', 'cdisc'], ['sdisc', 'refuse2', 'cdisc'],
                ['sdisc', 'refuse2', 'lose'], ['cdisc', 'refuse2', 'lose'],
                ['sdisc', 'observe'], ['cdisc', 'observe'],
                ['lose', 'observe'], ['sdisc', 'lose', 'observe']):
        out.append({'actors': tri})
    return out


def explore(ctx, spec, cap, rng=None, deadline=None):
    """DFS over the schedules of one scenario (cap schedules at most)."""
    choices = []
    n = 0
    outcomes = collections.Counter()
    complete = False
    while n < cap and not ctx.too_many_violations():
        if deadline is not None and ctx.time_left() < deadline:
            break
        sc = Scenario(ctx, spec, choices if rng is None else None, rng)
        try:
            trace = sc.run()
            out = sc.judge()
        finally:
            sc.close()
        n += 1
        outcomes[str(out)] += 1
        ctx.case(('sched', tuple(spec['actors']),
                  tuple(c for _, c in trace)),
                 {'part': 'sched', 'actors': spec['actors'],
                  'choices': [c for _, c in trace], 'outcome': out}
                 if n <= 2 else None)
        if rng is not None:
            continue
        choices = SC.next_schedule(trace)
        if choices is None:
            complete = True
            break
    return n, complete, outcomes


def run_part(ctx, budget_s=None):
    """Called from checks/c04.py with the rest of its budget."""
    if budget_s is None:
        budget_s = max(1.0, ctx.time_left() - 1.0)
    t_end = ctx.time_left() - budget_s
    ctx.require('async_schedules_run', 200)
    ctx.require('racing_events_while_disconnecting', 20)
    ctx.require('scenarios_enumerated_completely', 5)
    sp = specs()
    quick = ctx.tier == 'quick'
    cap = 250 if quick else 6000
    summary = ctx.extra.setdefault('async_interleavings', [])
    order = list(range(len(sp)))
    # shards take different scenarios first
    order = order[ctx.shard % len(sp):] + order[:ctx.shard % len(sp)]
    per = max(1.0, budget_s / len(sp))
    for i in order:
        if ctx.time_left() <= t_end or ctx.too_many_violations():
            break
        spec = sp[i]
        n, complete, outcomes = explore(
            ctx, spec, cap, deadline=max(t_end, ctx.time_left() - per))
        summary.append('%s: %d schedules%s, outcomes %s' % (
            '+'.join(spec['actors']), n,
            ' (all)' if complete else ' (capped)', dict(outcomes)))
        if complete:
            ctx.count('scenarios_enumerated_completely')
    # random schedules of the triples with whatever time is left
    k = 0
    while ctx.time_left() > t_end and not ctx.too_many_violations():
        spec = sp[-1 - (k % 10)]
        rng = ctx.case_rng(10 ** 6 + k)
        explore(ctx, spec, 1, rng=rng)
        ctx.count('random_async_schedules')
        k += 1


def replay(ctx, w):
    w = w['witness']
    sc = Scenario(ctx, w['scenario'], w['choices'], None)
    try:
        sc.run()
        sc.judge()
    finally:
        sc.close()
