"""C08 Client state mirrors the server; disconnect reported once per namespace.

Scripted engine.io client + scripted server; the oracle is the script-side
model of what the server accepted and has not ended.
"""
import asyncio

from vlib import eioclient as E
from vlib import gen
from vlib import refcodec as R

LEVEL = 'fault_enumeration'
TIERS = {
    'quick': {'budget': 35, 'watchdog': 400, 'shards': 1},
    'thorough': {'budget': 400, 'watchdog': 900, 'shards': 16},
}
POOL = ['/', '/a', '/b']
AUTHS = [None, {'token': 'x'}, {'u': 'é', 'n': [1, 2]}, {}]


def classify(w):
    k = w.get('class')
    if k == 'partial_acceptance_state':
        return 'namespaces-stale-after-failed-connect'
    if k == 'disconnect_unconnected_namespace':
        return 'client-disconnect-unconnected-namespace'
    if k == 'connect_error_root':
        return 'connect-error-root-clears-all'
    return None


class Script:
    """Scripted server: per connection epoch, a decision per namespace."""

    def __init__(self, hist):
        self.hist = hist
        self.n = 0
        self.pending = []      # (ns, decision) not yet answered (wait=False)

    def on_packet(self, h, pkt):
        hist = self.hist
        if pkt['type'] == R.CONNECT:
            ns = pkt['nsp']
            hist.connect_frames.append((len(h.attempts), ns, pkt['data']))
            dec = hist.decisions.get(ns, 'accept')
            if hist.hold_answers:
                self.pending.append((ns, dec))
            else:
                self.answer(h, ns, dec)
        elif pkt['type'] == R.DISCONNECT:
            hist.client_disconnect_frames.append(pkt['nsp'])
            hist.accepted.pop(pkt['nsp'], None)

    def answer(self, h, ns, dec):
        hist = self.hist
        if dec == 'accept':
            self.n += 1
            sid = 'S%d-%s' % (self.n, ns)
            hist.accepted[ns] = sid
            hist.ever_accepted = True
            hist.epoch_accepted.add(ns)
            h.deliver(R.CONNECT, ns, None, {'sid': sid})
        elif dec == 'silent':
            pass
        else:
            hist.refused[ns] = dec[1]
            h.deliver(R.CONNECT_ERROR, ns, None, dec[1])


class History:
    def __init__(self, ctx, rng, kind, index):
        import socketio
        self.ctx, self.rng, self.kind, self.index = ctx, rng, kind, index
        self.serializer = rng.choice(['default', 'default', 'msgpack'])
        self.reconnection = rng.random() < 0.3
        self.script = Script(self)
        self.h = E.make_client(
            kind, serializer=self.serializer, script=self.script,
            client_kw={'reconnection': self.reconnection,
                       'reconnection_delay': 1, 'randomization_factor': 0})
        h = self.h
        self.nss = POOL[:rng.choice([1, 2, 3])]
        # 'star': every handler is registered under the catch-all namespace
        # only (connect() without a namespace list then asks for '/')
        # 'mixed': connect / connect_error / disconnect are handled under
        # the catch-all namespace, the application's events under each
        # namespace itself
        # 'both': a class-based namespace and, next to it, a function handler
        # for another event on the same namespace
        self.style = rng.choice(['func', 'func', 'class', 'class', 'star',
                                 'mixed', 'both'])
        self.co = rng.random() < 0.6
        self.events = []
        self.accepted = {}
        self.refused = {}
        self.epoch_accepted = set()
        self.ever_accepted = False
        self.decisions = {}
        self.hold_answers = False
        self.connect_frames = []
        self.client_disconnect_frames = []
        self.ops = []
        self.failed = False
        self.tok = 0
        self.stale_cb = []       # (ns, id, token) from earlier connections
        self.cb_fired = []
        self.up = False          # a connect() succeeded and no end since
        self.root_refused = False
        rec = self.rec
        if self.style == 'mixed':
            ctx.count('histories_with_lifecycle_handlers_under_catch_all')
            h.on('connect', lambda ns: rec('connect', ns), '*', self.co)
            h.on('connect_error', lambda ns, *a: rec('connect_error', ns,
                                                     list(a)), '*', self.co)
            h.on('disconnect', lambda ns, reason: rec('disconnect', ns,
                                                      reason), '*', self.co)
            for ns in self.nss:
                h.on('ping', (lambda ns: lambda *a: rec(
                    'event', ns, list(a)))(ns), ns, self.co)
        elif self.style == 'star':
            h.on('connect', lambda ns: rec('connect', ns), '*', self.co)
            h.on('connect_error', lambda ns, *a: rec('connect_error', ns,
                                                     list(a)), '*', self.co)
            h.on('disconnect', lambda ns, reason: rec('disconnect', ns,
                                                      reason), '*', self.co)
            h.on('ping', lambda ns, *a: rec('event', ns, list(a)), '*',
                 self.co)
        elif self.style == 'func':
            for ns in self.nss:
                h.on('connect', (lambda ns: lambda: rec('connect', ns))(ns),
                     ns, self.co)
                h.on('connect_error', (lambda ns: lambda *a: rec(
                    'connect_error', ns, list(a)))(ns), ns, self.co)
                h.on('disconnect', (lambda ns: lambda reason: rec(
                    'disconnect', ns, reason))(ns), ns, self.co)
                h.on('ping', (lambda ns: lambda *a: rec(
                    'event', ns, list(a)))(ns), ns, self.co)
        else:
            base = socketio.AsyncClientNamespace if h.is_async else \
                socketio.ClientNamespace
            for ns in self.nss:
                body = {}

                def add(name, fn, body=body):
                    if h.is_async and self.co:
                        async def m(self_, *a):
                            return fn(*a)
                    else:
                        def m(self_, *a):
                            return fn(*a)
                    body[name] = m
                add('on_connect', (lambda ns: lambda: rec('connect', ns))(ns))
                add('on_connect_error', (lambda ns: lambda *a: rec(
                    'connect_error', ns, list(a)))(ns))
                add('on_disconnect', (lambda ns: lambda reason: rec(
                    'disconnect', ns, reason))(ns))
                add('on_ping', (lambda ns: lambda *a: rec(
                    'event', ns, list(a)))(ns))
                h.c.register_namespace(type('CN', (base,), body)(ns))
                if self.style == 'both':
                    h.on('other', lambda *a: None, ns, self.co)

    def rec(self, *e):
        self.events.append(e + (len(self.h.attempts),))

    def witness(self, extra=None):
        c = self.h.c
        w = {'case_index': self.index, 'kind': self.kind,
             'config': {'serializer': self.serializer, 'style': self.style,
                        'reconnection': self.reconnection,
                        'namespaces': self.nss},
             'history': self.ops[-25:], 'errors': self.h.all_errors(),
             'client': {'connected': c.connected,
                        'namespaces': dict(c.namespaces),
                        'eio_state': self.h.eio.state},
             'server_accepted': dict(self.accepted),
             'events': self.events[-12:]}
        if extra:
            w.update(extra)
        return w

    def fail(self, what, extra=None):
        w = self.witness(extra)
        c = self.h.c
        if not w.get('class') and self.root_refused and not c.connected \
                and self.h.eio.state == 'connected':
            # remainder of a connection that went through the listed
            # CONNECT_ERROR-on-'/' finding: 'connected' is cleared while the
            # transport is alive, which suppresses later bookkeeping
            w['class'] = 'connect_error_root'
            w['downstream_of_root_connect_error'] = True
        if self.ctx.violation(classify(w), what, w):
            self.failed = True
            return True
        return False

    # ------------------------------------------------------------- mirror
    def mirror(self, where, cls=None):
        """Quiescent-point check."""
        c = self.h.c
        self.ctx.count('mirror_checks')
        want = dict(self.accepted)
        extra = {'where': where}
        if cls is None and self.root_refused and not c.connected and \
                self.h.eio.state == 'connected':
            # the connection already went through a CONNECT_ERROR on '/'
            # (listed finding): 'connected' stays cleared for its remainder
            cls = 'connect_error_root'
        if cls:
            extra['class'] = cls
        if dict(c.namespaces) != want:
            if self.fail('%s: client.namespaces == %r, the server has %r' % (
                    where, dict(c.namespaces), want), extra):
                return False
            return None
        for ns in POOL:
            if c.get_sid(ns) != want.get(ns):
                if self.fail('%s: get_sid(%r) == %r, the server says %r' % (
                        where, ns, c.get_sid(ns), want.get(ns)), extra):
                    return False
                return None
        if want or not self.epoch_accepted:
            # connected mirrors "some namespace remains" once one existed,
            # and is False whenever nothing is up
            if want and not c.connected and self.up:
                if self.fail('%s: connected is False while %r remain' % (
                        where, sorted(want)), extra):
                    return False
                return None
        if not want and self.epoch_accepted and c.connected:
            if self.fail('%s: connected is still True after the last '
                         'namespace ended' % where, extra):
                return False
            return None
        return True

    def resync(self):
        """After a listed known finding: adopt the client's view so that the
        rest of the history is still checked."""
        c = self.h.c
        self.accepted = dict(c.namespaces)
        if not c.connected and not self.accepted:
            self.up = False

    # ------------------------------------------------------------- connect
    def do_connect(self):
        rng, ctx, h = self.rng, self.ctx, self.h
        explicit = rng.random() < 0.7
        req = sorted(rng.sample(self.nss, rng.randint(1, len(self.nss)))) \
            if explicit else (['/'] if self.style == 'star'
                              else sorted(self.nss))
        if not explicit and self.style == 'star':
            ctx.count('default_namespace_with_catch_all_handlers_only')
        self.last_req = list(req)
        wait = rng.random() < 0.7
        auth = rng.choice(AUTHS)
        akind = rng.choice(['value', 'callable'] + (
            ['coroutine'] if h.is_async else []))
        # a callable is asked again for every connection (also the automatic
        # ones): each call yields a fresh value
        self.auth_calls = []

        def fresh():
            v = {'call': len(self.auth_calls) + 1, 'auth': auth}
            self.auth_calls.append(v)
            return v
        if akind == 'callable':
            authv = fresh
        elif akind == 'coroutine':
            async def authv():
                return fresh()
        else:
            authv = auth
        self.auth_kind = akind
        plan = rng.choice(['all', 'all', 'all', 'partial', 'none', 'silent'])
        self.decisions = {}
        for ns in req:
            self.decisions[ns] = 'accept'
        if plan == 'partial' and len(req) > 1:
            bad = rng.choice(req)
            self.decisions[bad] = ('refuse', rng.choice(
                [{'message': 'no'}, 'denied', ['x', 1]]))
        elif plan == 'partial':
            plan = 'all'
        elif plan == 'none':
            for ns in req:
                self.decisions[ns] = ('refuse', {'message': 'go away'})
        elif plan == 'silent':
            self.decisions[rng.choice(req)] = 'silent'
        self.hold_answers = not wait
        self.root_refused = False
        self.accepted = {}
        self.refused = {}
        self.epoch_accepted = set()
        self.connect_frames = []
        ev0 = len(self.events)
        op = ['connect', req if explicit else None, wait, akind, auth,
              {k: (v if isinstance(v, str) else 'refuse')
               for k, v in self.decisions.items()}]
        self.ops.append(op)
        kw = {'wait': wait, 'auth': authv}
        if explicit:
            kw['namespaces'] = req if len(req) > 1 or rng.random() < 0.5 \
                else req[0]
        exc = None
        # schedule choice (threaded client): the read-loop thread handles the
        # server's answers before / after engineio's connect() has returned
        h.eager_after_connect = (not h.is_async) and rng.random() < 0.4
        if h.eager_after_connect:
            ctx.count('connects_with_eager_read_loop')
        try:
            h.api('connect', 'http://host', **kw)
        except Exception as e:
            exc = e
        finally:
            h.eager_after_connect = False
        errs = h.all_errors()
        if errs:
            return self.fail('error escaped during connect(): %s' %
                             errs[0]['exc'], {'op': op})
        # one CONNECT per requested namespace carrying the auth value
        frames = sorted((f[1], ) for f in self.connect_frames)
        ctx.count('connect_frames_checked', len(self.connect_frames))
        if frames != sorted((ns,) for ns in req):
            return self.fail('CONNECT frames for %r, requested %r' % (
                [f[1] for f in self.connect_frames], req), {'op': op})
        for _, ns, data in self.connect_frames:
            want_auth = (auth or {}) if akind == 'value' else (
                self.auth_calls[-1] if self.auth_calls else None)
            if akind != 'value' and any(
                    R.deep_eq(data, v) for v in self.auth_calls):
                # (one call per namespace or one per connection: both carry
                # a value obtained for this connection)
                continue
            if not R.deep_eq(data, want_auth):
                return self.fail('CONNECT for %r carries %r, auth is %r' % (
                    ns, data, want_auth), {'op': op})
        self.auth_seen = len(self.auth_calls)
        evs = self.events[ev0:]
        all_ok = all(d == 'accept' for d in self.decisions.values())
        if wait:
            if all_ok:
                if exc is not None:
                    return self.fail('connect(wait=True) raised %r although '
                                     'every namespace was accepted' % exc,
                                     {'op': op})
                self.up = True
                cn = sorted(e[1] for e in evs if e[0] == 'connect')
                if cn != req:
                    return self.fail('connect handlers ran for %r, accepted '
                                     '%r' % (cn, req), {'op': op})
                ctx.count('successful_connects')
                if self.mirror('after connect(wait=True)') is False:
                    return
                if not h.c.connected:
                    return self.fail('connected is False after a successful '
                                     'connect()', {'op': op})
                # whatever way the previous connection ended (also with
                # `connected` already False: last namespace ended by the
                # server, failed connect(), CONNECT_ERROR), nothing of it may
                # be visible now
                self.check_no_survivors()
                if self.failed:
                    return
            else:
                self.up = False
                if exc is None or type(exc).__name__ != 'ConnectionError':
                    return self.fail('connect(wait=True) returned %r although'
                                     ' not every namespace was accepted' % (
                                         exc,), {'op': op})
                refused = sorted(ns for ns, d in self.decisions.items()
                                 if isinstance(d, tuple))
                ce = sorted(e[1] for e in evs if e[0] == 'connect_error')
                if ce != refused:
                    return self.fail('connect_error handlers ran for %r, '
                                     'refused were %r' % (ce, refused),
                                     {'op': op})
                for e in evs:
                    if e[0] == 'connect_error':
                        d = self.decisions[e[1]][1]
                        want = list(d) if isinstance(d, list) else [d]
                        if not R.deep_eq(e[2], want):
                            return self.fail('connect_error handler got %r, '
                                             'refusal data %r' % (e[2], d),
                                             {'op': op})
                ctx.count('failed_connects')
                # the client must be fully disconnected now: the server saw
                # DISCONNECT frames / the transport close
                self.accepted = {}
                c = h.c
                if c.connected or dict(c.namespaces) or \
                        any(c.get_sid(ns) for ns in POOL) or \
                        h.eio.state != 'disconnected':
                    cls = 'partial_acceptance_state' if (
                        not c.connected and h.eio.state == 'disconnected'
                        and set(c.namespaces) <= set(req)) else None
                    if self.fail('after ConnectionError from connect() the '
                                 'client is not fully disconnected: connected'
                                 '=%r namespaces=%r eio=%r' % (
                                     c.connected, dict(c.namespaces),
                                     h.eio.state), {'op': op, 'class': cls}):
                        return
                    # known finding: does emit on the stale namespace raise?
                    ctx.count('partial_acceptance_stale')
                    c.namespaces = {}
                ctx.case((self.kind, 'connect_failed', plan, len(req),
                          akind), {'op': op})
                return
        else:
            if exc is not None:
                return self.fail('connect(wait=False) raised %r' % exc,
                                 {'op': op})
            self.up = True
            if self.mirror('after connect(wait=False), before any answer') \
                    is False:
                return
            order = list(self.script.pending)
            rng.shuffle(order)
            self.script.pending = []
            for ns, dec in order:
                self.ops.append(['answer', ns, dec if isinstance(dec, str)
                                 else 'refuse'])
                self.script.answer(h, ns, dec)
                h.pump()
                cls = None
                if isinstance(dec, tuple) and ns == '/':
                    self.root_refused = True
                    if len(self.accepted) > 0:
                        cls = 'connect_error_root'
                r = self.mirror('after the answer for %r' % ns, cls)
                if r is False:
                    return
                if r is None:
                    self.resync()
            ctx.count('nowait_connects')
            if self.root_refused and len(req) > 1:
                # the rest of this connection is under the listed
                # CONNECT_ERROR-on-'/' finding: abandon it unjudged
                ctx.count('root_refused_connections_abandoned')
                try:
                    h.api('disconnect')
                except Exception:
                    pass
                if h.eio.state != 'disconnected':
                    return self.fail('could not end the connection',
                                     {'op': op})
                h.clear_errors()
                self.accepted = {}
                self.up = False
                self.root_refused = False
                return
            if not self.accepted and not h.c.namespaces:
                # nothing accepted: the transport is still up; end it
                self.up = bool(h.c.connected)
        ctx.case((self.kind, 'connect', plan, len(req), wait, akind,
                  self.style, bool(auth)), {'op': op})

    # ------------------------------------------------------------ emitting
    def do_emit(self):
        rng, ctx, h = self.rng, self.ctx, self.h
        ns = rng.choice(POOL)
        self.tok += 1
        how = rng.choice(['emit', 'send', 'call', 'emit_cb'])
        op = [how, ns, self.tok]
        self.ops.append(op)
        n0 = len(h.sent)
        exc = None
        try:
            if how == 'emit':
                h.api('emit', 'tok', {'t': self.tok}, namespace=ns)
            elif how == 'emit_cb':
                def cb(*a, _t=self.tok):
                    self.cb_fired.append(_t)
                h.api('emit', 'tok', {'t': self.tok}, namespace=ns,
                      callback=cb)
            elif how == 'send':
                h.api('send', {'t': self.tok}, namespace=ns)
            else:
                if h.is_async:
                    h.run(h.c.call('tok', {'t': self.tok}, namespace=ns,
                                   timeout=1), horizon=3)
                else:
                    h.api('call', 'tok', {'t': self.tok}, namespace=ns,
                          timeout=1)
        except Exception as e:
            exc = e
        new = h.sent[n0:]
        ctx.count('emits_judged')
        if ns not in self.accepted:
            if type(exc).__name__ != 'BadNamespaceError' or new:
                return self.fail('%s on %r (not connected): raised %r, sent '
                                 '%r; expected BadNamespaceError and nothing '
                                 'sent' % (how, ns, exc, new), {'op': op})
            ctx.count('bad_namespace_checked')
        else:
            ok_exc = exc is None or (how == 'call' and
                                     type(exc).__name__ == 'TimeoutError')
            if not ok_exc or len(new) != 1 or new[0]['nsp'] != ns:
                return self.fail('%s on connected %r: raised %r, sent %r' % (
                    how, ns, exc, new), {'op': op})
            if how in ('emit_cb', 'call') and new[0]['id'] is not None:
                self.stale_cb.append((ns, new[0]['id'], self.tok,
                                      len(h.attempts)))
        ctx.case((self.kind, how, ns in self.accepted), None)

    # ---------------------------------------------------------------- ends
    def expect_disconnects(self, ev0, want, reason, op, cls=None):
        got = [(e[1], e[2]) for e in self.events[ev0:]
               if e[0] == 'disconnect']
        others = [e for e in self.events[ev0:] if e[0] not in (
            'disconnect',)]
        self.ctx.count('disconnect_accounting')
        if sorted(got) != sorted((ns, reason) for ns in want):
            extra = {'op': op}
            if cls is None and self.root_refused and not got:
                # downstream of the listed CONNECT_ERROR-on-'/' finding: the
                # cleared 'connected' flag suppresses later notifications
                cls = 'connect_error_root'
            if cls:
                extra['class'] = cls
            r = self.fail('disconnect handlers ran for %r, expected %r with '
                          'reason %r' % (got, sorted(want), reason), extra)
            return False if r else None
        if [e for e in others if e[0] in ('connect_error',)]:
            self.fail('unexpected handler %r' % others, {'op': op})
            return False
        return True

    def do_server_disconnect(self):
        rng, ctx, h = self.rng, self.ctx, self.h
        connected_pick = self.accepted and rng.random() < 0.8
        ns = rng.choice(sorted(self.accepted)) if connected_pick else \
            rng.choice(POOL)
        if getattr(self, 'force_ns', None) is not None:
            ns = self.force_ns
        was = ns in self.accepted
        op = ['server_disconnect', ns, was]
        self.ops.append(op)
        ev0 = len(self.events)
        reconnecting = False
        self.accepted.pop(ns, None)
        last = was and not self.accepted
        n_att = len(h.attempts)
        if last and self.reconnection:
            # ending the last namespace is an intentional end: no reconnect
            pass
        h.server_send(R.DISCONNECT, ns)
        errs = h.all_errors()
        if errs:
            return self.fail('error escaped: %s' % errs[0]['exc'],
                             {'op': op})
        cls = None if was else 'disconnect_unconnected_namespace'
        r = self.expect_disconnects(ev0, [ns] if was else [],
                                    'server disconnect', op, cls)
        if r is False:
            return
        if not was:
            ctx.count('server_disconnect_unconnected_ns')
        if len(h.attempts) != n_att:
            return self.fail('client reconnected after the server '
                             'disconnected it', {'op': op})
        if last:
            self.up = False
            if h.eio.state != 'disconnected':
                return self.fail('transport still %r after the last '
                                 'namespace was ended by the server' %
                                 h.eio.state, {'op': op})
        r2 = self.mirror('after server DISCONNECT %r' % ns, cls)
        if r2 is False:
            return
        if r2 is None or r is None:
            self.resync()
        ctx.case((self.kind, 'server_disconnect', was, last,
                  len(self.accepted)), {'op': op})
        del reconnecting

    def end_all(self, how):
        rng, ctx, h = self.rng, self.ctx, self.h
        want = sorted(self.accepted)
        op = [how, want]
        self.ops.append(op)
        ev0 = len(self.events)
        n_att = len(h.attempts)
        self.client_disconnect_frames = []
        reason = {'client_disconnect': 'client disconnect',
                  'server_close': 'server disconnect',
                  'lose': 'transport error'}[how]
        will_reconnect = how == 'lose' and self.reconnection and \
            h.eio.state == 'connected'
        pre = dict(self.accepted)
        self.decisions = {ns: 'accept' for ns in POOL}
        self.hold_answers = False
        self.epoch_accepted = set() if will_reconnect else \
            self.epoch_accepted
        if how == 'client_disconnect':
            frames_want = sorted(self.accepted)
            h.api('disconnect')
            self.accepted = {}
            if sorted(self.client_disconnect_frames) != frames_want:
                return self.fail('disconnect() sent DISCONNECT for %r, '
                                 'connected were %r' % (
                                     self.client_disconnect_frames,
                                     frames_want), {'op': op})
        elif how == 'server_close':
            self.accepted = {}
            h.server_close()
        else:
            self.accepted = {}
            h.lose()
        errs = h.all_errors()
        if errs:
            return self.fail('error escaped: %s' % errs[0]['exc'],
                             {'op': op})
        if self.expect_disconnects(ev0, want, reason, op) is not True:
            return
        if will_reconnect:
            if len(h.attempts) != n_att + 1:
                return self.fail('expected one reconnection attempt, saw %d'
                                 % (len(h.attempts) - n_att), {'op': op})
            ctx.count('auto_reconnects')
            cn = sorted(e[1] for e in self.events[ev0:]
                        if e[0] == 'connect')
            req = sorted(f[1] for f in self.connect_frames
                         if f[0] == len(h.attempts))
            if getattr(self, 'auth_kind', 'value') != 'value':
                # the reconnection asked the auth callable again: its
                # CONNECTs carry a value obtained after the loss
                ctx.count('reconnections_with_callable_auth')
                fresh_vals = self.auth_calls[getattr(self, 'auth_seen', 0):]
                for f in self.connect_frames:
                    if f[0] == len(h.attempts) and not any(
                            R.deep_eq(f[2], v) for v in fresh_vals):
                        return self.fail(
                            'the automatic reconnection sent CONNECT %r '
                            'carrying %r: not a value the auth callable '
                            'returned for this connection (%r)' % (
                                f[1], f[2], fresh_vals), {'op': op})
                self.auth_seen = len(self.auth_calls)
            if cn != sorted(self.accepted):
                return self.fail('after reconnection connect handlers ran '
                                 'for %r, accepted %r' % (
                                     cn, sorted(self.accepted)), {'op': op})
            # the automatic reconnection asks for what the application
            # asked for in its connect() call: no more, no less
            ctx.count('reconnection_namespace_sets_checked')
            if req != sorted(self.last_req):
                return self.fail(
                    'connect() was called for namespaces %r (handlers are '
                    'registered for %r); after a transport loss the '
                    'automatic reconnection sent CONNECT for %r' % (
                        sorted(self.last_req), sorted(self.nss), req),
                    {'op': op})
            self.up = True
        else:
            if len(h.attempts) != n_att:
                return self.fail('client reconnected after an intentional '
                                 'end (%s)' % how, {'op': op})
            self.up = False
            if h.eio.state != 'disconnected':
                return self.fail('transport state %r after %s' % (
                    h.eio.state, how), {'op': op})
        if self.mirror('after ' + how) is False:
            return
        del pre
        ctx.case((self.kind, how, len(want), will_reconnect), {'op': op})
        # nothing of the previous connection survives
        self.check_no_survivors()

    def check_no_survivors(self):
        """Callbacks and half-received binary packets of earlier connections
        must not be visible in the current one."""
        h, ctx = self.h, self.ctx
        if not self.accepted:
            return
        cur = len(h.attempts)
        for ns, pid, tok, epoch in list(self.stale_cb):
            if epoch >= cur or ns not in self.accepted:
                continue
            self.stale_cb.remove((ns, pid, tok, epoch))
            n0 = len(self.cb_fired)
            h.server_send(R.ACK, ns, pid, ['late'])
            ctx.count('stale_ack_probes')
            if len(self.cb_fired) != n0 and self.cb_fired[-1] == tok:
                return self.fail('a callback registered in an earlier '
                                 'connection fired in the next one',
                                 {'op': ['stale_ack', ns, pid]})
        errs = h.all_errors()
        if errs:
            return self.fail('error escaped on a late ACK: %s' %
                             errs[0]['exc'])
        ns = sorted(self.accepted)[0]
        self.tok += 1
        ev0 = len(self.events)
        h.server_send(R.EVENT, ns, None, ['ping', self.tok])
        got = [e for e in self.events[ev0:] if e[0] == 'event']
        ctx.count('post_reconnect_probes')
        if len(got) != 1 or got[0][2] != [self.tok]:
            return self.fail('first event of a new connection was not '
                             'handled normally (got %r, errors %r)' % (
                                 got, h.all_errors()),
                             {'op': ['probe_event', ns]})

    def do_connect_again(self):
        """connect() on a client that is connected is refused and changes
        nothing: the namespaces, session ids and the parameters kept for a
        reconnection stay those of the live connection."""
        h, ctx = self.h, self.ctx
        if not (self.up and self.accepted and h.c.connected):
            return
        op = ['connect_again']
        self.ops.append(op)
        n_att = len(h.attempts)
        nframes = len(self.connect_frames)
        exc = None
        try:
            h.api('connect', 'http://elsewhere',
                  namespaces=['/other'], auth={'other': 1}, wait=True)
        except Exception as e:
            exc = e
        ctx.count('connects_while_connected')
        if exc is None or type(exc).__name__ != 'ConnectionError':
            return self.fail('connect() on a connected client %s' % (
                'returned' if exc is None else 'raised %r' % exc),
                {'op': op})
        if len(h.attempts) != n_att or len(self.connect_frames) != nframes:
            return self.fail('connect() on a connected client reached the '
                             'transport', {'op': op})
        if h.all_errors():
            return self.fail('error escaped: %s' % h.all_errors()[0]['exc'],
                             {'op': op})
        self.mirror('after a refused second connect()')

    def do_partial_binary(self):
        """Half of a binary event, then the connection ends."""
        h = self.h
        if not self.accepted or self.serializer != 'default':
            return
        ns = sorted(self.accepted)[0]
        self.ops.append(['partial_binary', ns])
        h.server_send(R.EVENT, ns, None, ['ping', b'a', b'b'], partial=2)
        self.ctx.count('partial_binary_then_end')
        # (a server may not send any other frame while attachments are owed,
        # so the only ways for the connection to end here are transport-level)
        self.end_all(self.rng.choice(['lose', 'lose', 'server_close',
                                      'client_disconnect']))

    def step(self):
        rng = self.rng
        r = rng.random()
        if not self.up and not self.accepted:
            if self.h.eio.state != 'disconnected':
                # connected transport without namespaces (all refused with
                # wait=False): end it
                self.end_all('client_disconnect')
                return
            return self.do_connect()
        if r < 0.35:
            return self.do_emit()
        if r < 0.55:
            return self.do_server_disconnect()
        if r < 0.63:
            return self.do_partial_binary()
        if r > 0.96:
            return self.do_connect_again()
        if r < 0.9:
            return self.end_all(rng.choice(['client_disconnect',
                                            'server_close', 'lose', 'lose']))
        return self.do_emit()

    def close(self):
        self.h.close()


def overlapping_server_disconnects(ctx, k):
    """The server ends two (or all) namespaces back to back while the
    application's disconnect handler of the first is still running
    (python-engineio dispatches every incoming message on its own thread /
    task).  Afterwards the client's view is exact: the ended namespaces are
    gone, each disconnect handler ran once, and if none is left the client is
    disconnected for good - transport closed, no reconnection."""
    rng = ctx.case_rng(12 * 10 ** 7 + k)
    kind = 'sync' if k % 2 == 0 else 'async'
    nss = rng.choice([['/a', '/b'], ['/', '/a'], ['/', '/a', '/b']])
    ended = rng.sample(nss, 2) if rng.random() < 0.5 else list(nss)
    rng.shuffle(ended)
    h = E.make_client(kind, client_kw={
        'reconnection': True, 'reconnection_delay': 0.1,
        'reconnection_delay_max': 0.2, 'randomization_factor': 0,
        'reconnection_attempts': 2})
    events = []
    slow = ended[0]
    try:
        def mk(ns):
            if h.is_async:
                async def on_disconnect(reason=None):
                    events.append(('disconnect', ns, reason))
                    if ns == slow:
                        await asyncio.sleep(0.5)
                    events.append(('disconnect_done', ns))
            else:
                def on_disconnect(reason=None):
                    events.append(('disconnect', ns, reason))
                    if ns == slow:
                        h.pump()    # the other message threads run meanwhile
                    events.append(('disconnect_done', ns))
            return on_disconnect
        for ns in nss:
            h.c.on('disconnect', mk(ns), namespace=ns)
        h.api('connect', 'http://h', namespaces=list(nss), wait=True)
        n_att = len(h.attempts)
        for ns in ended:
            h.deliver(R.DISCONNECT, ns)
        h.pump()
        left = [ns for ns in nss if ns not in ended]
        c = h.c
        w = {'part': 'overlapping_server_disconnects', 'case_index': k,
             'kind': kind, 'namespaces': nss, 'ended_in_order': ended,
             'events': [list(e) for e in events],
             'client_namespaces': sorted(c.namespaces),
             'connected': bool(c.connected), 'eio_state': h.eio.state,
             'attempts': len(h.attempts) - n_att,
             'errors': h.all_errors()[:3]}
        ctx.count('overlapping_server_disconnects')
        handled = sorted(e[1] for e in events if e[0] == 'disconnect')
        if h.all_errors():
            ctx.violation(None, 'overlapping server DISCONNECTs: error '
                          'escaped (%s)' % h.all_errors()[0]['exc'], w)
            return
        if handled != sorted(ended) or sorted(c.namespaces) != sorted(left) \
                or bool(c.connected) != bool(left) or \
                any(c.get_sid(ns) for ns in ended):
            ctx.violation(None, 'the server ended %r back to back (first '
                          'disconnect handler still running): handlers ran '
                          'for %r, client lists %r, connected=%r' % (
                              ended, handled, sorted(c.namespaces),
                              bool(c.connected)), w)
            return
        if not left:
            if h.eio.state != 'disconnected':
                ctx.violation(None, 'every namespace was ended by the server '
                              'but the transport is still %r' % h.eio.state,
                              w)
                return
            # an intentional end: a (late) transport failure must not start
            # a reconnection
            h.lose()
            if len(h.attempts) != n_att:
                ctx.violation(None, 'client reconnected after the server had '
                              'ended all its namespaces', w)
                return
        else:
            for ns in ended:
                try:
                    h.api('emit', 'x', {'a': 1}, namespace=ns)
                except Exception as e:
                    if type(e).__name__ != 'BadNamespaceError':
                        ctx.violation(None, 'emit on an ended namespace '
                                      'raised %r' % e, w)
                        return
                else:
                    ctx.violation(None, 'emit on a namespace the server '
                                  'ended did not raise BadNamespaceError', w)
                    return
        ctx.case(('overlapping_server_disconnects', kind, len(nss),
                  len(ended)), w)
    finally:
        h.close()


def stale_answer_then_connect(ctx, k):
    """The server's CONNECT answer for one namespace has been received but
    its message thread / task has not run yet when the transport is lost
    (python-engineio dispatches every message on its own thread or task);
    it runs after the loss has been processed.  The application then calls
    connect() on the same client object again: the new connection is a new
    connection - every namespace's connect handler runs for it and the
    session ids are the new ones."""
    rng = ctx.case_rng(11 * 10 ** 7 + k)
    kind = rng.choice(['sync', 'async'])

    class Srv(E.ServerScript):
        hold = True
        n = 0

        def on_packet(self, h, pkt):
            if pkt['type'] == R.CONNECT and not self.hold:
                self.n += 1
                h.deliver(R.CONNECT, pkt['nsp'], None,
                          {'sid': 'new-%d' % self.n})
    srv = Srv()
    h = E.make_client(kind, script=srv, client_kw={'reconnection': False})
    ran = []
    for ns in ('/', '/b'):
        h.on('connect', (lambda ns: lambda: ran.append(
            (ns, len(h.attempts))))(ns), ns, False)
        h.on('disconnect', lambda *a: None, ns, False)
    late = rng.choice(['/', '/b'])
    w = {'part': 'stale_answer_then_connect', 'case_index': k, 'kind': kind,
         'late_answer_for': late}
    try:
        h.api('connect', 'http://host', namespaces=['/', '/b'], wait=False)
        if kind == 'sync':
            h.deliver(R.CONNECT, late, None, {'sid': 'old-sid'})
            h.lose(pump=False)
            h.pump()
        else:
            async def go():
                h.deliver(R.CONNECT, late, None, {'sid': 'old-sid'})
                await h.a_lose()
            h.run(go())
        h.clear_errors()
        srv.hold = False
        del ran[:]
        try:
            h.api('connect', 'http://host', namespaces=['/', '/b'],
                  wait=True)
            exc = None
        except Exception as e:
            exc = repr(e)
        sids = {}
        for ns in ('/', '/b'):
            try:
                sids[ns] = h.c.get_sid(ns)
            except Exception as e:
                sids[ns] = 'raised ' + type(e).__name__
        ctx.count('connects_after_a_stale_answer')
        w.update(connect_raised=exc, connect_handlers=ran, sids=sids)
        if exc or sorted(n for n, _ in ran) != ['/', '/b'] or \
                any(not str(v).startswith('new-') for v in sids.values()):
            ctx.violation(None, 'connect() on a client whose previous '
                          'connection was lost while the CONNECT answer for '
                          '%r was still waiting for its message thread: '
                          'raised %s, connect handlers ran for %r, session '
                          'ids %r' % (late, exc, [n for n, _ in ran], sids),
                          w)
        else:
            ctx.case(('stale_answer_then_connect', kind, late), None)
    finally:
        try:
            h.api('disconnect')
        except Exception:
            pass
        h.close()


def empty_namespace_list(ctx, k):
    """connect(namespaces=[]): the application asked for no namespace (a
    list computed at run time that came out empty).  No CONNECT is sent, no
    connect handler runs, and every emit raises BadNamespaceError."""
    rng = ctx.case_rng(9 * 10 ** 7 + k)
    kind = rng.choice(['sync', 'async'])
    h = E.make_client(kind, client_kw={'reconnection': rng.random() < 0.5})
    ran = []
    style = rng.choice(['func', 'class', 'both'])
    import socketio
    for ns in ('/', '/a'):
        if style in ('func', 'both'):
            h.on('connect', (lambda ns: lambda: ran.append(ns))(ns), ns,
                 False)
        if style in ('class', 'both'):
            base = socketio.AsyncClientNamespace if h.is_async else \
                socketio.ClientNamespace
            h.c.register_namespace(type('CN', (base,), {
                'on_connect': (lambda ns: lambda self_: ran.append(ns))(ns)}
            )(ns))
    w = {'part': 'empty_namespace_list', 'case_index': k, 'kind': kind,
         'style': style}
    try:
        try:
            h.api('connect', 'http://host', namespaces=[], wait=False)
        except Exception as e:
            ctx.violation(None, 'connect(namespaces=[]) raised %r' % e, w)
            return
        frames = [p for p in h.sent if p['type'] == R.CONNECT]
        out = []
        for ns in ('/', '/a'):
            try:
                h.api('emit', 'x', 1, namespace=ns)
                out.append('sent')
            except Exception as e:
                out.append(type(e).__name__)
        ctx.count('connects_with_an_empty_namespace_list')
        w.update(connect_frames=[p['nsp'] for p in frames],
                 connect_handlers=ran, emits=out,
                 namespaces=dict(h.c.namespaces))
        if frames or ran or h.c.namespaces or \
                out != ['BadNamespaceError'] * 2 or h.all_errors():
            ctx.violation(None, 'connect(namespaces=[]) sent CONNECT for %r, '
                          'ran connect handlers for %r; emits: %r' % (
                              [p['nsp'] for p in frames], ran, out), w)
        else:
            ctx.case(('empty_namespace_list', kind, style), None)
    finally:
        try:
            h.api('disconnect')
        except Exception:
            pass
        h.close()


def slow_connect_handler(ctx, k):
    """connect(wait=True) succeeds when the server has accepted every
    namespace - also when the application's connect handler of the last one
    is still running at the moment the wait times out (the namespace is
    recorded before the handler runs, the event is set after it)."""
    import threading
    import time
    rng = ctx.case_rng(4 * 10 ** 7 + k)
    kind = 'sync' if k % 2 == 0 else 'async'
    nss = ['/', '/a'][:rng.choice([1, 2])]
    slow_ns = rng.choice(nss)
    h = E.make_client(kind, client_kw={'reconnection': False})
    events = []
    try:
        if kind == 'async':
            def mk(ns):
                async def on_connect():
                    events.append(('connect', ns))
                    if ns == slow_ns:
                        await asyncio.sleep(0.6)
                return on_connect
            for ns in nss:
                h.c.on('connect', mk(ns), namespace=ns)
            exc = None
            try:
                h.api('connect', 'http://h', namespaces=list(nss), wait=True,
                      wait_timeout=0.2)
            except Exception as e:
                exc = e
        else:
            # real threads for the message handlers and a real Event, so
            # that the wait can time out while a handler is still running
            def start(target, *a, **kw):
                th = threading.Thread(target=target, args=a, kwargs=kw,
                                      daemon=True)
                th.start()
                return th
            h.eio.start_background_task = start
            h.eio.create_event = lambda *a, **kw: threading.Event()

            def mk(ns):
                def on_connect():
                    events.append(('connect', ns))
                    if ns == slow_ns:
                        time.sleep(0.12)
                return on_connect
            for ns in nss:
                h.c.on('connect', mk(ns), namespace=ns)
            exc = None
            try:
                h.c.connect('http://h', namespaces=list(nss), wait=True,
                            wait_timeout=0.04)
            except Exception as e:
                exc = e
            time.sleep(0.15)
        sent = [(p['type'], p['nsp']) for p in h.sent]
        w = {'part': 'slow_connect_handler', 'case_index': k, 'kind': kind,
             'namespaces': nss, 'slow': slow_ns, 'exception': repr(exc),
             'sent': sent, 'connected': bool(h.c.connected),
             'client_namespaces': sorted(h.c.namespaces)}
        ctx.count('slow_connect_handler_scenarios')
        if exc is not None or not h.c.connected or \
                sorted(h.c.namespaces) != sorted(nss) or \
                any(t == R.DISCONNECT for t, _ in sent):
            ctx.violation(None, 'connect(wait=True): every namespace was '
                          'accepted, the connect handler of %r was still '
                          'running when the wait timed out: %s' % (
                              slow_ns, 'raised %r' % exc if exc else
                              'client state %r' % (w['client_namespaces'],)),
                          w)
        else:
            ctx.case(('slow_connect_handler', kind, len(nss),
                      slow_ns == nss[-1]), w)
    finally:
        h.close()


def run_case(ctx, k):
    if k % 40 == 7 or k % 40 == 8:
        return slow_connect_handler(ctx, k)
    if k % 40 in (17, 18, 27, 28):
        return overlapping_server_disconnects(ctx, k)
    if k % 40 in (33, 34):
        return empty_namespace_list(ctx, k)
    if k % 40 in (35, 36):
        return stale_answer_then_connect(ctx, k)
    rng = ctx.case_rng(k)
    h = History(ctx, rng, 'sync' if k % 2 == 0 else 'async', k)
    try:
        for _ in range(rng.choice([10, 20, 40])):
            h.step()
            if h.failed:
                break
    finally:
        h.close()


def run(ctx):
    ctx.rule = ('histories over {connect(namespaces, auth value/callable/'
                'coroutine, wait), server CONNECT / CONNECT_ERROR / silence '
                'per namespace in any order, emit/send/call on connected and '
                'unconnected namespaces, server DISCONNECT of connected and '
                'unconnected namespaces, client disconnect(), engine.io '
                'CLOSE, transport loss incl. mid binary packet and with '
                'callbacks outstanding, automatic and manual reconnect}; '
                'after every step client.namespaces / get_sid / connected '
                'are compared with the script-side model; handler '
                'invocations are accounted per namespace and epoch')
    ctx.assumptions = [
        'connected is judged only once a namespace has been accepted in the '
        'current connection or after the connection ended']
    ctx.require('mirror_checks', 200)
    ctx.require('successful_connects', 30)
    ctx.require('histories_with_lifecycle_handlers_under_catch_all', 5)
    ctx.require('connects_with_an_empty_namespace_list', 5)
    ctx.require('connects_after_a_stale_answer', 5)
    ctx.require('reconnection_namespace_sets_checked', 5)
    ctx.require('failed_connects', 10)
    ctx.require('nowait_connects', 10)
    ctx.require('bad_namespace_checked', 30)
    ctx.require('disconnect_accounting', 50)
    ctx.require('post_reconnect_probes', 10)
    ctx.require('connects_while_connected', 5)
    ctx.require('default_namespace_with_catch_all_handlers_only', 5)
    ctx.require('reconnections_with_callable_auth', 5)
    ctx.require('partial_binary_then_end', 5)
    ctx.require('connects_with_eager_read_loop', 20)
    ctx.require('slow_connect_handler_scenarios', 4)
    ctx.require('overlapping_server_disconnects', 8)
    k = 0
    while not ctx.out_of_time() and not ctx.too_many_violations():
        run_case(ctx, k)
        ctx.count('histories')
        k += 1


def replay(ctx, w):
    if w['witness'].get('part') == 'overlapping_server_disconnects':
        return overlapping_server_disconnects(ctx,
                                              w['witness']['case_index'])
    if w['witness'].get('part') == 'slow_connect_handler':
        return slow_connect_handler(ctx, w['witness']['case_index'])
    if w['witness'].get('part') == 'stale_answer_then_connect':
        return stale_answer_then_connect(ctx, w['witness']['case_index'])
    if w['witness'].get('part') == 'empty_namespace_list':
        return empty_namespace_list(ctx, w['witness']['case_index'])
    run_case(ctx, w['witness']['case_index'])
