"""C10 Client reconnection: only after accidental loss, bounded back-off and
attempts.  Fault enumeration over failure patterns x parameter grid x causes,
Client and AsyncClient, waits observed at the wait primitives (virtual).
"""
import asyncio
import itertools
import sys

from vlib import eioclient as E
from vlib import refcodec as R

LEVEL = 'fault_enumeration'
TIERS = {
    'quick': {'budget': 45, 'watchdog': 400, 'shards': 1},
    'thorough': {'budget': 420, 'watchdog': 900, 'shards': 16},
}
GRID_D = [0.5, 1, 3]
GRID_DMAX = [1, 5, 10]
GRID_RF = [0, 0.5, 1]
GRID_ATT = [0, 1, 3, 6]
NAMESPACE_SETS = [['/'], ['/a'], ['/', '/a'], ['/a', '/b']]


def classify(w):
    if w.get('class') == 'loss_after_finished_effort':
        return 'reconnect-task-stale-after-giving-up'
    return None


class Script:
    def __init__(self):
        self.modes = {}        # attempt number -> 'S' | 'N' | 'L' | 'H' | 'P'
        self.partial_ns = None
        self.n = 0
        self.connect_frames = []
        self.lost_in = set()
        self.handler_loss = set()   # attempts lost inside a connect handler

    def on_packet(self, h, pkt):
        if pkt['type'] != R.CONNECT:
            return
        att = len(h.attempts)
        self.connect_frames.append((att, pkt['nsp'], pkt['data']))
        mode = self.modes.get(att, 'S')
        if mode in ('S', 'H'):
            # 'H': every namespace is accepted, and the transport is lost
            # while the application's connect handler of the last one runs,
            # i.e. after the acknowledgements were processed and before
            # connect() has returned
            if mode == 'H':
                self.handler_loss.add(att)
            self.n += 1
            h.deliver(R.CONNECT, pkt['nsp'], None, {'sid': 's%d' % self.n})
        elif mode == 'N':
            h.deliver(R.CONNECT_ERROR, pkt['nsp'], None, {'message': 'no'})
        elif mode == 'P':
            # partial refusal: only the last requested namespace is refused,
            # the others are accepted - the attempt has failed all the same
            if pkt['nsp'] == self.partial_ns:
                h.deliver(R.CONNECT_ERROR, pkt['nsp'], None,
                          {'message': 'not this one'})
            else:
                self.n += 1
                h.deliver(R.CONNECT, pkt['nsp'], None,
                          {'sid': 's%d' % self.n})
        elif mode == 'L':
            if att not in self.lost_in:
                self.lost_in.add(att)
                if h.is_async:
                    h.loop.create_task(h.a_lose())
                else:
                    h.pending_loss = True


class EffortDoesNotEnd(Exception):
    """Raised inside the client's reconnection effort by the harness when it
    has made more back-off waits than any scenario allows (an effort that
    loops without ever reaching the transport would otherwise never end)."""


MAX_WAITS = 60


class ForcedRandom:
    """Stands in for the `random` module inside the client modules: every
    draw comes out at the quantile q of its range.  Pinning the source to the
    top (bottom) of its range must put the jittered wait at the top (bottom)
    of the interval the documentation gives for it."""

    def __init__(self, q):
        import random as _r
        self._r = _r
        self.q = q
        self.draws = 0

    def random(self):
        self.draws += 1
        return self.q

    def uniform(self, a, b):
        self.draws += 1
        return a + (b - a) * self.q

    def __getattr__(self, name):
        return getattr(self._r, name)


class Scenario:
    def __init__(self, ctx, kind, params, pattern, nss, cause, abort_at=None,
                 then=None, draw=None):
        self.ctx = ctx
        self.draw = draw
        self.forced = None
        self._unforce = []
        if draw is not None:
            import socketio.async_client
            import socketio.client
            self.forced = ForcedRandom({'hi': 1.0 - 2 ** -40, 'lo': 0.0}[draw])
            for m in (socketio.client, socketio.async_client):
                if hasattr(m, 'random'):
                    self._unforce.append((m, m.random))
                    m.random = self.forced
        self.kind = kind
        self.params = params
        self.pattern = pattern
        self.nss = nss
        # 'loss_after_ns_disconnect': the server first ends one namespace (not
        # the last one), then the transport is lost by accident: the retries
        # still ask for every namespace of the original connection
        self.pre_disc = cause == 'loss_after_ns_disconnect'
        if self.pre_disc:
            cause = 'loss'
        # 'loss_slow_handler': the application's disconnect handlers are
        # still busy while the first back-off delays would already have
        # elapsed (asyncio: they sleep; threaded: other threads - the
        # reconnect task among them - run while the handler is parked)
        self.slow_disc = cause == 'loss_slow_handler'
        if self.slow_disc:
            cause = 'loss'
        # 'server_disconnect_then_close': the server ends every namespace and
        # closes the transport at once; the loss is reported as soon as the
        # client has handled the last DISCONNECT packet, before anything the
        # client deferred to another thread / task has run
        self.close_after = cause == 'server_disconnect_then_close'
        if self.close_after:
            cause = 'server_disconnect_last'
        self.cause = cause
        self.abort_at = abort_at
        self.then = then
        self.script = Script()
        self.script.partial_ns = nss[-1]
        d, dmax, rf, att = params
        self.h = E.make_client(kind, script=self.script, client_kw=dict(
            reconnection=cause != 'disabled', reconnection_attempts=att,
            reconnection_delay=d, reconnection_delay_max=dmax,
            randomization_factor=rf))
        self.events = []
        self.backoff = []
        h = self.h
        script = self.script

        def mk_connect(ns):
            def due():
                att = len(h.attempts)
                if ns == nss[-1] and att in script.handler_loss:
                    script.handler_loss.discard(att)
                    return True
                return False
            if h.is_async:
                async def on_connect():
                    self.events.append(('connect', ns, len(h.attempts)))
                    if due():
                        await h.a_lose()
            else:
                def on_connect():
                    self.events.append(('connect', ns, len(h.attempts)))
                    if due():
                        h.lose(pump=False)
            return on_connect
        overlap = cause == 'server_disconnect_overlap'

        def mk_disconnect(ns):
            # 'server_disconnect_overlap': the server ends every namespace
            # back to back and the handlers overlap - asyncio: they suspend;
            # threaded (a thread per message): the thread of the first one
            # is parked in its handler while the others run start to finish
            if h.is_async and self.slow_disc:
                async def on_disconnect(r):
                    self.events.append(('disconnect', ns, r,
                                        len(h.attempts)))
                    await asyncio.sleep(25)
            elif self.slow_disc:
                def on_disconnect(r):
                    self.events.append(('disconnect', ns, r,
                                        len(h.attempts)))
                    h.pump()
            elif h.is_async and overlap:
                async def on_disconnect(r):
                    self.events.append(('disconnect', ns, r,
                                        len(h.attempts)))
                    await asyncio.sleep(0.01)
            else:
                def on_disconnect(r):
                    self.events.append(('disconnect', ns, r,
                                        len(h.attempts)))
                    if overlap and ns == nss[0]:
                        for other in nss[1:]:
                            h.deliver(R.DISCONNECT, other)
                        h.pump()
            return on_disconnect
        for ns in nss:
            h.c.on('connect', mk_connect(ns), namespace=ns)
            if overlap or self.slow_disc:
                h.c.on('disconnect', mk_disconnect(ns), namespace=ns)
            else:
                h.on('disconnect', mk_disconnect(ns), ns)
        h.pending_loss = False

    def w(self, extra=None):
        d, dmax, rf, att = self.params
        w = {'kind': self.kind, 'delay': d, 'delay_max': dmax,
             'randomization': rf, 'attempts': att, 'pattern': self.pattern,
             'namespaces': self.nss, 'cause': self.cause,
             'abort_at': self.abort_at, 'then': self.then,
             'attempt_log': [{k: v for k, v in a.items() if k != 'headers'}
                             for a in self.h.attempts],
             'backoff_waits': list(self.backoff), 'events': self.events,
             'errors': self.h.all_errors()}
        if extra:
            w.update(extra)
        return w

    def fail(self, what, extra=None):
        w = self.w(extra)
        self.ctx.violation(classify(w), what, w)
        return False

    # ------------------------------------------------------------------
    def arm(self, first_attempt):
        """Program the outcomes of the attempts first_attempt.."""
        h = self.h
        h.plan = []
        for i, p in enumerate(self.pattern):
            att = first_attempt + i
            if p == 'T':
                h.plan.append(('fail', 'boom'))
            else:
                h.plan.append('ok')
                self.script.modes[att] = p

    def run(self):
        h, ctx = self.h, self.ctx
        url = 'http://example/%s' % id(self) if False else 'http://ex:80/x?y=1'
        headers = {'X-Test': 'v', 'Auth': 'Bearer 1'}
        auth = {'token': 'tk'}
        transports = ['polling'] if self.params[3] % 2 else None
        kw = dict(headers=headers, auth=auth, namespaces=self.nss,
                  socketio_path='sio.path')
        if transports:
            kw['transports'] = transports
        if h.is_async:
            return self.run_async(url, kw)
        return self.run_sync(url, kw)

    # ---------------------------------------------------------- threaded
    def run_sync(self, url, kw):
        h = self.h
        state = {'n': 0, 'aborted': False}

        def idle(ev, tmo):
            if ev.label == '_handle_reconnect':
                # called once per back-off wait, when nothing else can run
                if state.get(ev) == ev.wait_seq:
                    return False
                state[ev] = ev.wait_seq
                self.backoff.append(tmo)
                if len(self.backoff) > MAX_WAITS:
                    raise EffortDoesNotEnd('%d back-off waits' %
                                           len(self.backoff))
                if self.abort_at is not None and \
                        len(self.backoff) == self.abort_at:
                    state['aborted'] = True
                    h.c.shutdown()
                    return True
                return False
            if ev.label == 'connect' and h.pending_loss:
                h.pending_loss = False
                h.lose(pump=False)
                return True
            return False
        h.idle_hook = idle
        h.api('connect', url, **kw)
        if not h.c.connected:
            return self.fail('initial connect failed')
        self.arm(2)
        if self.then == 'shutdown_in_flight_then_loss':
            def in_flight():
                if len(h.attempts) == 2:
                    # another thread calls shutdown() now; it is blocked in
                    # join() until the reconnect task ends
                    h.c.shutdown()
                    self.ctx.count('shutdown_while_an_attempt_is_in_flight')
            h.connect_hook = in_flight
        self.cause_loss_sync()
        ok = self.judge(first=2)
        if ok and self.then:
            ok = self.follow_up_sync(url, kw)
        return ok

    def cause_loss_sync(self):
        h = self.h
        c = self.cause
        if c in ('loss', 'disabled'):
            if self.pre_disc and len(self.nss) > 1:
                h.server_send(R.DISCONNECT, self.nss[0])
                self.ctx.count('namespace_ended_before_the_loss')
            if self.slow_disc:
                self.ctx.count('losses_with_slow_disconnect_handler')
            h.lose()
        elif c == 'client_disconnect':
            h.api('disconnect')
        elif c == 'server_disconnect_last' and self.close_after:
            for ns in self.nss:
                h.deliver(R.DISCONNECT, ns)
                h.pump(until=h.deferred[-1])
            if [e[1] for e in self.events if e[0] == 'disconnect'] == \
                    list(self.nss):
                self.ctx.count('transport_closed_right_after_last_disconnect')
                h.lose()
            else:
                h.pump()
        elif c == 'server_disconnect_last':
            for ns in self.nss:
                h.server_send(R.DISCONNECT, ns)
        elif c == 'server_close':
            h.server_close()
        elif c == 'server_disconnect_overlap':
            h.server_send(R.DISCONNECT, self.nss[0])
            if len(self.nss) > 1:
                self.ctx.count('overlapping_server_disconnects')
            if h.eio.state == 'connected':
                # the server closes the transport it has no use for
                h.lose()

    def follow_up_sync(self, url, kw):
        h = self.h
        n0 = len(h.attempts)
        if self.then in ('loss_again', 'shutdown_in_flight_then_loss'):
            h.connect_hook = None
            if not h.c.connected:
                return True
            self.pattern = ''
            self.backoff = []
            self.arm(n0 + 1)
            if self.then != 'loss_again':
                self.ctx.count('losses_after_a_shutdown_during_an_attempt')
            h.lose()
            return self.judge(first=n0 + 1, again=True)
        if self.then == 'manual_connect_then_loss':
            if h.c.connected or h.eio.state != 'disconnected':
                return True
            self.pattern = ''
            self.backoff = []
            h.plan = []
            self.script.modes = {}
            h.api('connect', url, **kw)
            n1 = len(h.attempts)
            h.lose()
            self.ctx.count('loss_after_finished_effort')
            if len(h.attempts) != n1 + 1 or not h.c.connected:
                return self.fail(
                    'after an earlier reconnection effort had ended without '
                    'success, a new connect() followed by an accidental loss '
                    'made %d reconnection attempts (expected 1, successful)'
                    % (len(h.attempts) - n1),
                    {'class': 'loss_after_finished_effort'})
        return True

    # ----------------------------------------------------------- asyncio
    def run_async(self, url, kw):
        h = self.h
        c = h.c
        orig_wait_for = asyncio.wait_for
        sc = self

        async def wait_for(fut, timeout, **k):
            try:
                name = sys._getframe(1).f_code.co_name
            except Exception:
                name = ''
            if name == '_handle_reconnect':
                sc.backoff.append(timeout)
                if len(sc.backoff) > MAX_WAITS:
                    raise EffortDoesNotEnd('%d back-off waits' %
                                           len(sc.backoff))
                if sc.abort_at is not None and \
                        len(sc.backoff) == sc.abort_at:
                    h.loop.create_task(c.shutdown())
            return await orig_wait_for(fut, timeout, **k)
        asyncio.wait_for = wait_for
        try:
            h.api('connect', url, **kw)
            if not c.connected:
                return self.fail('initial connect failed')
            self.arm(2)
            cse = self.cause
            if self.then == 'shutdown_in_flight_then_loss':
                async def in_flight():
                    if len(h.attempts) == 2:
                        h.loop.create_task(c.shutdown())
                        await asyncio.sleep(0)
                        self.ctx.count(
                            'shutdown_while_an_attempt_is_in_flight')
                h.connect_hook = in_flight

            async def cause():
                if cse in ('loss', 'disabled'):
                    if self.pre_disc and len(self.nss) > 1:
                        h.deliver(R.DISCONNECT, self.nss[0])
                        await asyncio.sleep(0)
                        await asyncio.sleep(0)
                        self.ctx.count('namespace_ended_before_the_loss')
                    if self.slow_disc:
                        self.ctx.count('losses_with_slow_disconnect_handler')
                    await h.a_lose()
                elif cse == 'client_disconnect':
                    await c.disconnect()
                elif cse == 'server_disconnect_last' and self.close_after:
                    for ns in self.nss:
                        h.deliver(R.DISCONNECT, ns)
                    for _ in range(200):
                        if [e[1] for e in self.events
                                if e[0] == 'disconnect'] == list(self.nss):
                            self.ctx.count('transport_closed_right_after_'
                                           'last_disconnect')
                            # (only then: a loss before the last DISCONNECT
                            # has been handled would be an accidental one)
                            await h.a_lose()
                            break
                        await asyncio.sleep(0)
                elif cse == 'server_disconnect_last':
                    for ns in self.nss:
                        h.deliver(R.DISCONNECT, ns)
                elif cse == 'server_close':
                    await h.a_server_close()
                elif cse == 'server_disconnect_overlap':
                    for ns in self.nss:
                        h.deliver(R.DISCONNECT, ns)
                    await asyncio.sleep(1)
                    if len(self.nss) > 1:
                        self.ctx.count('overlapping_server_disconnects')
                    if h.eio.state == 'connected':
                        await h.a_lose()
                await asyncio.sleep(self.horizon())
            h.run(cause(), horizon=1)
            ok = self.judge(first=2)
            if ok and self.then:
                ok = self.follow_up_async(url, kw)
            return ok
        finally:
            asyncio.wait_for = orig_wait_for

    def horizon(self):
        d, dmax, rf, att = self.params
        n = len(self.pattern) + 2
        return n * (max(d, dmax) + rf + 3) + 5 + (
            60 * len(self.nss) if self.slow_disc else 0)

    def follow_up_async(self, url, kw):
        h = self.h
        c = h.c
        n0 = len(h.attempts)
        if self.then in ('loss_again', 'shutdown_in_flight_then_loss'):
            h.connect_hook = None
            if not c.connected:
                return True
            self.pattern = ''
            self.backoff = []
            self.arm(n0 + 1)
            if self.then != 'loss_again':
                self.ctx.count('losses_after_a_shutdown_during_an_attempt')

            async def again():
                await h.a_lose()
                await asyncio.sleep(self.horizon())
            h.run(again(), horizon=1)
            return self.judge(first=n0 + 1, again=True)
        if self.then == 'manual_connect_then_loss':
            if c.connected or h.eio.state != 'disconnected':
                return True
            self.pattern = ''
            self.backoff = []
            h.plan = []
            self.script.modes = {}
            h.api('connect', url, **kw)
            n1 = len(h.attempts)

            async def again():
                await h.a_lose()
                await asyncio.sleep(self.horizon())
            h.run(again(), horizon=1)
            self.ctx.count('loss_after_finished_effort')
            if len(h.attempts) != n1 + 1 or not c.connected:
                return self.fail(
                    'after an earlier reconnection effort had ended without '
                    'success, a new connect() followed by an accidental loss '
                    'made %d reconnection attempts (expected 1, successful)'
                    % (len(h.attempts) - n1),
                    {'class': 'loss_after_finished_effort'})
        return True

    # -------------------------------------------------------------- judge
    def judge(self, first, again=False):
        h, ctx = self.h, self.ctx
        d, dmax, rf, att = self.params
        errs = h.all_errors()
        if errs:
            return self.fail('error escaped during reconnection: %s' %
                             errs[0]['exc'])
        made = h.attempts[first - 1:]
        ctx.count('scenarios_judged')
        if self.then == 'shutdown_in_flight_then_loss' and not again:
            # what shutdown() does to an attempt that is already in flight is
            # not part of the property; the further loss (if the client ends
            # up connected) is
            return True
        if self.cause != 'loss':
            if made:
                return self.fail('%d connection attempts after an '
                                 'intentional end / with reconnection '
                                 'disabled (%s)' % (len(made), self.cause))
            if self.backoff:
                return self.fail('back-off wait started after %s' %
                                 self.cause)
            ctx.count('intentional_end_no_reconnect')
            return True
        # expected number of attempts
        pattern = self.pattern
        fails = len(pattern)
        limit = att if att else 10**9
        if self.abort_at is not None and self.abort_at <= min(fails + 1,
                                                             limit):
            want_attempts = self.abort_at - 1
            want_success = False
        else:
            want_attempts = min(fails + 1, limit)
            want_success = fails + 1 <= limit
        if len(made) != want_attempts:
            return self.fail('%d reconnection attempts made, expected %d' % (
                len(made), want_attempts))
        ctx.count('attempts_checked', len(made))
        orig = h.attempts[0]
        for a in made:
            for k in ('url', 'headers', 'transports', 'path'):
                if a[k] != orig[k]:
                    return self.fail('retry used %s=%r, the original '
                                     'connection used %r' % (k, a[k],
                                                             orig[k]))
        frames0 = sorted((f[1], repr(f[2])) for f in
                         self.script.connect_frames if f[0] == 1)
        for i, a in enumerate(made):
            n = first + i
            if a['outcome'] != 'ok':
                continue
            fr = sorted((f[1], repr(f[2])) for f in
                        self.script.connect_frames if f[0] == n)
            if fr != frames0:
                return self.fail('retry %d sent CONNECT frames %r, the '
                                 'original connection sent %r' % (
                                     n, fr, frames0))
        # back-off waits
        want_waits = want_attempts if (want_success or self.abort_at is None
                                       ) else want_attempts + 1
        if self.abort_at is not None and not want_success:
            want_waits = self.abort_at if self.abort_at <= min(
                fails + 1, limit) else want_attempts
        if not want_success and self.abort_at is None:
            want_waits = want_attempts
        if len(self.backoff) != want_waits:
            return self.fail('%d back-off waits observed, expected %d: %r' % (
                len(self.backoff), want_waits, self.backoff))
        for k, wv in enumerate(self.backoff, 1):
            base = min(d * 2 ** (k - 1), dmax)
            ctx.count('backoff_waits_checked')
            if not (base - rf - 1e-9 <= wv <= base + rf + 1e-9):
                return self.fail('back-off wait #%d was %r, expected %r +- '
                                 '%r' % (k, wv, base, rf))
            if self.forced is not None and self.forced.draws and rf > 0:
                # the randomisation really spreads the waits over that
                # interval: with the random source pinned to the top (bottom)
                # of its range the wait is at the top (bottom) end
                ctx.count('backoff_waits_checked_with_pinned_random_source')
                end = base + rf if self.draw == 'hi' else base - rf
                if abs(wv - end) > 0.02 * rf + 1e-9:
                    return self.fail(
                        'back-off wait #%d with the random source pinned to '
                        'the %s of its range was %r; the documented interval '
                        '%r +- %r ends at %r' % (
                            k, 'top' if self.draw == 'hi' else 'bottom', wv,
                            base, rf, end))
        # outcome
        c = h.c
        if want_success:
            if not c.connected or sorted(c.namespaces) != sorted(self.nss):
                return self.fail('after a successful reconnection connected='
                                 '%r namespaces=%r' % (c.connected,
                                                       dict(c.namespaces)))
            last = first + want_attempts - 1
            cn = sorted(e[1] for e in self.events
                        if e[0] == 'connect' and e[2] == last)
            if cn != sorted(self.nss):
                return self.fail('connect handlers after reconnection ran '
                                 'for %r, expected %r' % (cn,
                                                          sorted(self.nss)))
            ctx.count('successful_reconnections')
        else:
            if c.connected or h.eio.state != 'disconnected':
                return self.fail('effort ended without success but the '
                                 'client is connected=%r eio=%r' % (
                                     c.connected, h.eio.state))
            ctx.count('efforts_given_up' if self.abort_at is None
                      else 'efforts_aborted')
        return True

    def close(self):
        for m, orig in self._unforce:
            m.random = orig
        self._unforce = []
        self.h.close()


def patterns(maxlen_tnl, maxlen_tn):
    out = ['']
    for n in range(1, maxlen_tnl + 1):
        out += [''.join(p) for p in itertools.product(
            'TNLHP' if n <= 2 else 'TNL', repeat=n)]
    for n in range(maxlen_tnl + 1, maxlen_tn + 1):
        out += [''.join(p) for p in itertools.product('TN', repeat=n)]
    return out


def run(ctx):
    ctx.rule = ('fault enumeration: every failure pattern over {T transport '
                'refusal, N namespace refusal, P refusal of one of several '
                'namespaces, L loss during the attempt} up '
                'to length 4 (T/N up to 6) x parameter grid (delay, '
                'delay_max, randomization, attempts) x {Client, AsyncClient}'
                ' x namespace sets; abort (shutdown) at every back-off wait; '
                'intentional ends (client disconnect, server DISCONNECT of '
                'the last namespace, engine.io CLOSE, reconnection disabled);'
                ' a further loss right after a successful reconnection; '
                'distinct = (pattern, grid point, kind, cause, abort '
                'position, follow-up)')
    ctx.assumptions = [
        'waits are observed at the wait primitive (virtual); jitter is '
        'checked as a range, and - with the `random` module of the client '
        'modules replaced by a source pinned to the top / bottom of its '
        'range in half of the scenarios - for reaching both ends of it',
        'shutdown() during back-off is issued while the reconnect task is '
        'blocked in its wait (threaded: from inside the wait hook)']
    ctx.require('scenarios_judged', 300)
    ctx.require('namespace_ended_before_the_loss', 4)
    ctx.require('overlapping_server_disconnects', 4)
    ctx.require('transport_closed_right_after_last_disconnect', 4)
    ctx.require('shutdown_while_an_attempt_is_in_flight', 4)
    ctx.require('losses_after_a_shutdown_during_an_attempt', 2)
    ctx.require('losses_with_slow_disconnect_handler', 4)
    ctx.require('backoff_waits_checked', 300)
    ctx.require('backoff_waits_checked_with_pinned_random_source', 50)
    ctx.require('successful_reconnections', 50)
    ctx.require('efforts_given_up', 20)
    ctx.require('efforts_aborted', 20)
    ctx.require('intentional_end_no_reconnect', 20)
    pats = patterns(4 if ctx.tier == 'thorough' else 3, 6)
    grid = list(itertools.product(GRID_D, GRID_DMAX, GRID_RF, GRID_ATT))
    rng = ctx.rng
    jobs = []
    for kind in ('sync', 'async'):
        for params in [(1, 5, 0.5, 0), (0.5, 1, 0, 6), (1, 5, 0, 1)]:
            jobs.append((kind, params, '', 'loss', None,
                         'shutdown_in_flight_then_loss'))
    # aborts at every wait
    for p in ['TTT', 'NTN', 'TNTTNT', 'LT', '']:
        for k in range(1, len(p) + 2):
            for kind in ('sync', 'async'):
                for params in [(1, 5, 0.5, 0), (0.5, 1, 0, 6), (3, 10, 1, 3)]:
                    jobs.append((kind, params, p, 'loss', k, None))
    for p in ['', 'T', 'N', 'TN']:
        for kind in ('sync', 'async'):
            for params in [(1, 5, 0, 0), (0.5, 1, 0.5, 3)]:
                jobs.append((kind, params, p, 'loss_after_ns_disconnect',
                             None, None))
    for p in ['', 'T', 'N']:
        for kind in ('sync', 'async'):
            for params in [(1, 5, 0, 0), (0.5, 1, 0.5, 3), (1, 5, 0, 2)]:
                jobs.append((kind, params, p, 'loss_slow_handler', None,
                             None))
    # intentional ends
    for cause in ('client_disconnect', 'server_disconnect_last',
                  'server_close', 'disabled', 'server_disconnect_overlap',
                  'server_disconnect_then_close'):
        for kind in ('sync', 'async'):
            for params in grid[::5]:
                jobs.append((kind, params, 'TT', cause, None, None))
    # follow-ups
    for p in ['', 'T', 'NT', 'L', 'H', 'HT', 'P', 'LT', 'LL', 'PT']:
        for kind in ('sync', 'async'):
            for params in [(1, 5, 0.5, 0), (0.5, 1, 0, 6)]:
                jobs.append((kind, params, p, 'loss', None, 'loss_again'))
    for p in ['T', 'TT', 'N']:
        for kind in ('sync', 'async'):
            jobs.append((kind, (1, 5, 0.5, len(p)), p, 'loss', None,
                         'manual_connect_then_loss'))
            jobs.append((kind, (1, 5, 0, 0), p, 'loss', 1,
                         'manual_connect_then_loss'))
    # every pattern x grid, in layers: layer j gives every pattern its j-th
    # grid point, so that an early stop still covers all patterns
    for layer in range(len(grid)):
        for pi, p in enumerate(pats):
            for kind in ('sync', 'async'):
                params = grid[(pi * 7 + layer * 13) % len(grid)]
                jobs.append((kind, params, p, 'loss', None, None))
    ctx.extra['scenarios_planned'] = len(jobs)
    done = 0
    for i, (kind, params, p, cause, abort_at, then) in enumerate(jobs):
        if i % ctx.nshards != ctx.shard:
            continue
        if ctx.out_of_time():
            ctx.extra['stopped_early'] = True
            break
        nss = NAMESPACE_SETS[(i // 3) % len(NAMESPACE_SETS)]
        sc = Scenario(ctx, kind, params, p, nss, cause, abort_at, then,
                      draw=[None, 'hi', None, 'lo'][i % 4]
                      if params[2] > 0 else None)
        try:
            ok = sc.run()
        finally:
            sc.close()
        done += 1
        if ok:
            ctx.case((kind, params, p, cause, abort_at, then, len(nss)),
                     sc.w() if (i % 97 == 0 or then) else None)
        if ctx.too_many_violations():
            return
    else:
        ctx.exhaustive = True
    ctx.extra['scenarios_run'] = done
    del rng
