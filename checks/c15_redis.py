"""C15, bundled Redis backends end to end: a real Server/AsyncServer with a
real RedisManager/AsyncRedisManager whose `redis` client library is a fake
in-memory broker (subscriptions are honoured per pub/sub object, a connection
that was dropped stays dead).  The real listener thread/task consumes; after
every bad message / dropped connection a sentinel emit from another host must
reach the local client exactly once."""
import asyncio
import json
import pickle
import queue
import threading
import time
import types

from vlib import drive as D
from vlib import refcodec as R
from vlib.vtime import VirtualLoop, settle


class FakeRedisError(Exception):
    pass


class Broker:
    def __init__(self, is_async):
        self.is_async = is_async
        self.subs = []           # live PubSub objects
        self.lock = threading.Lock()

    def publish(self, channel, data):
        ch = channel.encode() if isinstance(channel, str) else channel
        with self.lock:
            subs = list(self.subs)
        n = 0
        for ps in subs:
            if ch in ps.channels and not ps.dead:
                ps.put({'type': 'message', 'channel': ch, 'data': data})
                n += 1
        return n

    def drop_connections(self):
        """The broker goes away: every open subscription fails."""
        with self.lock:
            subs = list(self.subs)
            self.subs = []
        for ps in subs:
            ps.dead = True
            ps.channels.clear()
            ps.put('ERR')


def make_module(broker):
    is_async = broker.is_async

    class PubSub:
        def __init__(self):
            self.channels = set()
            self.dead = False
            self.q = None if is_async else queue.Queue()

        def put(self, item):
            if is_async:
                if self.q is None:
                    self.q = asyncio.Queue()
                self.q.put_nowait(item)
            else:
                self.q.put(item)

        def _sub(self, ch):
            if self.dead:
                raise FakeRedisError('connection is closed')
            self.channels.add(ch.encode() if isinstance(ch, str) else ch)
            with broker.lock:
                if self not in broker.subs:
                    broker.subs.append(self)

        def _unsub(self, ch):
            self.channels.discard(ch.encode() if isinstance(ch, str)
                                  else ch)

        if is_async:
            async def subscribe(self, ch):
                self._sub(ch)

            async def unsubscribe(self, ch):
                self._unsub(ch)

            async def listen(self):
                if self.q is None:
                    self.q = asyncio.Queue()
                while True:
                    if self.dead and self.q.empty():
                        raise FakeRedisError('connection lost')
                    item = await self.q.get()
                    if item == 'ERR':
                        raise FakeRedisError('connection lost')
                    yield item
        else:
            def subscribe(self, ch):
                self._sub(ch)

            def unsubscribe(self, ch):
                self._unsub(ch)

            def listen(self):
                while True:
                    if self.dead and self.q.empty():
                        raise FakeRedisError('connection lost')
                    item = self.q.get()
                    if item == 'ERR':
                        raise FakeRedisError('connection lost')
                    if item == 'STOP':
                        raise SystemExit
                    yield item

    class Redis:
        @classmethod
        def from_url(cls, url, **kw):
            return cls()

        def pubsub(self, ignore_subscribe_messages=True):
            return PubSub()

        if is_async:
            async def publish(self, channel, data):
                return broker.publish(channel, data)
        else:
            def publish(self, channel, data):
                return broker.publish(channel, data)

    return types.SimpleNamespace(
        Redis=Redis, exceptions=types.SimpleNamespace(
            RedisError=FakeRedisError))


BAD = [
    lambda: pickle.dumps(5), lambda: pickle.dumps((1, 2)),
    lambda: json.dumps(['method']), lambda: json.dumps(['method', 1]),
    lambda: pickle.dumps('method'), lambda: b'\x00garbage',
    lambda: pickle.dumps({'method': 'nope', 'host_id': 'x'}),
    lambda: pickle.dumps({'method': 'emit'}),
    lambda: json.dumps({'method': 'callback', 'host_id': 'zz'}),
    lambda: pickle.dumps([{'method': 'emit'}]), lambda: pickle.dumps(7.5),
    lambda: b'', lambda: pickle.dumps({'no': 'method'}),
]


def redis_host_case(ctx, k):
    import socketio
    rng = ctx.case_rng(8 * 10 ** 7 + k)
    is_async = k % 2 == 1
    broker = Broker(is_async)
    fake = make_module(broker)
    w = {'part': 'redis_host', 'case_index': k, 'async': is_async,
         'history': []}
    if is_async:
        from socketio import async_redis_manager as M
        old = (M.aioredis, M.RedisError)
        M.aioredis, M.RedisError = fake, FakeRedisError
        loop = VirtualLoop()
        asyncio.set_event_loop(loop)
    else:
        from socketio import redis_manager as M
        old = M.redis
        M.redis = fake
        fake_time = types.SimpleNamespace(sleep=lambda s: time.sleep(0.002))
        M.time = fake_time
    d = None
    try:
        if is_async:
            mgr = socketio.AsyncRedisManager(
                'redis://x', logger=D.make_logger('redis', D.ErrorLog()))
            d = D.AsyncDrive(client_manager=mgr, loop=loop)
        else:
            mgr = socketio.RedisManager(
                'redis://x', logger=D.make_logger('redis', D.ErrorLog()))
            d = D.SyncDrive(client_manager=mgr)
        d.on('connect', lambda sid, env, auth=None: None, '/')
        t = d.open()
        t.connect('/')
        sid = t.sids['/']
        tok = [0]

        def pump():
            if is_async:
                import gc
                gc.collect()
                d.run(settle(loop))

        def sentinel(after):
            tok[0] += 1
            name = 'sent%d' % tok[0]
            msg = {'method': 'emit', 'event': name, 'data': {'n': tok[0]},
                   'namespace': '/', 'room': sid, 'skip_sid': None,
                   'callback': None, 'host_id': 'other-host'}
            pump()
            broker.publish('socketio', pickle.dumps(msg))
            got = 0
            t_end = time.time() + (0 if is_async else 10)
            while True:
                pump()
                got += sum(1 for p in t.drain() if p['type'] == R.EVENT and
                           p['data'] and p['data'][0] == name)
                if got or time.time() >= t_end:
                    break
                time.sleep(0.003)
            if not is_async and got:
                time.sleep(0.01)
                got += sum(1 for p in t.drain() if p['type'] == R.EVENT and
                           p['data'] and p['data'][0] == name)
            ctx.count('redis_sentinels_checked')
            if got != 1:
                ctx.violation(None, 'Redis backend (%s): a valid emit from '
                              'another host published %s was delivered %d '
                              'times' % ('asyncio' if is_async else
                                         'threaded', after, got), w)
                return False
            return True
        # (pub/sub keeps nothing for a subscriber that is not there yet: the
        # listener thread must have subscribed before the first message is
        # published; on a loaded machine that can take a while)
        t_end = time.time() + 20
        while True:
            pump()
            with broker.lock:
                alive = any(b'socketio' in ps.channels for ps in broker.subs)
            if alive or time.time() > t_end:
                break
            time.sleep(0.003)
        if not alive:
            ctx.count('redis_hosts_that_never_subscribed_in_time')
            return
        if not sentinel('at the start'):
            return
        for _ in range(rng.choice([3, 6, 10])):
            r = rng.random()
            if r < 0.65:
                raw = rng.choice(BAD)()
                w['history'].append(['bad', repr(raw)[:60]])
                broker.publish('socketio', raw)
                ctx.count('redis_bad_messages')
                what = 'after the bad message %r' % (repr(raw)[:50],)
            else:
                w['history'].append(['drop_connections'])
                broker.drop_connections()
                ctx.count('redis_connection_drops')
                # let the retry loop re-subscribe on a fresh connection
                t_end = time.time() + 10
                while True:
                    pump()
                    if is_async:
                        d.run(asyncio.sleep(1.5))
                    with broker.lock:
                        alive = any(b'socketio' in ps.channels
                                    for ps in broker.subs)
                    if alive or time.time() > t_end:
                        break
                    time.sleep(0.003)
                what = 'after the broker dropped every connection'
            d.clear_errors()
            if not sentinel(what):
                return
        ctx.case(('redis_host', is_async,
                  tuple(sorted({h[0] for h in w['history']}))),
                 {'part': 'redis_host', 'history': w['history'][:6]})
    finally:
        try:
            if not is_async:
                with broker.lock:
                    subs = list(broker.subs)
                for ps in subs:
                    ps.put('STOP')
            if d is not None:
                d.close()
            if is_async:
                for task in asyncio.all_tasks(loop):
                    task.cancel()
                loop.run_until_complete(asyncio.sleep(0))
                loop.run_until_complete(asyncio.sleep(0))
                loop.close()
        except Exception:
            pass
        if is_async:
            M.aioredis, M.RedisError = old
        else:
            M.redis = old
            M.time = time
