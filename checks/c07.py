"""C07 Multi-host pub/sub: a cluster behaves like one server holding all
clients.  2-4 real servers with real PubSubManager / AsyncPubSubManager joined
by an in-memory channel (pickle on the wire), plus a write-only manager; the
oracle is the single-server RoomsModel over the union of clients.

immediate mode: every host drains the channel after every operation -> exact
equivalence, operation by operation.
delayed mode: hosts consume with random lag -> at-most-once, eligibility
(addressed at some instant of the flight) and exactness for emits not raced
by a membership change.
"""
import asyncio
import collections
import copy

from vlib import pubsub_mem as PM
from vlib import refcodec as R
from vlib import scenario as S
from vlib.models import RoomsModel
from vlib.vtime import VirtualLoop, settle

LEVEL = 'exploration'
TIERS = {
    'quick': {'budget': 45, 'watchdog': 400, 'shards': 1},
    'thorough': {'budget': 420, 'watchdog': 900, 'shards': 16},
}
NAMESPACES = ['/', '/a']
ROOMS = ['r1', 'r2', 'lobby', 7]


class Cluster:
    def __init__(self, ctx, rng, kind, index, delayed):
        self.ctx, self.rng, self.kind, self.index = ctx, rng, kind, index
        self.delayed = delayed
        self.chan = PM.Channel()
        self.loop = None
        if kind == 'async':
            self.loop = VirtualLoop()
            asyncio.set_event_loop(self.loop)
        self.nh = rng.choice([2, 2, 3, 4])
        self.hosts = []
        self.mgrs = []
        cfg = S.default_config(kind=kind, served=NAMESPACES,
                               async_handlers=False,
                               coroutines=rng.random() < 0.6)
        self.cfg = cfg
        for i in range(self.nh):
            if kind == 'async':
                m = PM.make_async_manager(self.chan)
            else:
                m = PM.make_sync_manager(self.chan)
            dkw = {'client_manager': m}
            if self.loop is not None:
                dkw['loop'] = self.loop
            r = S.Runner(copy.deepcopy(cfg), drive_kw=dkw)
            # the listener starts at the first engine.io connection
            self.hosts.append(r)
            self.mgrs.append(m)
        if kind == 'async':
            self.wo = PM.make_async_manager(self.chan, write_only=True)
        else:
            self.wo = PM.make_sync_manager(self.chan, write_only=True)
        self.model = RoomsModel()
        self.owner = {}            # sid -> (host, T, ns)
        self.dead = []
        self.nT = 0
        self.tok = 0
        self.ops = []
        self.failed = False
        self.clock = 0
        self.snaps = []            # (clock, model copy) at every operation
        self.emits = {}            # token -> info
        self.consumed_at = {}      # (host, channel idx) -> clock
        self.msg_of = {}           # channel idx -> ('emit', token) | ...
        self.deliveries = collections.Counter()   # (token, sid) -> count
        self.member_ops = []       # (clock, kind, sid|None, ns, room, idx)
        self.callbacks = {}        # token -> expected (host, args) / fired
        self.relay_ids = {}
        self.chan.publish_hook = self.on_publish
        self.cur_op = None
        self.disc_handlers = collections.Counter()
        self.used_pairs = set()
        # start listeners: one transport per host
        for h in range(self.nh):
            self.nT += 1
            self.hstep(h, ['open', self.nT])

    # ---------------------------------------------------------------- util
    def witness(self, extra=None):
        w = {'case_index': self.index, 'kind': self.kind,
             'mode': 'delayed' if self.delayed else 'immediate',
             'hosts': self.nh, 'history': self.ops[-30:],
             'model': {ns: {s: sorted(map(repr, r)) for s, r in m.items()}
                       for ns, m in self.model.ns.items()},
             'owner': {s: list(o) for s, o in self.owner.items()}}
        if extra:
            w.update(extra)
        return w

    def fail(self, what, extra=None):
        self.failed = True
        self.ctx.violation(None, what, self.witness(extra))

    def on_publish(self, idx, raw, publisher):
        self.msg_of[idx] = self.cur_op
        # the token that relays an acknowledgement back to the issuing host
        # is (room, namespace, id): an id is never issued twice for a room by
        # one host (a late acknowledgement of the earlier emit would complete
        # the later one)
        try:
            import pickle
            msg = pickle.loads(raw)
        except Exception:
            return
        if isinstance(msg, dict) and msg.get('method') == 'emit' and \
                msg.get('callback'):
            room, ns, cid = msg['callback']
            key = (msg.get('host_id'), room, ns)
            seen = self.relay_ids.setdefault(key, set())
            self.ctx.count('relay_callback_ids_checked')
            if cid in seen and not self.failed:
                self.fail('the relay token (%r, %r, %r) of an emit with '
                          'callback was issued a second time by the same '
                          'host: a late acknowledgement of the earlier emit '
                          'would complete the later one' % (room, ns, cid))
            seen.add(cid)

    def tick(self):
        self.clock += 1
        return self.clock

    def snapshot(self):
        self.snaps.append((self.clock, copy.deepcopy(self.model.ns)))

    def model_at(self, clock):
        """Model state in force at `clock` (after the last op <= clock)."""
        best = {}
        for c, ns in self.snaps:
            if c <= clock:
                best = ns
            else:
                break
        m = RoomsModel()
        m.ns = best
        return m

    # ------------------------------------------------------------- channel
    def release(self, h):
        m = self.mgrs[h]
        if not m.pending:
            return False
        t = self.tick()
        idx = m.pending[0]
        if self.kind == 'async':
            async def go():
                await m.a_release_one()
                await settle(self.loop)
            self.hosts[h].d.run(go())
        else:
            m.release_one()
        self.consumed_at[(h, idx)] = t
        self.collect(consumer=(h, idx))
        return True

    def drain_channel(self):
        for _ in range(100000):
            busy = [h for h in range(self.nh) if self.mgrs[h].pending]
            if not busy:
                return
            self.release(self.rng.choice(busy))
        raise RuntimeError('channel does not quiesce')

    def random_progress(self):
        for h in range(self.nh):
            for _ in range(self.rng.choice([0, 0, 1, 1, 2, 5])):
                if not self.release(h):
                    break

    def settle_membership(self):
        """Delayed mode: release until no membership message is in flight
        (so that membership operations on one client never cross)."""
        for _ in range(100000):
            busy = []
            for h in range(self.nh):
                for idx in self.mgrs[h].pending:
                    k = self.msg_of.get(idx)
                    if k and k[0] in ('enter', 'leave', 'close_room',
                                      'sdisc'):
                        busy.append(h)
                        break
            if not busy:
                return
            self.release(self.rng.choice(busy))

    # ------------------------------------------------------------ observe
    def attribute(self, h, T, p):
        if p['type'] in (R.EVENT, R.BINARY_EVENT) and \
                isinstance(p['data'], list) and p['data'] and \
                isinstance(p['data'][0], str) and \
                p['data'][0].startswith('tok'):
            tok = int(p['data'][0][3:])
            sid = self.sid_of(h, T, p['nsp'])
            self.deliveries[(tok, h, T, p['nsp'])] += 1
            self.ctx.count('deliveries_observed')
            info = self.emits.get(tok)
            if info is not None:
                info['got'].append((h, T, p['nsp'], sid, self.clock,
                                    p['id']))
                # what arrives is what was emitted, on every host (byte
                # strings included)
                if info.get('plain_data') is not None:
                    self.ctx.count('delivered_payloads_compared')
                    if not R.deep_eq(p['data'][1:], [info['plain_data']]):
                        self.fail('emit %d was delivered on host %d as %r, '
                                  'emitted was %r' % (tok, h, p['data'][1:],
                                                      info['plain_data']))

    def hstep(self, h, op):
        """Runner.step on host h; the packets it drained are attributed."""
        res = self.hosts[h].step(op)
        for T, pkts in res.get('sent', {}).items():
            for p in pkts:
                self.attribute(h, T, p)
        self.scan_events(h)
        return res

    def scan_events(self, h):
        r = self.hosts[h]
        for e in r.events[getattr(r, '_seen', 0):]:
            if e[0] == 'handler' and e[1] == 'disconnect':
                self.disc_handlers[e[4]] += 1
            if e[0] == 'callback':
                info = self.emits.get(e[1])
                if info is not None:
                    info['cb_fired'].append((h, e[2]))
        r._seen = len(r.events)

    def collect(self, consumer=None):
        """Drain all transports of all hosts; attribute token deliveries."""
        for h, r in enumerate(self.hosts):
            for T, t in r.T.items():
                for p in t.drain():
                    self.attribute(h, T, p)
            self.scan_events(h)

    def sid_of(self, h, T, ns):
        for s, o in self.owner.items():
            if o == (h, T, ns):
                return s
        for s, o in self.dead:
            if o == (h, T, ns):
                return s
        return None

    # --------------------------------------------------------------- ops
    def some_sid(self, live=0.9):
        rng = self.rng
        livel = sorted(self.model.all_sids())
        if livel and rng.random() < live:
            return rng.choice(livel)
        if self.dead:
            s, o = rng.choice(self.dead)
            return s, o[2]
        return 'nosuchsid', '/'

    def some_room(self):
        rng = self.rng
        if rng.random() < 0.7:
            return rng.choice(ROOMS)
        return self.some_sid(0.8)[0]

    def api(self, h, name, *a, **kw):
        return self.hosts[h].d.api(name, *a, **kw)

    def step(self):
        rng, ctx = self.rng, self.ctx
        live = sorted(self.model.all_sids())
        r = rng.random()
        self.tick()
        if len(live) < 3 or r < 0.12:
            op = self.do_connect()
        elif r < 0.3:
            op = self.do_room('enter')
        elif r < 0.38:
            op = self.do_room('leave')
        elif r < 0.42:
            op = self.do_close_room()
        elif r < 0.47:
            op = self.do_disconnect()
        elif r < 0.5:
            op = self.do_client_end()
        elif r < 0.56:
            op = self.do_acks()
        elif r < 0.6:
            op = self.do_ack_then_disconnect()
        else:
            op = self.do_emit()
        if self.failed:
            return
        if self.delayed:
            self.random_progress()
        else:
            self.drain_channel()
            self.check_immediate()
        del ctx, op

    def do_connect(self):
        rng = self.rng
        h = rng.randrange(self.nh)
        r = self.hosts[h]
        ns = rng.choice(NAMESPACES)
        Ts = sorted(r.T)
        T = rng.choice(Ts) if Ts and rng.random() < 0.5 else None
        if T is None or (h, T, ns) in self.used_pairs:
            self.nT += 1
            T = self.nT
            self.hstep(h, ['open', T])
        self.cur_op = ('connect',)
        res = self.hstep(h, ['connect', T, ns, None])
        acc = [p for p in res['sent'].get(T, []) if p['type'] == R.CONNECT]
        if not acc:
            return self.fail('CONNECT not accepted on host %d' % h)
        sid = acc[0]['data']['sid']
        self.model.connect(sid, ns)
        self.used_pairs.add((h, T, ns))
        self.owner[sid] = (h, T, ns)
        self.ops.append(['connect', h, T, ns, sid])
        self.snapshot()
        self.member_ops.append((self.clock, 'connect', sid, ns, None, None, h))
        self.ctx.count('connects')

    def do_room(self, which):
        rng = self.rng
        if self.delayed:
            self.settle_membership()
        sid, ns = self.some_sid()
        room = self.some_room()
        if which == 'leave' and room == sid:
            room = 'r1'
        g = rng.randrange(self.nh)
        self.cur_op = (which, sid, ns, room)
        n0 = len(self.chan.log)
        try:
            self.api(g, 'enter_room' if which == 'enter' else 'leave_room',
                     sid, room, namespace=ns)
        except Exception as e:
            if self.model.connected(sid, ns):
                return self.fail('%s_room via host %d raised %r for a '
                                 'connected client' % (which, g, e))
        if which == 'enter':
            self.model.enter(sid, ns, room)
        else:
            self.model.leave(sid, ns, room)
        self.ops.append([which, g, sid, room, ns])
        self.snapshot()
        idx = n0 if len(self.chan.log) > n0 else None
        self.member_ops.append((self.clock, which, sid, ns, room, idx, g))
        self.ctx.count('room_ops')
        if sid in self.owner and self.owner[sid][0] != g:
            self.ctx.count('remote_room_ops')

    def do_close_room(self):
        rng = self.rng
        if self.delayed:
            self.settle_membership()
        ns = rng.choice(NAMESPACES)
        room = self.some_room()
        if self.model.connected(room, ns):
            room = 'r2'
        g = rng.randrange(self.nh)
        self.cur_op = ('close_room', None, ns, room)
        n0 = len(self.chan.log)
        try:
            self.api(g, 'close_room', room, namespace=ns)
        except Exception as e:
            return self.fail('close_room raised %r' % e)
        self.model.close(room, ns)
        self.ops.append(['close_room', g, room, ns])
        self.snapshot()
        self.member_ops.append((self.clock, 'close_room', None, ns, room,
                                n0 if len(self.chan.log) > n0 else None, g))
        self.ctx.count('room_ops')

    def do_disconnect(self, target=None, via=None):
        rng = self.rng
        if self.delayed:
            self.settle_membership()
        sid, ns = target or self.some_sid(0.95)
        g = rng.randrange(self.nh) if via is None else via
        self.cur_op = ('sdisc', sid, ns, None)
        n0 = len(self.chan.log)
        try:
            self.api(g, 'disconnect', sid, namespace=ns)
        except Exception as e:
            return self.fail('disconnect() via host %d raised %r' % (g, e))
        was = self.model.connected(sid, ns)
        self.model.disconnect(sid, ns)
        if was:
            self.dead.append((sid, self.owner.pop(sid)))
            self.ctx.count('disconnects')
            if self.dead[-1][1][0] != g:
                self.ctx.count('remote_disconnects')
        self.ops.append(['disconnect', g, sid, ns])
        self.snapshot()
        self.member_ops.append((self.clock, 'sdisc', sid, ns, None,
                                n0 if len(self.chan.log) > n0 else None, g))

    def do_ack_then_disconnect(self):
        """The client acknowledges an emit issued on another host and is then
        disconnected through the issuing host (or a third one) while the
        acknowledgement is still travelling on the channel: a single server
        would have run the callback before the disconnect, so the callback
        still runs exactly once."""
        cands = []
        for tok, info in sorted(self.emits.items()):
            if not info['cb'] or info.get('acked') or \
                    info['via'] == self.nh:
                continue
            for (h, T, ns, sid, clk, pid) in info['got']:
                if pid is not None and sid in self.owner and \
                        h != info['via']:
                    cands.append((tok, info, sid, ns))
        if not cands:
            return None
        tok, info, sid, ns = self.rng.choice(cands)
        self.do_acks()
        if self.failed or not info.get('acked'):
            return None
        others = [g for g in range(self.nh)
                  if g not in (info['via'], self.owner[sid][0])]
        via = info['via'] if not others or self.rng.random() < 0.6 \
            else self.rng.choice(others)
        self.ctx.count('acks_followed_by_disconnect')
        return self.do_disconnect(target=(sid, ns), via=via)

    def do_client_end(self):
        rng = self.rng
        if not self.owner:
            return
        if self.delayed:
            self.settle_membership()
        sid = rng.choice(sorted(self.owner))
        h, T, ns = self.owner[sid]
        self.cur_op = ('cdisc',)
        self.hstep(h, ['cdisc', T, ns])
        self.model.disconnect(sid, ns)
        self.dead.append((sid, self.owner.pop(sid)))
        self.ops.append(['client_disconnect', h, T, ns, sid])
        self.snapshot()
        self.member_ops.append((self.clock, 'cdisc', sid, ns, None, None, h))
        self.ctx.count('disconnects')

    def do_emit(self):
        rng = self.rng
        self.tok += 1
        tok = self.tok
        ns = rng.choice(NAMESPACES)
        k = rng.random()
        if k < 0.2:
            to = None
        elif k < 0.5:
            to = self.some_sid()[0]
        elif k < 0.8:
            to = self.some_room()
        else:
            to = [self.some_room() for _ in range(rng.choice([1, 2, 3]))]
        k = rng.random()
        skip = None if k < 0.6 else (
            self.some_sid()[0] if k < 0.85 else
            [self.some_sid()[0] for _ in range(rng.choice([1, 2]))])
        via = rng.randrange(self.nh + 1)     # nh == the write-only manager
        cb = None
        addressee = None
        if via < self.nh and to is not None and not isinstance(to, list) \
                and self.model.members(ns, to) == {to} and \
                rng.random() < 0.6:
            cb = 'fn'
            addressee = to
        elif via < self.nh and to is not None and \
                not isinstance(to, list) and not self.delayed and \
                to in ROOMS and \
                len(self.model.members(ns, to)) == 1 and rng.random() < 0.6:
            # a callback addressed through a custom room that has one member
            # (rooms named like somebody's session id are left out: the
            # pub/sub managers file the callback under the room name, and the
            # departure of the namesake - even from another namespace -
            # discards it; exotic, noted in DESIGN 5 as an observation)
            cb = 'fn'
            addressee = next(iter(self.model.members(ns, to)))
            self.ctx.count('callbacks_addressed_through_a_room')
        self.cur_op = ('emit', tok)
        want = self.model.recipients(ns, to, skip)
        # the application may well emit the very same thing twice in a row
        # (a tick): two emits, two deliveries per addressed client
        times = 2 if (not self.delayed and cb is None and
                      rng.random() < 0.1) else 1
        info = {'tok': tok, 'to': to, 'skip': skip, 'ns': ns, 'via': via,
                't0': self.clock, 'want0': set(want), 'got': [],
                'cb': cb, 'cb_fired': [], 'n0': len(self.chan.log),
                'times': times, 'addressee': addressee}
        self.emits[tok] = info
        if times == 2:
            self.ctx.count('identical_emits_repeated')
        # payloads are whatever the application passes to emit(): some of
        # them pickle by reference to a class (enum members, ordered dicts,
        # str subclasses)
        data = {'t': tok}
        info['plain_data'] = copy.deepcopy(data)
        if rng.random() < 0.25:
            data = PM.rich_payload(tok)
            info['plain_data'] = None
            self.ctx.count('emits_with_class_valued_payload')
        elif rng.random() < 0.25:
            data = {'t': tok, 'b': [bytes([tok % 256]), b'\x00\x01'],
                    'n': {'deep': [b'xyz']}}
            info['plain_data'] = copy.deepcopy(data)
            self.ctx.count('emits_with_binary_payload')
        # the application's next statement after the emit changes who is in
        # the addressed room (same coroutine, nothing awaited in between): a
        # single server has delivered by then
        then = None
        if not self.delayed and via < self.nh and times == 1 and \
                cb is None and rng.random() < 0.3:
            then = self.pick_follow_up(ns, to, want, via)
        info['then'] = then
        try:
            for _ in range(times):
                if then is not None:
                    self.hstep(via, ['emit', tok, to, skip, ns, cb, data,
                                     then])
                elif via == self.nh:
                    kw = dict(namespace=ns, room=to, skip_sid=skip)
                    if self.kind == 'async':
                        self.hosts[0].d.run(self.wo.emit(
                            'tok%d' % tok, data, **kw))
                    else:
                        self.wo.emit('tok%d' % tok, data, **kw)
                else:
                    self.hstep(via, ['emit', tok, to, skip, ns, cb, data])
        except Exception as e:
            return self.fail('emit via %s raised %r' % (via, e))
        self.collect()
        self.ops.append(['emit', tok, 'write-only' if via == self.nh
                         else via, to, skip, ns, cb] +
                        (['twice'] if times == 2 else []))
        self.snapshot()
        self.ctx.count('emits')
        if then is not None:
            self.apply_follow_up(then, via, info['n0'] + 1)
        if via == self.nh:
            self.ctx.count('emits_via_write_only')

    def pick_follow_up(self, ns, to, want, via):
        rng = self.rng
        local = sorted(s for s in want if self.owner.get(s, (None,))[0] == via)
        pool = local if local and rng.random() < 0.7 else sorted(want)
        is_room = isinstance(to, (str, int)) and \
            not self.model.connected(to, ns)
        k = rng.random()
        if k < 0.3 and pool:
            return ['sdisc', rng.choice(pool), ns]
        if k < 0.55 and pool and is_room:
            return ['leave', rng.choice(pool), to, ns]
        if k < 0.7 and is_room:
            return ['close_room', to, ns]
        if is_room:
            outsiders = sorted(s for s, n in self.model.all_sids()
                               if n == ns and s not in want and
                               to not in self.model.rooms(s, ns))
            if outsiders:
                return ['enter', rng.choice(outsiders), to, ns]
        return None

    def apply_follow_up(self, then, g, idx):
        """Book-keeping of the membership change that followed an emit."""
        kind = then[0]
        idx = idx if len(self.chan.log) > idx else None
        if kind == 'sdisc':
            sid, ns = then[1], then[2]
            if self.model.connected(sid, ns):
                self.model.disconnect(sid, ns)
                self.dead.append((sid, self.owner.pop(sid)))
                self.ctx.count('disconnects')
            self.member_ops.append((self.clock, 'sdisc', sid, ns, None, idx,
                                    g))
        elif kind in ('leave', 'enter'):
            sid, room, ns = then[1:4]
            (self.model.leave if kind == 'leave' else self.model.enter)(
                sid, ns, room)
            self.member_ops.append((self.clock, kind, sid, ns, room, idx, g))
        else:
            room, ns = then[1], then[2]
            self.model.close(room, ns)
            self.member_ops.append((self.clock, 'close_room', None, ns, room,
                                    idx, g))
        self.ops.append(['then'] + list(then))
        self.snapshot()
        self.ctx.count('emits_followed_at_once_by_' + kind)

    def do_acks(self):
        """Clients acknowledge the events that carried an id."""
        for tok, info in sorted(self.emits.items()):
            if not info['cb'] or info.get('acked'):
                continue
            for (h, T, ns, sid, clk, pid) in info['got']:
                if pid is None or info.get('acked'):
                    continue
                if sid not in self.owner:
                    continue        # the client has gone: it cannot answer
                info['acked'] = True
                # (a client that got the event only because a membership
                # change raced the in-flight message - it entered a room
                # named like the addressed session id - may answer too, but
                # the callback was registered for the addressed client: it
                # is owed only to that client's acknowledgement)
                info['acked_by_addressed'] = sid == (
                    info.get('addressee') or info['to'])
                # acknowledgements without arguments, with falsy ones and
                # with several
                args = self.rng.choice([['ack', tok], ['ack', tok], [],
                                        [0], [None], [tok]])
                info['ack_args'] = args
                self.cur_op = ('ack', tok)
                self.hstep(h, ['ack', T, ns, pid, list(args)])
                self.ctx.count('acks_empty' if not args else 'acks_nonempty')
                self.ops.append(['client_ack', h, T, ns, pid, tok])
        self.collect()

    # -------------------------------------------------------------- judge
    def check_immediate(self):
        ctx = self.ctx
        self.collect()
        for tok, info in list(self.emits.items()):
            if info.get('judged'):
                continue
            info['judged'] = True
            got = collections.Counter((g[0], g[1], g[2])
                                      for g in info['got'])
            want = collections.Counter(
                {(self.owner_at(s, info)[0], self.owner_at(s, info)[1],
                  info['ns']): info.get('times', 1) for s in info['want0']})
            ctx.count('emits_judged_exact')
            if got != want:
                return self.fail(
                    'emit %d (to=%r skip=%r ns=%r via %s) was delivered to '
                    '%r, a single server would deliver to %r' % (
                        tok, info['to'], info['skip'], info['ns'],
                        'write-only' if info['via'] == self.nh
                        else 'host %d' % info['via'],
                        sorted(got.items()), sorted(want)),
                    {'emit': {k: v for k, v in info.items()
                              if k not in ('got',)}})
            sig = ('imm', self.kind, self.nh,
                   'wo' if info['via'] == self.nh else 'host',
                   'none' if info['to'] is None else (
                       'list' if isinstance(info['to'], list) else (
                           'sid' if info['to'] in self.owner else 'room')),
                   info['skip'] is not None, bool(info['cb']),
                   min(len(want), 3),
                   len({k[0] for k in want}))
            ctx.case(sig, {'emit': [tok, info['to'], info['skip'],
                                    info['ns'], info['via']],
                           'recipients': sorted(want)} if len(want) > 1
                     else None)
        # rooms() on the owning host
        for sid, (h, T, ns) in list(self.owner.items())[:6]:
            got = set(self.api(h, 'rooms', sid, namespace=ns))
            ctx.count('rooms_queries')
            if got != self.model.rooms(sid, ns):
                return self.fail('rooms(%r) on its host = %r, the model says '
                                 '%r' % (sid, sorted(got, key=repr), sorted(
                                     self.model.rooms(sid, ns), key=repr)))
        for sid, o in self.dead:
            h, T, ns = o
            if self.hosts[h].sio.manager.is_connected(sid, ns):
                return self.fail('sid %r is still connected on host %d '
                                 'after its disconnect' % (sid, h))
            if self.disc_handlers[sid] != 1:
                return self.fail('disconnect handler ran %d times for %r' % (
                    self.disc_handlers[sid], sid))
        self.check_callbacks(final=False)

    def owner_at(self, sid, info):
        if sid in self.owner:
            return self.owner[sid]
        for s, o in self.dead:
            if s == sid:
                return o
        return (None, None, None)

    def check_callbacks(self, final):
        for tok, info in self.emits.items():
            if not info['cb']:
                continue
            fired = info['cb_fired']
            if len(fired) > 1:
                return self.fail('callback of emit %d invoked %d times' % (
                    tok, len(fired)))
            for h, args in fired:
                if h != info['via']:
                    return self.fail('callback of emit %d ran on host %d, '
                                     'it was issued on host %d' % (
                                         tok, h, info['via']))
                if not info.get('acked') or args != info['ack_args']:
                    return self.fail('callback of emit %d got %r' % (tok,
                                                                      args))
            if final and info.get('acked') and not fired and \
                    info.get('acked_by_addressed'):
                return self.fail('callback of emit %d was never invoked '
                                 'although the client acknowledged' % tok,
                                 {'emit': {k: v for k, v in info.items()
                                           if k != 'got'}})
            if fired and not info.get('cb_counted'):
                info['cb_counted'] = True
                self.ctx.count('callbacks_checked')
                if info['got'] and info['got'][0][0] != info['via']:
                    self.ctx.count('remote_callbacks_checked')

    def check_delayed_final(self):
        """After the final drain: at-most-once, eligibility, exactness."""
        ctx = self.ctx
        for tok, info in self.emits.items():
            per = collections.Counter((g[0], g[1], g[2]) for g in info['got'])
            for key, n in per.items():
                if n > 1:
                    return self.fail('emit %d delivered %d times to %r' % (
                        tok, n, key))
            # the channel index of this emit
            idxs = [i for i, k in self.msg_of.items()
                    if k == ('emit', tok)]
            idx = idxs[0] if idxs else None
            everyone = set(self.owner) | {s for s, _ in self.dead}
            got_sids = {g[3] for g in info['got']}
            for sid in everyone:
                o = self.owner_at(sid, info)
                h = o[0]
                if o[2] != info['ns']:
                    if sid in got_sids:
                        return self.fail('emit %d reached %r on another '
                                         'namespace' % (tok, sid))
                    continue
                if info['via'] == h:
                    t_h = info['t0']
                else:
                    t_h = self.consumed_at.get((h, idx), None)
                    if t_h is None:
                        t_h = self.clock
                delivered = sid in got_sids
                # membership operations affecting this client whose own
                # flight [issue, application at the client's host] overlaps
                # the flight of the message
                raced = False
                lo = info['t0']
                for (c, kind, msid, mns, mroom, midx, g) in self.member_ops:
                    if mns != info['ns']:
                        continue
                    if not ((msid == sid) or (kind == 'close_room')):
                        continue
                    if g == h or midx is None:
                        applied = c
                    else:
                        applied = self.consumed_at.get((h, midx), 10**9)
                    if c <= t_h and applied >= info['t0']:
                        raced = True
                        lo = min(lo, c)
                # eligibility: addressed at some instant of the (extended)
                # flight window
                instants = {c for c, _ in self.snaps if lo <= c <= t_h}
                instants |= {lo, info['t0'], t_h}
                if lo < info['t0']:
                    instants.add(lo - 1)
                addressed_any = any(
                    sid in self.model_at(c).recipients(
                        info['ns'], info['to'], info['skip'])
                    for c in instants)
                ctx.count('eligibility_checks')
                if delivered and not addressed_any:
                    return self.fail(
                        'emit %d reached %r, which was not addressed at any '
                        'instant of its flight [%d, %d]' % (
                            tok, sid, lo, t_h),
                        {'emit': {k: v for k, v in info.items()
                                  if k != 'got'}})
                if not raced:
                    want = sid in info['want0']
                    ctx.count('exactness_checks')
                    if delivered != want:
                        return self.fail(
                            'emit %d (not raced by any membership change of '
                            '%r): delivered=%r, a single server says %r' % (
                                tok, sid, delivered, want),
                            {'emit': {k: v for k, v in info.items()
                                      if k != 'got'},
                             'flight': [info['t0'], t_h]})
                else:
                    ctx.count('raced_pairs')
            ctx.case(('delayed', self.kind, self.nh,
                      'wo' if info['via'] == self.nh else 'host',
                      'none' if info['to'] is None else (
                          'list' if isinstance(info['to'], list) else 'one'),
                      info['skip'] is not None, min(len(got_sids), 3)),
                     None)
        self.check_callbacks(final=True)

    def finish(self):
        self.do_acks()
        self.drain_channel()
        self.collect()
        if self.delayed:
            self.check_delayed_final()
        else:
            self.check_immediate()
            self.check_callbacks(final=True)
        errs = [e for r in self.hosts for e in r.d.errors()]
        if errs and not self.failed:
            self.fail('errors escaped inside a server: %s' % errs[0]['exc'],
                      {'errors': errs[:3]})

    def close(self):
        for m in self.mgrs:
            try:
                if self.kind == 'sync':
                    m.stop()
            except Exception:
                pass
        for r in self.hosts:
            r.close()
        if self.loop is not None:
            try:
                for task in asyncio.all_tasks(self.loop):
                    task.cancel()
                self.loop.run_until_complete(asyncio.sleep(0))
            except Exception:
                pass
            self.loop.close()


def run_case(ctx, k):
    rng = ctx.case_rng(k)
    kind = 'sync' if k % 2 == 0 else 'async'
    delayed = (k // 2) % 2 == 1
    c = Cluster(ctx, rng, kind, k, delayed)
    try:
        for _ in range(rng.choice([20, 40, 60])):
            c.step()
            if c.failed:
                break
        if not c.failed:
            c.finish()
        ctx.count('histories_delayed' if delayed else 'histories_immediate')
    finally:
        c.close()


def run(ctx):
    ctx.rule = ('clusters of 2-4 real servers (+ a write-only manager) on an '
                'in-memory pickle channel; histories over {connect on a '
                'host, enter/leave/close_room via any host, emit(to, '
                'skip_sid, callback) via any host or the write-only manager,'
                ' disconnect via any host, client DISCONNECT, client ACK}; '
                'immediate mode: exact recipient multiset per emit, rooms(), '
                'disconnect handler once, callback once on the issuing host; '
                'delayed mode (random per-host lag): at-most-once, '
                'eligibility within the flight window, exactness when not '
                'raced; distinct = (mode, manager kind, #hosts, issuer, '
                'target kind, skip, callback, #recipients, #hosts reached)')
    ctx.assumptions = [
        'delayed mode: a membership operation is issued only when no '
        'membership message is in flight (crossing operations make the '
        'outcome order-dependent for any implementation)',
        'the channel is FIFO and reliable']
    ctx.require('emits_judged_exact', 100)
    ctx.require('eligibility_checks', 200)
    ctx.require('exactness_checks', 200)
    ctx.require('remote_room_ops', 20)
    ctx.require('remote_disconnects', 5)
    ctx.require('callbacks_checked', 10)
    ctx.require('remote_callbacks_checked', 3)
    ctx.require('emits_via_write_only', 10)
    ctx.require('identical_emits_repeated', 10)
    ctx.require('emits_with_class_valued_payload', 10)
    ctx.require('delivered_payloads_compared', 100)
    ctx.require('callbacks_addressed_through_a_room', 5)
    # fresh hosts whose first connections arrive together (threaded server)
    from checks import c07_init
    ctx.require('fresh_host_cases', 3)
    ctx.require('clientless_host_cases', 10)
    k = 0
    while not ctx.out_of_time() and not ctx.too_many_violations():
        run_case(ctx, k)
        if k % 60 == 0:
            c07_init.run_case(ctx, k // 60 + ctx.shard * 10 ** 5)
        if k % 20 == 7:
            c07_init.run_clientless_case(ctx, k // 20 + ctx.shard * 10 ** 5)
        k += 1


def replay(ctx, w):
    if w['witness'].get('part') in ('fresh_host', 'clientless_host'):
        from checks import c07_init
        return c07_init.replay(ctx, w)
    run_case(ctx, w['witness']['case_index'])
