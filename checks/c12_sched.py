"""C12, threaded server: one client's packets are handled by one thread while
another thread handles the packet (or the transport loss) with which a
bystander leaves, arrives or talks.  The offender here sends nothing
malformed: it joins and leaves the namespace ("churn"), loses its transport,
sends events - in a thread of its own, as every request of the threaded
server has.  Whatever the interleaving, the bystanders are served as if the
offender's packets had been handled before or after theirs:

  - nothing raises in the thread that serves the bystander (nor anywhere in
    the server);
  - a bystander that left is gone: rooms() empty, no later emit addressed to
    a room, to the namespace or to its session id reaches it;
  - a bystander that arrived is connected, in its own room, and served;
  - every other bystander keeps its rooms and receives each later emit
    exactly once.

Real threads under vlib.sched.ThreadScheduler; every statement start of the
manager modules is a pre-emption point (sys.monitoring), plus every manager
call and engine.io send; all schedules with at most one pre-emption per pair
(DFS), then seeded random schedules.
"""
import time

from vlib import refcodec as R
from vlib import sched as SC

from checks import c03_sched as C3

NS = C3.NS
ROOM = C3.ROOM

BYSTANDER = ['b_cdisc', 'b_lose', 'b_connect', 'b_event', 'app_broadcast',
             'app_room_emit']
OFFENDER = ['o_connect', 'o_cdisc', 'o_lose', 'o_event_join',
            'o_connect_other']


def actor(w, name, seen):
    d = w.d
    if name == 'b_cdisc':
        # bystander 2 leaves the namespace (DISCONNECT packet)
        return lambda: w.T[2].send_packet(R.DISCONNECT, NS)
    if name == 'b_lose':
        return lambda: w.T[2].socket.close(
            wait=False, abort=True, reason=d.eio.reason.TRANSPORT_ERROR)
    if name == 'b_connect':
        return lambda: w.extra.connect(NS)
    if name == 'b_event':
        return lambda: w.T[1].send_packet(R.EVENT, NS, 5, ['hello', 1])
    if name == 'app_broadcast':
        # the application tells the whole namespace something while the
        # offender comes or goes
        return lambda: d.sio.emit('news', {'n': 1}, namespace=NS)
    if name == 'app_room_emit':
        return lambda: d.sio.emit('news', {'n': 1}, to=ROOM, namespace=NS)
    if name == 'o_connect':
        return lambda: w.off2.connect(NS)
    if name == 'o_cdisc':
        return lambda: w.T[3].send_packet(R.DISCONNECT, NS)
    if name == 'o_lose':
        return lambda: w.T[3].socket.close(
            wait=False, abort=True, reason=d.eio.reason.TRANSPORT_ERROR)
    if name == 'o_event_join':
        # the application puts the sender of 'join' into a room of its own
        return lambda: w.T[3].send_packet(R.EVENT, NS, None, ['join', 'x'])
    if name == 'o_connect_other':
        return lambda: w.T[3].connect('/other')
    raise ValueError(name)


def run_schedule(ctx, pair, choices, rng, bound):
    sp = rng.choice([None, 0.05, 0.2]) if rng is not None else None
    sched = SC.ThreadScheduler(choices=choices, rng=rng,
                               preemption_bound=bound, switch_prob=sp,
                               max_steps=200000)
    w = C3.World(sched)
    d = w.d
    sio = d.sio
    seen = []
    w.off2 = d.open()       # a second transport of the offender
    d.on('connect', lambda sid, env, auth=None: None, '/other')
    d.on('hello', lambda sid, x: seen.append(('hello', sid, x)) or 'hi', NS)

    def on_join(sid, room):
        sio.enter_room(sid, 'made-by-' + sid, namespace=NS)
    d.on('join', on_join, NS)
    for name in pair:
        sched.spawn(name, actor(w, name, seen))
    import socketio.base_manager
    import socketio.manager
    SC.enable_lines(sched, [socketio.base_manager.__file__,
                            socketio.manager.__file__])
    try:
        trace = sched.run()
    finally:
        SC.disable_lines()
    ctx.count('churn_race_schedules')
    wit = {'part': 'churn_race', 'pair': list(pair), 'bound': bound,
           'choices': [c for _, c in trace],
           'labels': [[a, lbl] for a, lbl in sched.labels][-80:]}
    if sched.aborted:
        SC.report_abort(ctx, sched, wit, 'bystander / offender race: '
                        'schedule did not complete')
        return trace
    errs = list(sched.errors) + d.errors()
    if errs:
        wit['errors'] = [{'actor': e.get('actor'), 'exc': e.get('exc'),
                          'tb': (e.get('tb') or '')[-1500:]}
                         for e in errs[:3]]
        ctx.violation(None, 'a bystander\'s %s was handled while another '
                      'thread handled the offender\'s %s: %s raised in %s' % (
                          pair[0], pair[1], errs[0].get('exc'),
                          errs[0].get('actor') or 'the server'), wit)
        return trace
    b_op = pair[0]
    if b_op in ('app_broadcast', 'app_room_emit'):
        # every bystander that is addressed got the news, once
        for i in (0, 1, 2):
            w.T[i].drain()
            n = len([p for p in w.T[i].packets if p['type'] == R.EVENT and
                     p['data'][0] == 'news'])
            ctx.count('bystander_probes_checked')
            if n != 1:
                wit['bystander'] = i
                ctx.violation(None, 'the application\'s %s was issued while '
                              'another thread handled the offender\'s %s: '
                              'bystander %d received it %d times' % (
                                  'broadcast' if b_op == 'app_broadcast'
                                  else 'emit to a room', pair[1], i, n), wit)
                return trace
    # sequential probes from here on
    left = b_op in ('b_cdisc', 'b_lose')
    for t in w.T + [w.extra, w.off2]:
        t.drain()
    marks = {id(t): len(t.packets) for t in w.T + [w.extra, w.off2]}
    sio.emit('probe_room', {'n': 1}, to=ROOM, namespace=NS)
    sio.emit('probe_ns', {'n': 2}, namespace=NS)
    sio.emit('probe_sid', {'n': 3}, to=w.sids[2], namespace=NS)

    def got(t):
        t.drain()
        return sorted(p['data'][0] for p in t.packets[marks[id(t)]:]
                      if p['type'] == R.EVENT)
    want = {0: ['probe_ns', 'probe_room'], 1: ['probe_ns', 'probe_room'],
            2: [] if left else ['probe_ns', 'probe_room', 'probe_sid']}
    for i in (0, 1, 2):
        g = got(w.T[i])
        ctx.count('bystander_probes_checked', 3)
        if g != want[i]:
            wit['bystander'] = i
            ctx.violation(None, 'after bystander %s raced with offender %s: '
                          'bystander %d %sreceived %r of three later emits '
                          '(room, namespace, to its session id), expected %r'
                          % (pair[0], pair[1], i,
                             '(which had left) ' if left and i == 2 else '',
                             g, want[i]), wit)
            return trace
    if left:
        rooms = list(sio.rooms(w.sids[2], namespace=NS))
        table = [str(r) for r, members in
                 sio.manager.rooms.get(NS, {}).items()
                 if w.sids[2] in members]
        if rooms or table or sio.manager.is_connected(w.sids[2], NS):
            wit.update(rooms=[str(r) for r in rooms], room_table=table)
            ctx.violation(None, 'a bystander that left while the offender\'s '
                          '%s was handled is still in rooms %r' % (
                              pair[1], table or rooms), wit)
            return trace
    for i in (0, 1):
        r = set(sio.rooms(w.sids[i], namespace=NS))
        exp = {w.sids[i], ROOM} | ({'solo'} if i == 0 else set())
        if r != exp:
            ctx.violation(None, 'rooms of bystander %d changed to %r' % (
                i, sorted(map(str, r))), wit)
            return trace
    if b_op == 'b_connect':
        new = w.extra.sids.get(NS)
        if not new or not sio.manager.is_connected(new, NS) or \
                got(w.extra) != ['probe_ns']:
            ctx.violation(None, 'a bystander that connected while the '
                          'offender\'s %s was handled: sid %r, connected=%r'
                          % (pair[1], new, bool(new) and
                             sio.manager.is_connected(new, NS)), wit)
            return trace
    if b_op == 'b_event':
        acks = [p for p in w.T[1].packets if p['type'] == R.ACK]
        if seen != [('hello', w.sids[1], 1)] or len(acks) != 1 or \
                acks[0]['data'] != ['hi']:
            ctx.violation(None, 'a bystander\'s event raced with the '
                          'offender\'s %s: handler invocations %r, '
                          'acknowledgements %r' % (pair[1], seen, [
                              a['data'] for a in acks]), wit)
            return trace
    ctx.case(('churn_race', tuple(pair), tuple(c for _, c in trace)[:40]),
             None)
    return trace


def explore(ctx, pair, limit, bound):
    choices = []
    n = 0
    while choices is not None and n < limit and \
            not ctx.too_many_violations():
        trace = run_schedule(ctx, pair, choices, None, bound)
        n += 1
        choices = SC.next_schedule(trace)
    return n, choices is None


def run_part(ctx, seconds):
    t_end = time.time() + seconds
    pairs = [(b, o) for b in BYSTANDER for o in OFFENDER]
    summary = ctx.extra.setdefault('churn_race_pairs', {})
    limit = 120 if ctx.tier == 'quick' else 4000
    # the pairs in which both sides change the namespace's room table first
    pairs.sort(key=lambda p: (p[0] not in ('b_cdisc', 'b_lose',
                                           'app_broadcast'),
                              p[1] not in ('o_connect', 'o_cdisc', 'o_lose',
                                           'o_event_join')))
    for bound in (1, 2):
        for i, pair in enumerate(pairs):
            if ctx.nshards > 1 and i % ctx.nshards != ctx.shard:
                continue
            if time.time() > t_end or ctx.too_many_violations():
                break
            n, complete = explore(ctx, pair, limit * bound ** 3, bound)
            summary.setdefault('+'.join(pair), {})[
                'at_most_%d_preemptions' % bound] = {'schedules': n,
                                                     'complete': complete}
    k = ctx.shard * 10 ** 5
    while time.time() < t_end and not ctx.too_many_violations():
        rng = ctx.case_rng(12 * 10 ** 7 + k)
        run_schedule(ctx, rng.choice(pairs), [], rng, None)
        k += 1


def replay(ctx, w):
    wi = w['witness']
    run_schedule(ctx, tuple(wi['pair']), wi['choices'], None,
                 wi.get('bound'))
