"""C18 Admin instrumentation: gated by credentials, invisible to the
application.

Three monitors on real Server / AsyncServer objects instrumented with the real
sio.instrument():

  A  credential gate: generated auth payloads through real CONNECT packets on
     the admin namespace; oracle = the documented predicate (auth disabled, or
     payload equal to the configured credentials / member of the configured
     list / accepted by the configured predicate); a refused attempt must hold
     no membership afterwards (participants listing + a probe broadcast on the
     admin namespace).
  B  read-only mode: an authenticated admin sends emit / join / leave /
     _disconnect requests; nothing may reach an application client, change an
     application client's rooms or disconnect it (with read_only off the same
     requests DO have these effects - positive control for the monitors).
  C  transparency: the application scripts of C14's server family are run on a
     plain server and on an instrumented one (admin connected or not); the
     application clients' normalised traces must be identical.
"""
import asyncio
import copy
import json
import threading

from vlib import core
from vlib import refcodec as R
from vlib import scenario as S

from checks import c14

LEVEL = 'exploration'
TIERS = {
    'quick': {'budget': 45, 'watchdog': 400, 'shards': 1},
    'thorough': {'budget': 400, 'watchdog': 900, 'shards': 16},
}
ADMIN = '/admin'
ADMIN_T = 9            # transport index of the admin client in part C
CREDS = [
    {'username': 'admin', 'password': 's3cret'},
    {'token': 'abc'},
    {'user': 'u', 'pin': 1234, 'opts': {'a': [1, 2]}},
    {'k': None},
]


def stable(x):
    return json.dumps(core.jsonable(x), sort_keys=True, default=repr)


# ---------------------------------------------------------------- harness
class Instrumented:
    """A scenario Runner whose server carries the real admin
    instrumentation.  Sleeps are virtual; the periodic statistics task is
    parked until shutdown."""

    def __init__(self, cfg, auth, mode='development', read_only=False,
                 instrument=True):
        self.r = S.Runner(cfg)
        self.d = self.r.d
        self.inst = None
        self.stop = threading.Event()
        if not instrument:
            return
        d = self.d
        if not d.is_async:
            stop = self.stop

            def vsleep(seconds=0):
                if seconds >= 100:
                    stop.wait(60)
            d.eio.sleep = vsleep
        self.inst = self.r.sio.instrument(
            auth=auth, mode=mode, read_only=read_only,
            server_stats_interval=3600)

    def close(self):
        d = self.d
        if self.inst is not None:
            self.stop.set()
            try:
                if d.is_async:
                    if self.inst.stats_task is not None:
                        self.inst.stop_stats_event.set()
                        self.inst.stats_task.cancel()
                else:
                    self.inst.shutdown()
            except Exception:
                pass
            try:
                self.inst.uninstrument()
            except Exception:
                pass
        self.r.close()


def participants(run, ns):
    try:
        return sorted(s for s, _ in run.r.sio.manager.get_participants(
            ns, None))
    except Exception:
        return []


# ---------------------------------------------------------------- part A
def payload_variants(rng, cred, all_creds):
    """(label, payload) pairs around the configured credentials."""
    k0 = sorted(cred)[0]
    out = [
        ('exact', copy.deepcopy(cred)),
        ('permuted', dict(reversed(list(copy.deepcopy(cred).items())))),
        ('absent', '$absent'), ('none', None), ('empty', {}),
        ('string', 'admin'), ('number', 1234), ('true', True),
        ('list_of_creds', [copy.deepcopy(cred)]),
        ('nested', {'auth': copy.deepcopy(cred)}),
        ('superset', dict(copy.deepcopy(cred), extra=1)),
        ('wrong_value', dict(copy.deepcopy(cred), **{k0: 'wrong'})),
        ('value_none', dict(copy.deepcopy(cred), **{k0: None})),
        ('keys_only', {k: True for k in cred}),
        ('other_cred', copy.deepcopy(rng.choice(all_creds))),
    ]
    if len(cred) > 1:
        sub = copy.deepcopy(cred)
        sub.pop(k0)
        out.append(('subset', sub))
    # type-confused variants
    for k, v in cred.items():
        if isinstance(v, str):
            out.append(('str_as_list', dict(copy.deepcopy(cred),
                                            **{k: [v]})))
            out.append(('str_case', dict(copy.deepcopy(cred),
                                         **{k: v.upper()})))
            out.append(('str_prefix', dict(copy.deepcopy(cred),
                                           **{k: v[:-1]})))
        if isinstance(v, int) and not isinstance(v, bool):
            out.append(('int_as_str', dict(copy.deepcopy(cred),
                                           **{k: str(v)})))
            out.append(('int_as_float', dict(copy.deepcopy(cred),
                                             **{k: float(v)})))
            out.append(('int_plus_one', dict(copy.deepcopy(cred),
                                             **{k: v + 1})))
    return out


def make_auth(rng, style, is_async):
    """Returns (configured auth, oracle(payload) -> bool, description)."""
    if style == 'false':
        return False, (lambda p: True), 'False'
    if style == 'dict':
        cred = copy.deepcopy(rng.choice(CREDS))
        return cred, (lambda p: p == cred), cred
    if style == 'list':
        creds = [copy.deepcopy(c) for c in rng.sample(CREDS,
                                                      rng.randint(1, 3))]
        return creds, (lambda p: any(p == c for c in creds)), creds
    cred = copy.deepcopy(rng.choice(CREDS))

    def pred(p):
        # total, and constant on falsy payloads (an absent and an empty auth
        # payload both reach the handler as None)
        return isinstance(p, dict) and bool(p) and all(
            p.get(k) == v for k, v in cred.items())
    if style == 'falsy_predicate':
        # rejects by returning something falsy that is not False (an implicit
        # None, 0, an empty string or dict), accepts with a truthy non-bool
        def fpred(p):
            if isinstance(p, dict) and p and all(
                    p.get(k) == v for k, v in cred.items()):
                return rng_pick(['yes', 1, {'ok': 1}, True])
            return rng_pick([None, 0, '', {}, [], False])
        state = {'n': 0}

        def rng_pick(values):
            state['n'] += 1
            return values[state['n'] % len(values)]
        if is_async and rng.random() < 0.5:
            async def afpred(p):
                return fpred(p)
            return afpred, (lambda p: bool(fpred(p))), \
                ['async-falsy-predicate', cred]
        return fpred, (lambda p: bool(fpred(p))), ['falsy-predicate', cred]
    if style == 'partial_predicate':
        # what applications write: it indexes the payload, so it raises for
        # an absent payload, a non-dict, or a dict without the keys
        def ppred(p):
            return all(p[k] == v for k, v in cred.items())
        if is_async and rng.random() < 0.5:
            async def appred(p):
                return ppred(p)
            return appred, ppred, ['async-partial-predicate', cred]
        return ppred, ppred, ['partial-predicate', cred]
    if style == 'async_predicate' and is_async:
        async def apred(p):
            await asyncio.sleep(0)
            return pred(p)
        return apred, pred, ['async-predicate', cred]
    return pred, pred, ['predicate', cred]


def part_auth(ctx, k):
    rng = ctx.case_rng(k)
    kind = 'sync' if rng.random() < 0.5 else 'async'
    style = rng.choice(['dict', 'dict', 'list', 'list', 'predicate',
                        'async_predicate', 'partial_predicate',
                        'falsy_predicate', 'false'])
    mode = rng.choice(['development', 'production'])
    read_only = rng.random() < 0.5
    auth, oracle, desc = make_auth(rng, style, kind == 'async')
    cfg = S.default_config(kind=kind, served=['/'], coroutines=True,
                           serializer=rng.choice(['default', 'default',
                                                  'msgpack']))
    run = Instrumented(cfg, auth, mode, read_only)
    r = run.r
    base_cred = desc if isinstance(desc, dict) else (
        desc[0] if isinstance(desc, list) and isinstance(desc[0], dict)
        else (desc[1] if isinstance(desc, list) else CREDS[0]))
    variants = payload_variants(rng, base_cred, CREDS)
    rng.shuffle(variants)
    accepted_sids = []
    refused_T = []
    accepted_T = []
    nT = 0
    conf = {'kind': kind, 'auth': desc if not callable(desc) else 'fn',
            'style': style, 'mode': mode, 'read_only': read_only}
    try:
        for label, payload in variants[:rng.choice([8, 14, 30])]:
            nT += 1
            r.step(['open', nT])
            res = r.step(['connect', nT, ADMIN,
                          None if payload == '$absent' else payload])
            # absent and falsy payloads reach the handler as None
            seen = None if (payload == '$absent' or not payload) else payload
            try:
                want = bool(oracle(seen))
                raises = False
            except Exception:
                # the predicate raises for this payload: not satisfied
                want = False
                raises = True
                ctx.count('auth_predicate_raised')
            frames = res['sent'].get(nT, [])
            ans = [p for p in frames if p['type'] in (R.CONNECT,
                                                      R.CONNECT_ERROR)]
            ctx.count('auth_attempts')
            ctx.count('auth_expected_accept' if want else
                      'auth_expected_refuse')
            w = {'part': 'auth', 'case_index': k, 'config': conf,
                 'payload_label': label, 'payload': payload,
                 'expected_accept': want,
                 'answer': [[p['type'], p['nsp'], p['data']] for p in ans],
                 'errors': res.get('errors'), 'exc': res.get('exc')}
            if raises and not ans:
                # (the predicate's exception surfaces in the server's log and
                # the client is left without an answer: not accepted)
                ans = [{'type': R.CONNECT_ERROR, 'nsp': ADMIN,
                        'data': '<no answer>'}]
            if len(ans) != 1 or ans[0]['nsp'] != ADMIN:
                ctx.violation(None, 'admin CONNECT with %s payload got %d '
                              'answers on the admin namespace (expected '
                              'exactly one)' % (label, len(ans)), w)
                return
            got = ans[0]['type'] == R.CONNECT
            if got != want:
                ctx.violation(None, 'admin CONNECT with %s payload %r was %s '
                              'although the configured auth (%s) says %s' % (
                                  label, payload,
                                  'accepted' if got else 'refused', style,
                                  'accept' if want else 'refuse'), w)
                return
            transient = [p for p in frames if p not in ans]
            if not got and transient:
                ctx.count('transient_frames_to_refused_admin',
                          len(transient))
            if got:
                accepted_sids.append(ans[0]['data']['sid'])
                accepted_T.append(nT)
            else:
                refused_T.append(nT)
            # membership: exactly the accepted sessions
            members = participants(run, ADMIN)
            if members != sorted(accepted_sids):
                ctx.violation(None, 'after a %s admin CONNECT the admin '
                              'namespace lists %r, expected exactly the '
                              'accepted sessions %r' % (
                                  'refused' if not got else 'accepted',
                                  members, sorted(accepted_sids)), w)
                return
            ctx.case(('A', kind, style, mode, read_only, label, want),
                     {'part': 'auth', 'config': conf, 'label': label,
                      'payload': payload, 'accepted': got})
        # probe: a broadcast on the admin namespace reaches exactly the
        # accepted transports
        r.step(['emit', 'probe', None, None, ADMIN, None, {'probe': 1}])
        # (frames were drained by step(); look at the packets of each T)
        for t_idx in refused_T + accepted_T:
            t = r.T[t_idx]
            got = [p for p in t.packets if p['type'] == R.EVENT and
                   p['data'] and p['data'][0] == 'tokprobe']
            want_n = 1 if t_idx in accepted_T else 0
            ctx.count('membership_probes')
            if len(got) != want_n:
                ctx.violation(None, 'a broadcast on the admin namespace '
                              'reached a %s admin transport %d times' % (
                                  'refused' if want_n == 0 else 'accepted',
                                  len(got)),
                              {'part': 'auth', 'case_index': k,
                               'config': conf, 'transport': t_idx})
                return
    finally:
        run.close()


# ---------------------------------------------------------------- part B
def part_readonly(ctx, k):
    rng = ctx.case_rng(k)
    kind = 'sync' if rng.random() < 0.5 else 'async'
    read_only = rng.random() < 0.7
    mode = 'development' if rng.random() < 0.8 else 'production'
    cfg = S.default_config(kind=kind, served=['/', '/a'], coroutines=True,
                           async_handlers=rng.random() < 0.5)
    cred = copy.deepcopy(rng.choice(CREDS))
    run = Instrumented(cfg, cred, mode, read_only)
    r = run.r
    conf = {'kind': kind, 'mode': mode, 'read_only': read_only}
    try:
        # application clients with rooms
        apps = []
        for t in (1, 2, 3):
            r.step(['open', t])
            for ns in ('/', '/a'):
                if rng.random() < 0.8:
                    r.step(['connect', t, ns, None])
                    if r.issued.get((t, ns)):
                        apps.append((t, ns))
        if not apps:
            r.step(['connect', 1, '/', None])
            apps.append((1, '/'))
        for t, ns in apps:
            if rng.random() < 0.6:
                r.step(['enter', ['sid', t, ns], rng.choice(['r1', 'r2']),
                        ns])
        r.step(['open', ADMIN_T])
        res = r.step(['connect', ADMIN_T, ADMIN, copy.deepcopy(cred)])
        if not any(p['type'] == R.CONNECT
                   for p in res['sent'].get(ADMIN_T, [])):
            ctx.violation(None, 'admin with the right credentials was not '
                          'accepted', {'part': 'readonly', 'case_index': k,
                                       'config': conf})
            return

        def snapshot():
            out = {}
            for t, ns in apps:
                sid = r.sid_of(['sid', t, ns])
                try:
                    rooms = sorted(map(str, r.sio.rooms(sid, namespace=ns)))
                except Exception as e:
                    rooms = 'exc:' + type(e).__name__
                out['%s%s' % (t, ns)] = [
                    r.sio.manager.is_connected(sid, ns), rooms]
            return out
        effective = mode == 'development' and not read_only
        for _ in range(rng.choice([3, 6, 10])):
            t, ns = rng.choice(apps)
            sid = r.sid_of(['sid', t, ns])
            room_filter = rng.choice([None, sid, 'r1', 'r2'])
            req = rng.choice(['emit', 'join', 'leave', '_disconnect'])
            if req == 'emit':
                args = [ns, room_filter, 'from_admin', 1, {'x': 2}]
            elif req == 'join':
                args = [ns, 'adminroom', room_filter]
            elif req == 'leave':
                args = [ns, rng.choice(['r1', 'r2', 'adminroom']),
                        room_filter]
            else:
                args = [ns, False, room_filter]
            if rng.random() < 0.3:
                args = args[:2] if req != 'emit' else args[:3]
            before = snapshot()
            ev0 = len(r.events)
            res = r.step(['event', ADMIN_T, ADMIN, req, args,
                          rng.choice([None, 1, 5])])
            after = snapshot()
            app_frames = {t2: [[p['type'], p['nsp'], p['data']] for p in v]
                          for t2, v in res['sent'].items() if t2 != ADMIN_T}
            app_events = [e for e in r.events[ev0:]
                          if e[0] == 'handler' and e[2] != ADMIN]
            changed = bool(app_frames) or before != after or bool(app_events)
            ctx.count('admin_requests')
            w = {'part': 'readonly', 'case_index': k, 'config': conf,
                 'request': [req] + args, 'frames_to_app_clients': app_frames,
                 'state_before': before, 'state_after': after,
                 'app_handler_events': app_events,
                 'errors': res.get('errors')}
            if not effective:
                ctx.count('admin_requests_that_must_be_inert')
                if changed:
                    ctx.violation(None, 'admin request %r in %s mode '
                                  '(read_only=%s) affected application '
                                  'clients' % (req, mode, read_only), w)
                    return
            else:
                if changed:
                    ctx.count('control_requests_with_effect')
            ctx.case(('B', kind, mode, read_only, req, room_filter is None,
                      len(args)),
                     {'part': 'readonly', 'config': conf,
                      'request': [req] + args, 'changed': changed})
    finally:
        run.close()


# ---------------------------------------------------------------- part C
def app_view(norm):
    """Restrict a normalised trace to what application clients observe."""
    out = []
    for e in norm:
        e = dict(e)
        e['sent'] = {t: v for t, v in e['sent'].items()
                     if t != str(ADMIN_T)}
        e['events'] = [x for x in e['events']
                       if x[0] != 'send' and not (
                           x[0] == 'handler' and x[2] == ADMIN)]
        if e['op'][0] == 'rooms' and isinstance(e.get('ret'), list):
            e['ret'] = sorted(e['ret'], key=stable)
        out.append(e)
    return out


def run_app_script(cfg, ops, variant, rng_seed):
    cfg = copy.deepcopy(cfg)
    instrument = variant != 'plain'
    mode = 'production' if variant.endswith('prod') else 'development'
    run = Instrumented(cfg, False, mode, read_only=False,
                       instrument=instrument)
    r = run.r
    try:
        pre = []
        if variant.startswith('admin'):
            pre = [r.step(['open', ADMIN_T]),
                   r.step(['connect', ADMIN_T, ADMIN, None])]
            # the harness labels environ dicts with a running transport
            # number: keep the application's numbering the same in both runs
            r.d._n = 0
        res = [r.step(copy.deepcopy(op)) for op in ops]
        # the admin client's frames and sids must not take part in renaming
        nadm = 0
        for x in res:
            nadm += len(x['sent'].pop(ADMIN_T, None) or [])
        run.admin_frames = nadm
        adm = set(r.issued.get((ADMIN_T, ADMIN), []))
        r.all_sids = [s for s in r.all_sids if s not in adm]
        tmap = dict(r.T)
        r.T = {i: t for i, t in r.T.items() if i != ADMIN_T}
        try:
            norm = S.normalise(res, r)
        finally:
            r.T = tmap
        return app_view(norm), res, (pre, nadm)
    finally:
        run.close()


class Hung(Exception):
    pass


HANG_S = 40
TAINTED = False


def run_guarded(fn, *a):
    """Run fn in a helper thread.  A run that has not finished after HANG_S
    seconds (they take milliseconds) and whose thread sits on the very same
    stack two seconds later is stuck for good."""
    import sys
    import time
    import traceback
    box = {}

    def target():
        try:
            box['r'] = fn(*a)
        except BaseException as e:  # noqa
            box['e'] = e
    th = threading.Thread(target=target, daemon=True)
    th.start()
    th.join(HANG_S)
    if th.is_alive():
        def stack():
            f = sys._current_frames().get(th.ident)
            return traceback.format_stack(f) if f is not None else None
        s1 = stack()
        time.sleep(2)
        s2 = stack()
        if s1 is not None and s1 == s2 and th.is_alive():
            raise Hung(''.join(s1[-8:]))
        th.join(HANG_S * 3)
        if th.is_alive():
            raise core.Inconclusive('a scenario run did not finish')
    if 'e' in box:
        raise box['e']
    return box['r']


class Unserialisable:
    """What applications keep in user sessions: any Python object."""

    def __init__(self, n):
        self.n = n

    def __eq__(self, other):
        return isinstance(other, Unserialisable) and other.n == self.n

    def __repr__(self):
        return '<object %d>' % self.n

    def __deepcopy__(self, memo):
        return Unserialisable(self.n)


def part_transparency(ctx, k):
    rng = ctx.case_rng(k)
    cfg0, ops0 = c14.gen_server_script(rng)
    # a client that went away silently is found dead by the next send to it
    opened = [i for i, op in enumerate(ops0) if op[0] == 'open']
    if opened and rng.random() < 0.35:
        i = rng.choice(opened)
        ops0.insert(rng.randint(i + 1, len(ops0)), ['stale', ops0[i][1]])
        ctx.count('transparency_scripts_with_silently_dead_client')
    # sessions hold arbitrary Python objects; the client then leaves the
    # namespace and comes back on the same transport
    conns = [(op[1], op[2]) for op in ops0 if op[0] == 'connect']
    if conns and rng.random() < 0.35:
        t, ns = rng.choice(conns)
        ops0 += [['save_session', ['sid', t, ns], ns,
                  {'user': Unserialisable(k), 'n': 1}],
                 ['cdisc', t, ns], ['connect', t, ns, None],
                 ['event', t, ns, 'ev0', [k], None],
                 ['get_session', ['sid', t, ns], ns]]
        ctx.count('transparency_scripts_with_object_in_session')
    # a busy period: more than a thousand room changes within one interval
    # of the instrumentation's statistics task (chat rooms being joined and
    # left), followed by ordinary traffic
    if conns and rng.random() < 0.04:
        t, ns = rng.choice(conns)
        burst = []
        for i in range(rng.choice([520, 700])):
            burst.append(['enter', ['sid', t, ns], 'room-%d' % (i % 7), ns])
            burst.append(['leave', ['sid', t, ns], 'room-%d' % (i % 7), ns])
        ops0 += burst + [['event', t, ns, 'ev0', [k, 'after'], 3],
                         ['emit', 10 ** 6 + k, None, None, ns, None]]
        ctx.count('transparency_scripts_with_a_burst_of_room_changes')
    cfg, ops = c14.materialise(cfg0, ops0)
    kind = 'sync' if rng.random() < 0.5 else 'async'
    cfg['kind'] = kind
    # application scenarios of the kind used for C03-C06: a client that sends
    # an EVENT *named* connect / disconnect (hostile input, C12's domain)
    # drives the server's reserved-event dispatch and is outside this
    # property's quantifier
    def reserved(op):
        if op[0] != 'raw':
            return False
        f = op[2]
        return (b'connect' in f) if isinstance(f, (bytes, bytearray)) \
            else ('connect' in f)
    keep = [i for i, op in enumerate(ops) if not reserved(op)]
    ops = [ops[i] for i in keep]
    ops0 = [ops0[i] for i in keep]
    variant = rng.choice(['admin_dev', 'admin_dev', 'noadmin_dev',
                          'admin_prod', 'noadmin_prod'])
    ta, ra, _ = run_guarded(run_app_script, cfg, ops, 'plain', k)
    try:
        tb, rb, (pre, nadm) = run_guarded(run_app_script, cfg, ops, variant,
                                          k)
    except Hung as e:
        # the stuck run never un-instrumented its server: the class-level
        # wrappers it left behind would taint everything that follows
        global TAINTED
        TAINTED = True
        ctx.violation(None, 'the instrumented (%s) %s server never finished '
                      'a scenario that the plain server completed: stuck at'
                      ' %s' % (variant, kind, str(e).strip().splitlines()[-2:
                                                                          ]),
                      {'part': 'transparency', 'case_index': k,
                       'variant': variant, 'kind': kind,
                       'config': core.jsonable(cfg0),
                       'ops': core.jsonable(ops0), 'stack': str(e)})
        return
    ctx.count('transparency_scripts')
    ctx.count('transparency_ops_compared', len(ops))
    ctx.count('transparency_frames_compared',
              sum(len(v) for e in ta for v in e['sent'].values()))
    ctx.count('transparency_handler_events_compared',
              sum(len(e['events']) for e in ta))
    if variant.startswith('admin'):
        ok = any(p['type'] == R.CONNECT
                 for p in pre[1]['sent'].get(ADMIN_T, []))
        ctx.count('transparency_runs_with_admin_connected' if ok else
                  'transparency_admin_not_connected')
        ctx.count('admin_frames_observed', nadm)
    d = c14.first_diff(ta, tb)
    if d is None:
        ctx.case(('C', kind, variant, cfg['serializer'],
                  cfg['async_handlers'],
                  tuple(sorted({op[0] for op in ops}))),
                 {'part': 'transparency', 'variant': variant,
                  'ops': ops0[:5]})
        return
    i, keys = d
    ctx.violation(None, 'application trace differs between a plain and an '
                  'instrumented (%s) %s server at operation %d (%r) in %s' % (
                      variant, kind, i, ops[i] if i < len(ops) else None,
                      keys),
                  {'part': 'transparency', 'case_index': k,
                   'variant': variant, 'kind': kind, 'config': cfg0,
                   'ops': ops0[:i + 1],
                   'plain': ta[i] if i < len(ta) else None,
                   'instrumented': tb[i] if i < len(tb) else None,
                   'plain_raw_errors': (ra[i].get('errors') or
                                        ra[i].get('exc_tb'))
                   if i < len(ra) else None,
                   'instrumented_raw_errors': (rb[i].get('errors') or
                                               rb[i].get('exc_tb'))
                   if i < len(rb) else None})


class FakeWebSocket:
    """What the websocket transport of engine.io is handed by the web
    server: wait() returns the next frame of the client (str or bytes; None
    when the client has closed), send() takes the server's frames."""

    def __init__(self):
        import queue
        self.incoming = queue.Queue()
        self.sent = []
        self.closed = False

    def wait(self):
        return self.incoming.get(timeout=30)

    def send(self, data):
        self.sent.append(data)

    def close(self):
        self.closed = True


def run_websocket_conversation(cfg, variant, frames, k):
    """One application client over the (real) websocket handler of
    engine.io's Socket - the code path the instrumentation wraps to count
    bytes - on a plain or an instrumented threaded server."""
    import time
    from engineio import socket as eio_socket
    cfg = copy.deepcopy(cfg)
    run = Instrumented(cfg, False, 'production' if variant.endswith('prod')
                       else 'development', read_only=False,
                       instrument=variant != 'plain')
    r = run.r
    d = r.d
    log = []
    try:
        def on_ev(sid, *args):
            log.append(['event', 'ev', core.jsonable(list(args))])
            return args[0] if args else None
        d.sio.on('ev', on_ev, namespace='/')
        d.sio.on('disconnect', lambda sid, reason: log.append(
            ['disconnect', reason]), namespace='/')
        eio_sid = d.eio.generate_id()
        s = eio_socket.Socket(d.eio, eio_sid)
        s.queue.join = lambda: None
        d.eio.sockets[eio_sid] = s
        d.eio._trigger_event('connect', eio_sid, {'verif.transport': 1},
                             run_async=False)
        ws = FakeWebSocket()
        th = threading.Thread(target=lambda: s._websocket_handler(ws),
                              daemon=True)
        th.start()
        want_frames = 0
        for f, nreply in frames:
            ws.incoming.put(f)
            want_frames += nreply
            t0 = time.time()
            while len(ws.sent) < want_frames and time.time() - t0 < 8 and \
                    th.is_alive():
                time.sleep(0.002)
        # the client closes once every event it sent has been handled (the
        # handlers of events without an id run in threads of their own and
        # answer nothing: their log entries are the only sign)
        n_events = len([1 for f, _ in frames if isinstance(f, str) and
                        f[:2] in ('42', '45')])
        t0 = time.time()
        while len([1 for e in log if e[0] == 'event']) < n_events and \
                time.time() - t0 < 8 and th.is_alive():
            time.sleep(0.002)
        handled = len([1 for e in log if e[0] == 'event'])
        time.sleep(0.02)
        ws.incoming.put(None)
        th.join(15)
        d.join()
        # (session ids differ between the two runs)
        out = []
        for x in ws.sent:
            if isinstance(x, str) and x.startswith('40{'):
                x = '40{"sid":<sid>}'
            out.append(x if isinstance(x, str) else {'$bytes': x.hex()})
        return {'frames_to_client': out, 'handler_log': log,
                'handler_thread_alive': th.is_alive(),
                'all_handled_before_close': handled >= n_events}
    finally:
        run.close()


def part_websocket(ctx, k):
    rng = ctx.case_rng(k)
    cfg = S.default_config(kind='sync', served=[], coroutines=False,
                           async_handlers=rng.random() < 0.5)
    blob = bytes(rng.randrange(256) for _ in range(rng.randint(1, 20)))
    conv = [('40', 1)]
    for i in range(rng.randint(1, 3)):
        kind = rng.choice(['text', 'binary', 'binary_ack'])
        if kind == 'text':
            conv.append(('42%d["ev","hello %d"]' % (i + 1, i), 1))
        elif kind == 'binary':
            conv.append(('451-["ev",{"_placeholder":true,"num":0}]', 0))
            conv.append((blob, 0))
        else:
            # event with id whose handler returns the bytes it was given
            conv.append(('451-%d["ev",{"_placeholder":true,"num":0}]' %
                         (i + 1), 0))
            conv.append((blob, 2))
    variant = rng.choice(['admin_dev', 'noadmin_dev', 'noadmin_prod'])
    a = run_websocket_conversation(cfg, 'plain', conv, k)
    b = run_websocket_conversation(cfg, variant.replace('admin_', 'noadmin_')
                                   if variant.startswith('admin') else
                                   variant, conv, k)
    ctx.count('websocket_conversations')
    if not a['all_handled_before_close']:
        # (the 8 s wall-clock watchdog fired on the *plain* server: a stalled
        # machine, nothing to compare with; an instrumented server that does
        # not get an event handled which the plain one does is a difference)
        ctx.count('websocket_conversations_not_completed')
        return
    ctx.count('websocket_frames_compared', len(a['frames_to_client']))
    if a != b:
        ctx.violation(None, 'an application client on the websocket '
                      'transport is served differently by a plain and an '
                      'instrumented (%s) server' % variant,
                      {'part': 'websocket', 'case_index': k,
                       'variant': variant,
                       'client_frames': core.jsonable([f for f, _ in conv]),
                       'plain': a, 'instrumented': b})
        return
    if not a['handler_log'] or a['handler_thread_alive']:
        ctx.count('websocket_conversations_not_completed')
        return
    ctx.case(('W', variant, tuple(type(f).__name__ for f, _ in conv)), None)


PARTS = [('A', part_auth, 3), ('B', part_readonly, 2),
         ('C', part_transparency, 5), ('W', part_websocket, 1)]


def run_case(ctx, k):
    total = sum(w for _, _, w in PARTS)
    slot = k % total
    for name, fn, w in PARTS:
        if slot < w:
            fn(ctx, k)
            return
        slot -= w


def run(ctx):
    ctx.rule = ('A: auth payload variants (exact, permuted, absent, None, '
                'non-dicts, sub/supersets, type-confused, nested, other '
                'credential sets) x auth config {dict, list, predicate, async '
                'predicate, False} x mode x read_only x {Server, AsyncServer} '
                'through real CONNECT packets; B: admin requests in read-only '
                '/ production / read-write mode; C: C14 server scripts on a '
                'plain vs an instrumented server; distinct = (part, server '
                'kind, configuration, payload class / request / set of '
                'operation kinds)')
    ctx.assumptions = [
        'equality of credentials is Python equality on the decoded JSON / '
        'msgpack payload (1 == 1.0 == True)',
        'an absent and an empty auth payload reach the connect handler as '
        'None (server behaviour outside this property); predicates used are '
        'total and constant on falsy payloads',
        'frames a to-be-refused admin receives about itself while its connect '
        'handler runs (socket_connected / room_joined) are counted, not '
        'judged: the property speaks of membership gained by a refused '
        'attempt, checked after the answer',
        'the periodic server_stats task is parked (interval 3600 s, virtual '
        'sleep); the class-wide engine.io Socket patches are undone after '
        'every instrumented run']
    ctx.require('auth_attempts', 50)
    ctx.require('auth_expected_accept', 5)
    ctx.require('auth_expected_refuse', 20)
    ctx.require('membership_probes', 20)
    ctx.require('admin_requests_that_must_be_inert', 10)
    ctx.require('control_requests_with_effect', 3)
    ctx.require('websocket_conversations', 5)
    ctx.require('websocket_frames_compared', 5)
    ctx.require('transparency_scripts', 20)
    ctx.require('transparency_scripts_with_a_burst_of_room_changes', 2)
    ctx.require('transparency_runs_with_admin_connected', 5)
    ctx.require('transparency_frames_compared', 200)
    k = ctx.shard
    while not ctx.out_of_time() and not ctx.too_many_violations() and \
            not TAINTED:
        run_case(ctx, k)
        k += ctx.nshards


def replay(ctx, w):
    run_case(ctx, w['witness']['case_index'])
