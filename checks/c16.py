"""C16 User sessions are private to one client connection and namespace.

Dict model keyed by (sid, namespace); every stored value carries a unique
marker naming its origin, so a leak identifies where it came from.
"""
import collections
import copy

from vlib import gen
from vlib import refcodec as R
from vlib import scenario as S

LEVEL = 'exploration'
TIERS = {
    'quick': {'budget': 40, 'watchdog': 300, 'shards': 1},
    'thorough': {'budget': 300, 'watchdog': 900, 'shards': 16},
}
NAMESPACES = ['/', '/a', '/b']


class Bag(collections.UserDict):
    """An application's own session class: a mapping, not a dict."""

    def __deepcopy__(self, memo):
        return Bag(copy.deepcopy(self.data, memo))


def origins(x, out):
    if isinstance(x, dict):
        if 'origin' in x and 'marker' in x:
            out.append(x['origin'])
        for v in x.values():
            origins(v, out)
    elif isinstance(x, list):
        for v in x:
            origins(v, out)
    return out


def classify(w):
    # the known mechanism: the first read of a *fresh* sid obtained by
    # re-CONNECTing the same transport to the same namespace shows data whose
    # origin markers all name an earlier connection epoch of that very
    # (transport, namespace).  Anything else (another client's or another
    # namespace's data, a later read going wrong) is unclassified.
    if not (w.get('fresh_sid_nonempty') and
            w.get('same_transport_reconnect')):
        return None
    T, ns, epoch = w.get('reader', [None, None, 0])
    orig = origins(w.get('got'), [])
    if orig and all(o[0] == T and o[1] == ns and o[2] < epoch for o in orig):
        return 'session-survives-namespace-reconnect'
    return None


class History:
    def __init__(self, ctx, rng, kind, index):
        self.ctx, self.rng, self.kind, self.index = ctx, rng, kind, index
        served = NAMESPACES[:rng.choice([1, 2, 3])]
        self.cfg = S.default_config(
            kind=kind, served=served, serializer='default',
            async_handlers=False, namespaces_opt=served,
            style={ns: rng.choice(['func', 'class']) for ns in served},
            coroutines=rng.random() < 0.7)
        self.r = S.Runner(self.cfg)
        # the application's disconnect handlers (function style) look at the
        # session of the departing client: it is still that client's session
        self.disc_reads = []
        self._register_disconnect_readers()
        self.conn = {}          # (T, ns) -> sid
        self.model = {}         # (sid, ns) -> dict
        self.epochs = {}        # (T, ns) -> number of accepted connections
        self.nT = 0
        self.open_T = []
        self.marker = 0
        self.ops = []
        self.failed = False

    def _register_disconnect_readers(self):
        sio, reads = self.r.sio, self.disc_reads
        for ns in self.cfg['served']:
            if self.cfg['style'].get(ns, 'func') != 'func':
                continue
            if self.r.d.is_async:
                def mk(ns):
                    async def on_disconnect(sid, reason):
                        try:
                            v = copy.deepcopy(await sio.get_session(
                                sid, namespace=ns))
                            async with sio.session(sid, namespace=ns):
                                pass
                        except Exception as e:
                            v = 'raised %s' % type(e).__name__
                        reads.append((sid, ns, v))
                    return on_disconnect
            else:
                def mk(ns):
                    def on_disconnect(sid, reason):
                        try:
                            v = copy.deepcopy(sio.get_session(
                                sid, namespace=ns))
                            with sio.session(sid, namespace=ns):
                                pass
                        except Exception as e:
                            v = 'raised %s' % type(e).__name__
                        reads.append((sid, ns, v))
                    return on_disconnect
            sio.on('disconnect', mk(ns), namespace=ns)

    def check_disconnect_reads(self, expected, res):
        """expected: {(sid, ns): model value} of the sessions that ended."""
        reads, self.disc_reads[:] = list(self.disc_reads), []
        for sid, ns, v in reads:
            if (sid, ns) not in expected:
                continue
            self.ctx.count('session_reads_in_disconnect_handler')
            if not R.deep_eq(v, expected[(sid, ns)]):
                return self.fail(
                    'the disconnect handler of %r on %r read the session as '
                    '%r, the model says %r' % (sid, ns, v,
                                               expected[(sid, ns)]), res,
                    {'expected': copy.deepcopy(expected[(sid, ns)]),
                     'got': v})

    def witness(self, res, extra=None):
        w = {'case_index': self.index, 'kind': self.kind,
             'history': self.ops[-25:], 'failing_op': res.get('op'),
             'ret': res.get('ret'), 'exc': res.get('exc'),
             'exc_tb': res.get('exc_tb'), 'errors': res.get('errors')}
        if extra:
            w.update(extra)
        return w

    def fail(self, what, res, extra=None):
        w = self.witness(res, extra)
        if self.ctx.violation(classify(w), what, w):
            self.failed = True
            return True
        return False        # listed known finding: keep exploring

    def value(self, T, ns):
        self.marker += 1
        v = {'marker': self.marker, 'origin': [T, ns,
                                               self.epochs.get((T, ns), 0)]}
        if self.rng.random() < 0.5:
            v['extra'] = gen.gen_tree(self.rng, 3, [8], True)
        return v

    def mapping_session_probe(self, T, ns, sid):
        """What an application saves as its session need not be a dict: a
        mapping object of its own (here a collections.UserDict subclass) is
        what every later get_session() / session() returns."""
        ctx = self.ctx
        self.marker += 1
        bag = Bag({'bag': self.marker, 'owner': [T, ns]})
        op = ['save_session', sid, ns, bag]
        self.ops.append(['save_session', sid, ns, 'Bag(%r)' % dict(bag)])
        res = self.r.step(op)
        if res.get('exc'):
            return self.fail('save_session(mapping object) raised', res)
        res = self.r.step(['get_session', sid, ns])
        got = res.get('ret')
        ctx.count('mapping_sessions_checked')
        if res.get('exc') or type(got).__name__ != 'Bag' or \
                dict(got) != {'bag': self.marker, 'owner': [T, ns]}:
            return self.fail('the session saved for %r on %r was a mapping '
                             'object holding %r; get_session() returned %r '
                             '(%s)' % (sid, ns, dict(bag), got,
                                       type(got).__name__), res)
        res = self.r.step(['session_block', sid, ns, {'more': self.marker}])
        res = self.r.step(['get_session', sid, ns])
        got = res.get('ret')
        if res.get('exc') or type(got).__name__ != 'Bag' or \
                dict(got) != {'bag': self.marker, 'owner': [T, ns],
                              'more': self.marker}:
            return self.fail('a session() block on a mapping-object session '
                             'left %r' % (got,), res)
        # back to a plain dict for the rest of the history
        res = self.r.step(['save_session', sid, ns,
                           copy.deepcopy(self.model[(sid, ns)])])
        if res.get('exc'):
            return self.fail('save_session raised', res)

    def wrong_namespace_probe(self, T, ns, sid):
        """Session calls that name a namespace the session id does not
        belong to are refused (they raise) and touch nobody's session."""
        ctx, rng = self.ctx, self.rng
        others = [n2 for n2 in NAMESPACES if n2 != ns]
        ns2 = rng.choice(others)
        self.marker += 1
        for op in (['get_session', sid, ns2],
                   ['save_session', sid, ns2, {'planted': self.marker}],
                   ['session_block', sid, ns2, {'planted': self.marker}]):
            self.ops.append(op + ['(wrong namespace)'])
            res = self.r.step(op)
            ctx.count('session_calls_with_wrong_namespace')
            if not res.get('exc'):
                return self.fail(
                    '%s for session id %r, which belongs to %r, with '
                    'namespace=%r did not raise (returned %r)' % (
                        op[0], sid, ns, ns2, res.get('ret')), res)
        self.r.d.clear_errors()
        # nobody's session was touched
        for (T2, n2), s2 in sorted(self.conn.items()):
            if T2 != T:
                continue
            res = self.r.step(['get_session', s2, n2])
            if self.check_get(res, s2, n2, T2) is False:
                return

    def check_get(self, res, sid, ns, T, fresh=False):
        want = self.model[(sid, ns)]
        got = res.get('ret')
        self.ctx.count('session_reads_checked')
        if res.get('exc'):
            return self.fail('get_session raised for a connected client', res)
        if not isinstance(got, dict) or not R.deep_eq(got, want):
            extra = {'expected': copy.deepcopy(want), 'got': got,
                     'fresh_sid_nonempty': fresh and bool(got),
                     'same_transport_reconnect':
                     self.epochs.get((T, ns), 0) > 1,
                     'reader': [T, ns, self.epochs.get((T, ns), 0)]}
            if not self.fail(
                    'get_session(%r, %r) returned %r, the model says %r' % (
                        sid, ns, got, want), res, extra):
                # known finding: resynchronise the model with what the server
                # holds so that the other clauses are still checked
                self.model[(sid, ns)] = copy.deepcopy(got)
            return False
        return True

    def block_across_reconnect(self, T, ns, sid):
        """A session() block of connection A is still open (its handler is
        busy) when the client leaves the namespace and connects to it again
        on the same transport; the new connection B saves its own session.
        Whatever the old block does when it finally exits (it may well
        raise: its client is gone), B's session is B's."""
        ctx, r = self.ctx, self.r
        sio, d = r.sio, r.d
        op = ['block_across_reconnect', sid, ns]
        self.ops.append(op)
        cm = sio.session(sid, namespace=ns)
        try:
            s = d.run(cm.__aenter__()) if d.is_async else cm.__enter__()
        except Exception as e:
            return self.fail('entering a session() block raised %r' % e,
                             {'op': op})
        s['held_open'] = {'marker': -1, 'origin': [T, ns, -1]}
        self.r.step(['cdisc', T, ns])
        del self.conn[(T, ns)]
        del self.model[(sid, ns)]
        res = self.r.step(['connect', T, ns, None])
        acc = [p for p in res.get('sent', {}).get(T, [])
               if p['type'] == R.CONNECT]
        if not acc:
            return self.fail('CONNECT not accepted', res)
        sid2 = acc[0]['data']['sid']
        self.conn[(T, ns)] = sid2
        self.epochs[(T, ns)] = self.epochs.get((T, ns), 0) + 1
        v = self.value(T, ns)
        res = self.r.step(['save_session', sid2, ns, copy.deepcopy(v)])
        if res.get('exc'):
            return self.fail('save_session raised', res)
        self.model[(sid2, ns)] = v
        try:
            if d.is_async:
                d.run(cm.__aexit__(None, None, None))
            else:
                cm.__exit__(None, None, None)
            ctx.count('stale_block_exits_silent')
        except Exception:
            ctx.count('stale_block_exits_raising')
        r.d.clear_errors()
        ctx.count('session_blocks_across_reconnect')
        op = ['get_session', sid2, ns]
        self.ops.append(op)
        res = self.r.step(op)
        self.check_get(res, sid2, ns, T)

    def refused_connect(self, T):
        """A further CONNECT of a transport that has sessions is refused (the
        handler returns False, raises ConnectionRefusedError, or fails with
        another exception): the sessions of the transport's namespaces are
        what they were."""
        rng, ctx = self.rng, self.ctx
        free = [ns for ns in self.cfg['served'] if (T, ns) not in self.conn]
        if not free or T not in self.open_T:
            return
        ns = rng.choice(free)
        beh = rng.choice(['false', ['refuse', 'no'], 'fault'])
        if beh == 'fault':
            self.r.faults = {self.r.invocations}
        else:
            self.r.connect_script.setdefault(ns, []).append(beh)
        op = ['connect', T, ns, None]
        self.ops.append(op + [beh])
        res = self.r.step(op)
        self.r.faults = set()
        self.r.d.clear_errors()
        acc = [p for p in res.get('sent', {}).get(T, [])
               if p['type'] == R.CONNECT]
        if acc:
            return self.fail('a refused CONNECT was accepted', res)
        ctx.count('refused_connects')
        for (T2, ns2), sid2 in sorted(self.conn.items()):
            if T2 != T:
                continue
            op = ['get_session', sid2, ns2]
            self.ops.append(op)
            res = self.r.step(op)
            if self.check_get(res, sid2, ns2, T2) is not True:
                return

    def step(self):
        rng = self.rng
        ctx = self.ctx
        r = rng.random()
        if not self.open_T or r < 0.04:
            self.nT += 1
            self.open_T.append(self.nT)
            op = ['open', self.nT]
            self.ops.append(op)
            self.r.step(op)
            return
        if len(self.conn) < 2 or r < 0.2:
            T = rng.choice(self.open_T)
            ns = rng.choice(self.cfg['served'])
            if (T, ns) in self.conn:
                # a duplicate CONNECT for a namespace this transport is
                # already connected to is refused and changes nothing: the
                # session of the existing connection stays what it was
                if rng.random() < 0.7:
                    return
                sid = self.conn[(T, ns)]
                op = ['connect', T, ns, None]
                self.ops.append(op)
                res = self.r.step(op)
                acc = [p for p in res.get('sent', {}).get(T, [])
                       if p['type'] == R.CONNECT]
                if acc:
                    return self.fail('duplicate CONNECT was accepted', res)
                ctx.count('duplicate_connects')
                op = ['get_session', sid, ns]
                self.ops.append(op)
                res = self.r.step(op)
                self.check_get(res, sid, ns, T)
                return
            op = ['connect', T, ns, None]
            self.ops.append(op)
            res = self.r.step(op)
            acc = [p for p in res.get('sent', {}).get(T, [])
                   if p['type'] == R.CONNECT]
            if not acc:
                return self.fail('CONNECT not accepted', res)
            sid = acc[0]['data']['sid']
            self.conn[(T, ns)] = sid
            self.epochs[(T, ns)] = self.epochs.get((T, ns), 0) + 1
            self.model[(sid, ns)] = {}
            ctx.count('connects')
            if self.epochs[(T, ns)] > 1:
                ctx.count('same_transport_reconnects')
            # a newly connected session id starts with an empty session
            op = ['get_session', sid, ns]
            self.ops.append(op)
            res = self.r.step(op)
            if self.check_get(res, sid, ns, T, fresh=True):
                ctx.case((self.kind, 'fresh', self.epochs[(T, ns)] > 1,
                          len([k for k in self.conn if k[0] == T])),
                         {'op': op, 'epoch': self.epochs[(T, ns)]})
            return
        T, ns = rng.choice(sorted(self.conn))
        sid = self.conn[(T, ns)]
        if r > 0.97:
            return self.block_across_reconnect(T, ns, sid)
        if r > 0.94:
            return self.refused_connect(T)
        if r > 0.915:
            return self.mapping_session_probe(T, ns, sid)
        if r > 0.89:
            return self.wrong_namespace_probe(T, ns, sid)
        if r < 0.32:
            k = rng.random()
            if k < 0.45:
                op = ['cdisc', T, ns]
            elif k < 0.8:
                op = ['sdisc', sid, ns]
            else:
                op = ['lose', T]
            self.ops.append(op)
            del self.disc_reads[:]
            res = self.r.step(op)
            expected = {}
            if op[0] == 'lose':
                self.open_T.remove(T)
                for key in [k2 for k2 in self.conn if k2[0] == T]:
                    s = self.conn.pop(key)
                    expected[(s, key[1])] = self.model.pop((s, key[1]))
            else:
                del self.conn[(T, ns)]
                expected[(sid, ns)] = self.model.pop((sid, ns))
            ctx.count('disconnects')
            self.check_disconnect_reads(expected, res)
            return
        if r < 0.5:
            v = self.value(T, ns)
            op = ['save_session', sid, ns, copy.deepcopy(v)]
            self.ops.append(op)
            res = self.r.step(op)
            if res.get('exc'):
                return self.fail('save_session raised', res)
            self.model[(sid, ns)] = v
            ctx.count('saves')
            return
        if r < 0.65:
            v = self.value(T, ns)
            upd = {'k%d' % rng.randint(0, 3): v}
            op = ['session_block', sid, ns, copy.deepcopy(upd)]
            more = None
            if rng.random() < 0.25:
                # while the block is open something else saves a fresh
                # session for the client; the block goes on modifying its own
                more = {'m%d' % rng.randint(0, 2): self.value(T, ns)}
                op.append([{'fresh': self.value(T, ns)},
                           copy.deepcopy(more)])
                ctx.count('session_blocks_with_a_save_inside')
            self.ops.append(op)
            res = self.r.step(op)
            if res.get('exc'):
                return self.fail('session() block raised', res)
            ctx.count('session_blocks')
            if more:
                upd = dict(upd, **more)
            if not R.deep_eq(res.get('ret'), self.model[(sid, ns)]):
                return self.fail('session() block yielded %r, the model '
                                 'says %r' % (res.get('ret'),
                                              self.model[(sid, ns)]), res)
            self.model[(sid, ns)].update(upd)
            return
        if r < 0.72:
            # an outer session() block with a complete inner block for the
            # same client and namespace inside it (overlapping handlers),
            # optionally left through an exception: everything modified
            # inside a block is persisted when the block exits
            inner = rng.random() < 0.6
            raises = rng.random() < 0.4
            a1 = {'a%d' % rng.randint(0, 2): self.value(T, ns)}
            # one or several complete inner blocks, one after another
            b = [{'b%d' % rng.randint(0, 2): self.value(T, ns)}
                 for _ in range(rng.choice([1, 2, 3]))] if inner else None
            a2 = {'c%d' % rng.randint(0, 2): self.value(T, ns)}
            op = ['session_nested', sid, ns, copy.deepcopy(a1),
                  copy.deepcopy(b), copy.deepcopy(a2), raises]
            self.ops.append(op)
            res = self.r.step(op)
            if res.get('exc'):
                return self.fail('session() block raised %s' % res['exc'],
                                 res)
            ctx.count('session_blocks_nested' if inner else
                      'session_blocks_plain')
            if raises:
                ctx.count('session_blocks_left_by_exception')
            self.model[(sid, ns)].update(a1)
            for bi in b or []:
                self.model[(sid, ns)].update(bi)
            self.model[(sid, ns)].update(a2)
            op = ['get_session', sid, ns]
            self.ops.append(op)
            res = self.r.step(op)
            self.check_get(res, sid, ns, T)
            return
        # read: own namespace, and the same sid under other namespaces /
        # other clients' view
        op = ['get_session', sid, ns]
        self.ops.append(op)
        res = self.r.step(op)
        if self.check_get(res, sid, ns, T):
            ctx.case((self.kind, 'read', len(self.model[(sid, ns)]),
                      len([k for k in self.conn if k[0] == T]),
                      self.epochs.get((T, ns), 0) > 1),
                     {'op': op, 'value': self.model[(sid, ns)]}
                     if self.model[(sid, ns)] else None)
        # isolation: the same transport's other namespaces
        for (T2, ns2), sid2 in sorted(self.conn.items()):
            if T2 == T and ns2 != ns and rng.random() < 0.5:
                op = ['get_session', sid2, ns2]
                self.ops.append(op)
                res = self.r.step(op)
                if not self.check_get(res, sid2, ns2, T2):
                    return
                ctx.count('sibling_namespace_reads')

    def close(self):
        self.r.close()


def run_case(ctx, k):
    rng = ctx.case_rng(k)
    h = History(ctx, rng, 'sync' if k % 2 == 0 else 'async', k)
    try:
        for _ in range(rng.choice([20, 40, 80])):
            h.step()
            if h.failed:
                break
    finally:
        h.close()


def run(ctx):
    ctx.rule = ('histories over {CONNECT, save_session, get_session, '
                'session() block, namespace DISCONNECT, server disconnect(), '
                'transport loss, re-CONNECT on the same or a new transport} '
                'for several clients/namespaces; every read is compared with '
                'a dict model keyed by (sid, namespace); values carry unique '
                'origin markers; distinct = (server kind, read/fresh, '
                'session size, #namespaces on the transport, reconnected '
                'epoch)')
    ctx.assumptions = [
        'dictionaries returned by get_session() are not mutated by the '
        'harness (persistence of such mutations is explicitly not promised)']
    ctx.require('session_reads_checked', 100)
    ctx.require('same_transport_reconnects', 5)
    ctx.require('session_blocks', 20)
    ctx.require('session_blocks_with_a_save_inside', 5)
    ctx.require('mapping_sessions_checked', 10)
    ctx.require('session_calls_with_wrong_namespace', 10)
    ctx.require('saves', 20)
    ctx.require('sibling_namespace_reads', 5)
    ctx.require('duplicate_connects', 5)
    ctx.require('session_blocks_nested', 5)
    ctx.require('session_blocks_across_reconnect', 5)
    ctx.require('refused_connects', 10)
    ctx.require('session_reads_in_disconnect_handler', 20)
    ctx.require('session_blocks_left_by_exception', 5)
    # threaded server: a re-CONNECT racing the end of the old connection
    from checks import c16_sched
    ctx.require('reconnect_race_schedules', 30)
    ctx.require('reconnect_race_accepted', 5)
    ctx.require('first_touch_schedules', 100)
    ctx.require('two_client_session_schedules', 100)
    if ctx.shard == 0:
        share = (ctx.budget or 40) * 0.15
        c16_sched.run_part(ctx, share)
        # two handler threads of one client use its untouched session
        c16_sched.run_first_touch_part(ctx, share)
        # handlers of different clients use their sessions at the same time
        c16_sched.run_two_clients_part(ctx, share)
    else:
        ctx.required.pop('reconnect_race_schedules')
        ctx.required.pop('reconnect_race_accepted')
        ctx.required.pop('first_touch_schedules')
        ctx.required.pop('two_client_session_schedules')
    k = 0
    while not ctx.out_of_time() and not ctx.too_many_violations():
        run_case(ctx, k)
        ctx.count('histories')
        k += 1


def replay(ctx, w):
    if w['witness'].get('part') in ('reconnect_race', 'first_touch', 'two_clients'):
        from checks import c16_sched
        return c16_sched.replay(ctx, w)
    run_case(ctx, w['witness']['case_index'])
