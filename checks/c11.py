"""C11 No residual server state once a client is gone.

Fault enumeration: client generations built from the quantifier's history
elements; for a history with K handler invocations every single fault
position 0..K-1 (that invocation raises) plus the fault-free run, ended by
every cause; after each transport ends the API-level residue is checked, and
after the last client has gone the server is compared with its own state
after a clean warm-up generation: API snapshot, object-graph size (GraphSize)
and the trace of a probe client.
"""
import json

from vlib import gen
from vlib import graphsize as G
from vlib import refcodec as R
from vlib import scenario as S
from vlib.core import jsonable

LEVEL = 'fault_enumeration'
TIERS = {
    'quick': {'budget': 45, 'watchdog': 400, 'shards': 1},
    'thorough': {'budget': 420, 'watchdog': 900, 'shards': 16},
}
POOL = ['/', '/a', '/b']
ROOMS = ['r1', 'r2', 'lobby']


def classify(w):
    return w.get('mechanism_hint')


def mk_history(rng, T, served, fresh=None):
    """One client generation (symbolic; sids are ['sid', T, ns])."""
    ops = [['open', T]]
    nss = [ns for ns in served if rng.random() < 0.7] or [served[0]]
    if rng.random() < 0.2:
        nss.append('/unserved')
    if fresh:
        nss.append(fresh)
    for ns in nss:
        ops.append(['connect', T, ns, rng.choice([None, {'k': 1}])])
    tok = [T * 1000]

    def t():
        tok[0] += 1
        return tok[0]
    for _ in range(rng.choice([2, 4, 8, 12])):
        r = rng.random()
        ns = rng.choice(nss)
        sid = ['sid', T, ns]
        if r < 0.25:
            ops.append(['event', T, ns, rng.choice(S.EVENT_POOL),
                        [t()] + gen.gen_args(rng, True, 2, maxn=2),
                        rng.choice([None, 0, 1, 5])])
        elif r < 0.33:
            ops.append(['event_partial', T, ns, 'ev0', [t(), b'a', b'b'],
                        rng.choice([None, 2]), rng.choice([1, 2])])
        elif r < 0.41:
            ops.append(['raw', T, rng.choice(
                ['', '9', '2', '2[', '2["ev0"', '51-["ev0",{"_placeholder":'
                 'true,"num":0}]', '3', '4"x"', '0/zz,', '2/a,["ev0",1]',
                 '61-/a,7[{"_placeholder":true,"num":5}]', b'\x00\x01',
                 '2' + '9' * 120, '5' + '1' * 30 + '-["x"]', '1/nope,'])])
        elif r < 0.55:
            ops.append(['enter', sid, rng.choice(ROOMS + ['gen%d' % T]), ns])
        elif r < 0.6:
            # (now and then the application takes the client out of its own
            # personal room, or closes that room)
            ops.append(['leave', sid, rng.choice(ROOMS) if rng.random() < 0.7
                        else sid, ns])
        elif r < 0.64:
            ops.append(['close_room', rng.choice(ROOMS) if rng.random() < 0.7
                        else sid, ns])
        elif r < 0.76:
            ops.append(['emit', t(), sid, None, ns,
                        rng.choice(['fn', 'fn', None])])
        elif r < 0.84:
            ops.append(['save_session', sid, ns, {'v': t()}])
        elif r < 0.9:
            ops.append(['cdisc', T, ns])
        elif r < 0.95:
            ops.append(['sdisc', sid, ns])
        else:
            ops.append(['connect', T, ns, None])
    end = rng.choice(['lose', 'lose', 'cclose', 'cdisc_all_lose',
                      'sdisc_all_lose', 'silent_then_sdisc',
                      'silent_then_emit'])
    if end in ('silent_then_sdisc', 'silent_then_emit'):
        # the client went away silently long ago: the next send to it (the
        # DISCONNECT of a server-side disconnect, or an emit) is what finds
        # the transport dead, from inside that send
        ops.append(['stale', T])
        ns0 = rng.choice(nss)
        if end == 'silent_then_sdisc':
            ops.append(['sdisc', ['sid', T, ns0], ns0])
        else:
            ops.append(['emit', t(), ['sid', T, ns0], None, ns0, None])
        ops.append(['lose', T])
        return ops, nss, end
    if end == 'cdisc_all_lose':
        for ns in nss:
            ops.append(['cdisc', T, ns])
        ops.append(['lose', T])
    elif end == 'sdisc_all_lose':
        for ns in nss:
            ops.append(['sdisc', ['sid', T, ns], ns])
        ops.append(['lose', T])
    else:
        ops.append([end, T])
    return ops, nss, end


class Case:
    def __init__(self, ctx, rng, kind, index):
        self.ctx, self.rng, self.kind, self.index = ctx, rng, kind, index
        served = POOL[:rng.choice([1, 2, 3])]
        self.served = served
        self.cfg = S.default_config(
            kind=kind, served=served,
            style={ns: rng.choice(['func', 'func', 'class', 'catchall'])
                   for ns in served},
            serializer=rng.choice(['default', 'default', 'msgpack']),
            async_handlers=rng.random() < 0.3,
            always_connect=rng.random() < 0.3,
            coroutines=rng.random() < 0.7,
            connect_script={}, faults=[])
        if kind == 'async' and self.cfg['coroutines'] and \
                rng.random() < 0.3:
            # faults in disconnect handlers are cancellations
            self.cfg['fault_exc'] = 'cancelled'
            ctx.count('cases_with_cancelled_disconnect_handlers')
        # a fifth of the servers accept any namespace a client names; every
        # client generation then also uses a namespace of its own
        self.accept_all = rng.random() < 0.2
        if self.accept_all:
            self.cfg['namespaces_opt'] = '*'
            ctx.count('cases_with_a_fresh_namespace_per_generation')
        self.refuse_p = rng.choice([0, 0.2])
        # a quarter of the cases run on a message-queue manager (one host of
        # a cluster): the bookkeeping for local clients must be just as clean
        self.pubsub = rng.random() < 0.25
        self.r = None
        self.failed = False
        self.nT = 0

    def new_runner(self):
        if not self.pubsub:
            return S.Runner(self.cfg)
        from vlib import pubsub_mem as PM

        class NullChannel(PM.Channel):
            """Nothing is kept: the published messages are not part of the
            server's state."""

            def publish(self, raw, publisher=None):
                return 0
        chan = NullChannel()
        dkw = {}
        if self.kind == 'async':
            mgr = PM.make_async_manager(chan)
        else:
            mgr = PM.make_sync_manager(chan)
        dkw['client_manager'] = mgr
        self.ctx.count('pubsub_manager_cases')
        return S.Runner(self.cfg, drive_kw=dkw)

    def witness(self, extra=None):
        w = {'case_index': self.index, 'kind': self.kind,
             'config': {k: self.cfg[k] for k in (
                 'serializer', 'served', 'style', 'async_handlers',
                 'always_connect', 'coroutines')},
             'pubsub_manager': self.pubsub}
        if extra:
            w.update(extra)
        r = self.r
        if r is not None:
            m = r.sio.manager
            w['internals'] = jsonable({
                'rooms': {str(ns): {str(room): sorted(b.keys())
                                    for room, b in rooms.items()}
                          for ns, rooms in m.rooms.items()},
                'callbacks': {str(k): len(v) for k, v in
                              m.callbacks.items()},
                'pending_disconnect': {str(k): list(v) for k, v in
                                       m.pending_disconnect.items()},
                'environ_keys': len(r.sio.environ),
                'binary_packet_keys': len(r.sio._binary_packet),
                'eio_sockets': len(r.sio.eio.sockets)})
        return w

    def fail(self, what, extra=None, hint=None):
        w = self.witness(extra)
        w['mechanism_hint'] = hint
        if self.ctx.violation(classify(w), what, w):
            self.failed = True
            return True
        return False

    # ----------------------------------------------------------- running
    def run_generation(self, ops, fault_at, post_end_ops):
        """Run one client generation on the persistent server.  Returns the
        list of (sid, ns) issued to that transport."""
        r = self.r
        T = ops[0][1]
        base = r.invocations
        r.faults = {base + fault_at} if fault_at is not None else set()
        for ns in self.served:
            r.connect_script.setdefault(ns, [])
        results = []
        for op in ops:
            if op[0] == 'connect' and self.rng.random() < self.refuse_p \
                    and op[2] in self.served:
                r.connect_script[op[2]].append(self.rng.choice(
                    ['false', ['refuse', 'no']]))
            results.append(r.step(op))
        r.faults = set()
        for ns in self.served:
            r.connect_script[ns] = []
        issued = [(sid, ns) for (t, ns), lst in r.issued.items() if t == T
                  for sid in lst]
        # what a background handler would do when it loses the race with the
        # disconnect: room operations / emits on the departed client's sid
        for kindop in post_end_ops:
            if not issued:
                break
            sid, ns = self.rng.choice(issued)
            try:
                if kindop == 'enter':
                    r.d.api('enter_room', sid, 'late-%d' % T, namespace=ns)
                elif kindop == 'leave':
                    r.d.api('leave_room', sid, 'r1', namespace=ns)
                elif kindop == 'emit_cb':
                    self.late_cb_sids = getattr(self, 'late_cb_sids', set())
                    self.late_cb_sids.add(sid)
                    r.d.api('emit', 'late', {'x': 1}, to=sid, namespace=ns,
                            callback=lambda *a: None)
                elif kindop == 'sdisc':
                    r.d.api('disconnect', sid, namespace=ns)
                elif kindop == 'close_room':
                    r.d.api('close_room', sid, namespace=ns)
            except Exception:
                pass
        r.d.clear_errors()
        fired = r.invocations - base
        return issued, fired, results

    def residue(self, issued, where, hint_extra=None):
        """API-level residue of departed sids."""
        r = self.r
        sio = r.sio
        m = sio.manager
        self.ctx.count('residue_checks')
        for sid, ns in issued:
            rooms = list(r.d.api('rooms', sid, namespace=ns))
            if rooms:
                return self.fail('%s: departed sid %r is still in rooms %r'
                                 % (where, sid, rooms), hint_extra,
                                 self.hint('rooms'))
            if m.is_connected(sid, ns):
                return self.fail('%s: departed sid %r is still connected' % (
                    where, sid), hint_extra, self.hint('connected'))
            if sio.get_environ(sid, ns) is not None:
                return self.fail('%s: departed sid %r still has an environ'
                                 % (where, sid), hint_extra,
                                 self.hint('environ'))
        dead = {s for s, _ in issued}
        for ns in list(m.get_namespaces()):
            for room in [None] + ROOMS + [s for s, _ in issued]:
                part = [s for s, _ in m.get_participants(ns, room)]
                bad = [s for s in part if s in dead]
                if bad:
                    return self.fail('%s: departed sid %r is listed in room '
                                     '%r of %r' % (where, bad[0], room, ns),
                                     hint_extra, self.hint('participants'))
        return False

    def hint(self, what):
        """Mechanism hint for the classifier, from what the generation did."""
        return self._hint

    def api_snapshot(self):
        m = self.r.sio.manager
        return {'namespaces': sorted(m.get_namespaces()),
                'participants': {
                    '%s|%s' % (ns, room): sorted(
                        s for s, _ in m.get_participants(ns, room))
                    for ns in POOL for room in [None] + ROOMS}}

    def probe(self, T):
        r = self.r
        ns = self.served[0]
        ops = [['open', T], ['connect', T, ns, None],
               ['event', T, ns, 'ev0', [1, b'x'], 7],
               ['emit', 1, None, None, ns, None],
               ['enter', ['sid', T, ns], 'r1', ns],
               ['emit', 2, 'r1', None, ns, None],
               ['emit', 3, ['sid', T, ns], None, ns, 'fn'],
               ['ack', T, ns, 1, ['pong']],
               ['rooms', ['sid', T, ns], ns],
               ['cdisc', T, ns], ['lose', T]]
        ev0 = len(r.all_sids)
        res = r.run(ops)
        tr = S.normalise(res, r)
        for e in tr:
            e.pop('op', None)
            e['sent'] = list(e['sent'].values())
            if isinstance(e.get('ret'), list):
                e['ret'] = sorted(e['ret'], key=lambda x: (
                    isinstance(x, str) and x.startswith('S'), str(x)))
            for ev in e['events']:
                if ev[0] == 'handler' and ev[1] == 'connect':
                    ev[5] = ev[5][:1]      # drop the environ label
                if ev[0] == 'send':
                    ev[1] = 'TP'
        s = json.dumps(tr, sort_keys=True, default=repr)
        import re
        names = {}
        for mobj in re.finditer(r'"S(\d+)"', s):
            names.setdefault(mobj.group(0), '"P%d"' % (len(names) + 1))
        for k, v in sorted(names.items(), key=lambda kv: -len(kv[0])):
            s = s.replace(k, v)
        del ev0
        r.d.clear_errors()
        return s

    def forget_harness_refs(self):
        r = self.r
        for t in list(r.T.values()):
            if not t.alive:
                pass
        r.T = {k: t for k, t in r.T.items() if t.alive}
        r.d.transports = [t for t in r.d.transports if t.alive]

    def run(self):
        ctx, rng = self.ctx, self.rng
        self.r = self.new_runner()
        r = self.r
        self._hint = None
        # warm-up generation and baseline
        self.nT += 1
        ops, nss, end = mk_history(rng, self.nT, self.served)
        self.run_generation([['open', self.nT], ['connect', self.nT,
                                                  self.served[0], None],
                             ['lose', self.nT]], None, [])
        self.nT += 1
        base_probe = self.probe(self.nT)
        self.forget_harness_refs()
        base_api = self.api_snapshot()
        base_size, base_types = G.measure(r.sio, extra_skip=(r, r.d), with_module_state=True)
        # the history under test, dry run on a scratch server to count
        # handler invocations
        scratch = S.Runner(self.cfg)
        keep = self.r
        self.r = scratch
        self.nT += 1
        hist_T = self.nT
        ops, nss, end = mk_history(rng, hist_T, self.served,
                                   '/gen-%d' % hist_T if self.accept_all
                                   else None)
        st = rng.getstate()
        _, K, _ = self.run_generation(ops, None, [])
        rng.setstate(st)
        scratch.close()
        self.r = keep
        positions = [None] + list(range(K))
        if ctx.tier == 'quick' and len(positions) > 8:
            positions = [None] + sorted(rng.sample(range(K), 7))
        post_opts = [[], [], ['enter'], ['emit_cb', 'leave'],
                     ['sdisc', 'close_room', 'enter']]
        for fault in positions:
            self.nT += 1
            gops = json.loads(json.dumps(jsonable(ops)).replace(
                '%d' % hist_T, '%d' % self.nT)) if False else \
                renumber(ops, hist_T, self.nT)
            post = rng.choice(post_opts)
            st = rng.getstate()
            issued, fired, results = self.run_generation(gops, fault, post)
            rng.setstate(st)
            rng.random()
            handler_kind = None
            if fault is not None:
                for res in results:
                    for e in res.get('events', []):
                        if e[0] == 'handler' and e[7] - (
                                self.r.invocations - fired) == fault:
                            handler_kind = e[1]
            self._hint = None
            if handler_kind == 'disconnect':
                self._hint = 'disconnect-handler-raise-skips-cleanup'
            elif 'enter' in post:
                self._hint = 'enter-room-stale-sid-leaves-phantom-room'
            elif any(o[0] == 'event_partial' for o in gops):
                self._hint = 'binary-buffer-not-dropped'
            extra = {'generation': gops, 'fault_at': fault,
                     'fault_handler_kind': handler_kind,
                     'post_end_ops': post, 'end': end}
            ctx.count('generations')
            if fault is not None:
                ctx.count('fault_positions')
                ctx.count('fault_in_%s_handler' % handler_kind)
            if self.residue(issued, 'after the transport ended', extra):
                return
            self.forget_harness_refs()
            # everyone is gone now (one client at a time): compare with the
            # baseline
            api = self.api_snapshot()
            if api != base_api:
                if self.fail('after the last client has gone the manager '
                             'listings differ from a fresh server: %r' % (
                                 {k: v for k, v in api.items()
                                  if v != base_api[k]},), extra,
                             self._hint):
                    return
                self.resync_known()
                base_api = self.api_snapshot()
                base_size, base_types = G.measure(r.sio, extra_skip=(r, r.d), with_module_state=True)
                continue
            size, types_ = G.measure(r.sio, extra_skip=(r, r.d), with_module_state=True)
            ctx.count('graph_size_comparisons')
            if size != base_size:
                extra['graph_growth'] = G.diff(base_types, types_)
                hint = self._hint
                m = r.sio.manager
                late = getattr(self, 'late_cb_sids', set())
                del late
                if self.pubsub and m.callbacks and not m.rooms and \
                        not m.pending_disconnect and not r.sio.environ:
                    # (no room left means no client left: every remaining
                    # callbacks entry belongs to an absent client)
                    # message-queue manager: the ack id of an emit with a
                    # callback is registered before it is known whether the
                    # addressed client exists anywhere in the cluster
                    hint = 'pubsub-callback-for-departed-client-never-freed'
                if self.fail('objects reachable from the server grew from '
                             '%d to %d after a client came and went: %r' % (
                                 base_size, size, extra['graph_growth']),
                             extra, hint):
                    return
                self.resync_known()
                base_api = self.api_snapshot()
                base_size, base_types = G.measure(r.sio, extra_skip=(r, r.d), with_module_state=True)
                continue
            ctx.case((self.kind, self.cfg['serializer'], end,
                      'nofault' if fault is None else handler_kind,
                      tuple(post), self.cfg['always_connect'],
                      self.cfg['async_handlers'],
                      tuple(sorted({o[0] for o in gops}))),
                     {'generation': gops, 'fault_at': fault, 'post': post}
                     if fault is not None and rng.random() < 0.05 else None)
        # probe client: the server behaves like it did after the warm-up
        self.nT += 1
        pr = self.probe(self.nT)
        ctx.count('probe_traces_compared')
        if pr != base_probe:
            self.fail('a probe client is served differently after the '
                      'history than on the fresh server',
                      {'fresh': base_probe[:3000], 'now': pr[:3000]})

    def resync_known(self):
        """After a *listed* finding: drop the residue by hand so that the
        remaining generations are judged against a clean baseline."""
        sio = self.r.sio
        m = sio.manager
        live = set(sio.eio.sockets)
        for ns in list(m.rooms):
            for room in list(m.rooms[ns]):
                for sid, eio_sid in list(m.rooms[ns][room].items()):
                    if eio_sid not in live:
                        del m.rooms[ns][room][sid]
                if not m.rooms[ns][room]:
                    del m.rooms[ns][room]
            if not m.rooms[ns]:
                del m.rooms[ns]
        m.pending_disconnect.clear()
        m.callbacks.clear()
        for k in list(sio.environ):
            if k not in live:
                del sio.environ[k]
        for k in list(sio._binary_packet):
            if k not in live:
                del sio._binary_packet[k]

    def close(self):
        if self.r:
            self.r.close()


def refusal_race(ctx, k):
    """The transport ends while the application's connect handler is still
    running (suspended / blocked); the handler then accepts, returns False or
    raises ConnectionRefusedError.  Whatever the order, once everything has
    finished the server holds nothing of that client."""
    import asyncio
    import threading
    from engineio import packet as eio_packet
    from vlib import drive as D
    from vlib import refcodec as RR
    rng = ctx.case_rng(9 * 10 ** 7 + k)
    kind = 'sync' if k % 2 == 0 else 'async'
    always = rng.random() < 0.6
    outcome = rng.choice(['false', 'refuse', 'accept'])
    others = rng.random() < 0.4     # another client in the namespace
    w = {'part': 'refusal_race', 'case_index': k, 'kind': kind,
         'always_connect': always, 'handler_outcome': outcome,
         'another_client_present': others}
    import socketio
    state = {'armed': False}
    if kind == 'async':
        d = D.AsyncDrive(always_connect=always)
        entered, release = None, None

        async def on_connect(sid, environ, auth=None):
            if state['armed']:
                state['entered'].set()
                await state['release'].wait()
                if outcome == 'false':
                    return False
                if outcome == 'refuse':
                    raise socketio.exceptions.ConnectionRefusedError('no')
        d.sio.on('connect', on_connect, namespace='/')
        d.sio.on('disconnect', lambda sid, reason: None, namespace='/')
        del entered, release
    else:
        d = D.SyncDrive(always_connect=always)
        state['entered'] = threading.Event()
        state['release'] = threading.Event()

        def on_connect(sid, environ, auth=None):
            if state['armed']:
                state['entered'].set()
                state['release'].wait(10)
                if outcome == 'false':
                    return False
                if outcome == 'refuse':
                    raise socketio.exceptions.ConnectionRefusedError('no')
        d.sio.on('connect', on_connect, namespace='/')
        d.sio.on('disconnect', lambda sid, reason: None, namespace='/')
    try:
        # warm-up generation and baseline
        t0 = d.open()
        t0.connect('/')
        t0.lose()
        keep = None
        if others:
            keep = d.open()
            keep.connect('/')
        d.transports = [t for t in d.transports if t.alive]
        d.clear_errors()
        base = G.measure(d.sio, extra_skip=(d,), with_module_state=True)
        t = d.open()
        frame = RR.encode(RR.CONNECT, '/', None, None)[0]
        state['armed'] = True
        if kind == 'async':
            async def go():
                state['entered'] = asyncio.Event()
                state['release'] = asyncio.Event()
                task = asyncio.ensure_future(t.socket.receive(
                    eio_packet.Packet(eio_packet.MESSAGE, frame)))
                await state['entered'].wait()
                await t.socket.close(wait=False, abort=True,
                                     reason=d.eio.reason.TRANSPORT_ERROR)
                state['release'].set()
                await task
            d.run(go())
        else:
            d.autojoin = False
            th = threading.Thread(target=lambda: t.socket.receive(
                eio_packet.Packet(eio_packet.MESSAGE, frame)), daemon=True)
            th.start()
            if not state['entered'].wait(10):
                raise core_bug('connect handler was not reached')
            t.socket.close(wait=False, abort=True,
                           reason=d.eio.reason.TRANSPORT_ERROR)
            state['release'].set()
            th.join(10)
            d.join()
        state['armed'] = False
        d._reap(t)
        d.transports = [x for x in d.transports if x.alive]
        d.clear_errors()
        ctx.count('refusal_races')
        m = d.sio.manager
        size = G.measure(d.sio, extra_skip=(d,), with_module_state=True)
        w['internals'] = jsonable({
            'rooms': {str(ns): {str(room): sorted(b.keys())
                                for room, b in rooms.items()}
                      for ns, rooms in m.rooms.items()},
            'pending_disconnect': {str(kk): list(v) for kk, v in
                                   m.pending_disconnect.items()},
            'environ_keys': len(d.sio.environ)})
        if outcome == 'accept' and not always:
            pass
        if size[0] != base[0]:
            w['graph_growth'] = G.diff(base[1], size[1])
            # an accepted connection whose transport ended while its connect
            # handler was running is the (listed) teardown race of C04/C20
            ctx.violation(
                'session-accepted-during-transport-teardown'
                if outcome == 'accept' else None,
                'the transport ended while the connect handler was running '
                '(handler outcome: %s, always_connect=%s): objects reachable '
                'from the server grew from %d to %d: %r' % (
                    outcome, always, base[0], size[0], w['graph_growth']), w)
            return
        ctx.case(('refusal_race', kind, always, outcome, others), w)
    finally:
        state['armed'] = False
        try:
            if kind == 'sync':
                state['release'].set()
        except Exception:
            pass
        d.close()


def late_work_race(ctx, k):
    """Work for a client that is queued or arrives while its transport is
    being torn down: (a) a frame of that transport (the header of a binary
    event) delivered while one of its disconnect handlers is still running -
    engine.io keeps delivering for a socket that is closing; (b) asyncio: an
    emit with a callback to the client issued while the loss of its transport
    is already queued in the loop.  Once everything has finished the server
    holds nothing of the client (no half-received packet, no callback)."""
    import asyncio
    import threading
    from engineio import packet as eio_packet
    from vlib import drive as D
    from vlib import refcodec as RR
    rng = ctx.case_rng(10 * 10 ** 7 + k)
    kind = 'sync' if k % 2 == 0 else 'async'
    variant = 'frame_during_teardown' if kind == 'sync' or \
        rng.random() < 0.5 else 'emit_callback_vs_queued_loss'
    if rng.random() < 0.35:
        # one polling POST may carry an engine.io CLOSE followed by further
        # packets: engine.io dispatches them although the transport has
        # just ended
        variant = 'frames_after_close_in_one_payload'
    w = {'part': 'late_work_race', 'case_index': k, 'kind': kind,
         'variant': variant}
    state = {'armed': False}
    header = RR.encode(RR.EVENT, '/', None, ['ev', b'a', b'b'])[0]
    if kind == 'async':
        d = D.AsyncDrive()

        async def on_disconnect(sid, reason):
            if state['armed'] and variant == 'frame_during_teardown':
                state['entered'].set()
                await state['release'].wait()
    else:
        d = D.SyncDrive()
        state['entered'] = threading.Event()
        state['release'] = threading.Event()

        def on_disconnect(sid, reason):
            if state['armed']:
                state['entered'].set()
                state['release'].wait(10)
    d.sio.on('connect', lambda sid, environ, auth=None: None, namespace='/')
    d.sio.on('disconnect', on_disconnect, namespace='/')
    d.sio.on('ev', lambda sid, *a: None, namespace='/')
    try:
        t0 = d.open()
        t0.connect('/')
        t0.lose()
        d.transports = [t for t in d.transports if t.alive]
        d.clear_errors()
        base = G.measure(d.sio, extra_skip=(d,), with_module_state=True)
        t = d.open()
        t.connect('/')
        sid = t.sids['/']
        state['armed'] = True
        if variant == 'frames_after_close_in_one_payload':
            later = rng.sample([header, RR.encode(RR.CONNECT, '/', None,
                                                  None)[0],
                                RR.encode(RR.CONNECT, '/a', None, None)[0],
                                RR.encode(RR.EVENT, '/', 3, ['ev', 1])[0]],
                               rng.randint(1, 3))
            w['frames_after_close'] = later
            if kind == 'async':
                async def go():
                    await t.socket.receive(eio_packet.Packet(
                        eio_packet.CLOSE))
                    for f in later:
                        await t.socket.receive(eio_packet.Packet(
                            eio_packet.MESSAGE, f))
                d.run(go())
            else:
                t.socket.receive(eio_packet.Packet(eio_packet.CLOSE))
                for f in later:
                    t.socket.receive(eio_packet.Packet(eio_packet.MESSAGE,
                                                       f))
                d.join()
        elif kind == 'async' and variant == 'frame_during_teardown':
            async def go():
                state['entered'] = asyncio.Event()
                state['release'] = asyncio.Event()
                task = asyncio.ensure_future(t.socket.close(
                    wait=False, abort=True,
                    reason=d.eio.reason.TRANSPORT_ERROR))
                await state['entered'].wait()
                await t.socket.receive(eio_packet.Packet(
                    eio_packet.MESSAGE, header))
                state['release'].set()
                await task
            d.run(go())
        elif kind == 'async':
            n_yield = rng.choice([0, 0, 1, 2])

            async def go():
                task = asyncio.ensure_future(t.socket.close(
                    wait=False, abort=True,
                    reason=d.eio.reason.TRANSPORT_ERROR))
                for _ in range(n_yield):
                    await asyncio.sleep(0)
                try:
                    await d.sio.emit('x', 1, to=sid, namespace='/',
                                     callback=lambda *a: None)
                except Exception as e:
                    w['emit_raised'] = repr(e)
                await task
            w['yields_before_emit'] = n_yield
            d.run(go())
        else:
            d.autojoin = False
            th = threading.Thread(target=lambda: t.socket.close(
                wait=False, abort=True,
                reason=d.eio.reason.TRANSPORT_ERROR), daemon=True)
            th.start()
            if not state['entered'].wait(10):
                raise core_bug('disconnect handler was not reached')
            t.socket.receive(eio_packet.Packet(eio_packet.MESSAGE, header))
            state['release'].set()
            th.join(10)
            d.join()
        state['armed'] = False
        d._reap(t)
        d.transports = [x for x in d.transports if x.alive]
        d.clear_errors()
        ctx.count('late_work_races')
        m = d.sio.manager
        size = G.measure(d.sio, extra_skip=(d,), with_module_state=True)
        w['internals'] = jsonable({
            'callbacks': {str(kk): len(v) for kk, v in m.callbacks.items()},
            'binary_packet_keys': len(d.sio._binary_packet),
            'environ_keys': len(d.sio.environ),
            'rooms': {str(ns): {str(room): sorted(b.keys())
                                for room, b in rooms.items()}
                      for ns, rooms in m.rooms.items()}})
        if size[0] != base[0]:
            w['graph_growth'] = G.diff(base[1], size[1])
            key = None
            if variant == 'frames_after_close_in_one_payload' and \
                    header in w.get('frames_after_close', []) and \
                    w['internals']['binary_packet_keys'] == 1 and \
                    not w['internals']['callbacks'] and \
                    not w['internals']['rooms'] and \
                    not w['internals']['environ_keys']:
                # the known mechanism: only the half-received packet stays
                key = 'partial-packet-stored-after-transport-ended'
            ctx.violation(key, '%s: after the client has gone the objects '
                          'reachable from the server grew from %d to %d '
                          '(callbacks %r, half-received packets %d)' % (
                              variant.replace('_', ' '), base[0], size[0],
                              w['internals']['callbacks'],
                              w['internals']['binary_packet_keys']), w)
            return
        ctx.case(('late_work_race', kind, variant,
                  w.get('yields_before_emit')), w)
    finally:
        state['armed'] = False
        try:
            if kind == 'sync':
                state['release'].set()
        except Exception:
            pass
        d.close()


def late_ops_with_bystander(ctx, k):
    """Another client stays connected to the namespace (so the namespace and
    its rooms stay alive) while a client comes, joins rooms and goes; the
    application - a handler or job that was still running - then uses the
    departed client's session id once more (enter_room, leave_room, emit with
    a callback, close_room, disconnect; they may raise).  The departed client
    leaves nothing behind: no room lists it and the object graph is back at
    the size it had before it came."""
    from vlib import drive as D
    rng = ctx.case_rng(14 * 10 ** 7 + k)
    kind = 'sync' if k % 2 == 0 else 'async'
    ns = rng.choice(['/', '/a'])
    end = rng.choice(['cdisc', 'sdisc', 'lose'])
    late = rng.sample(['enter', 'enter_existing', 'leave', 'emit_cb',
                       'close_room', 'sdisc'], rng.randint(1, 4))
    d = D.make_drive(kind, async_handlers=False, namespaces=['/', '/a'])
    d.sio.on('connect', lambda sid, environ, auth=None: None, namespace=ns)
    d.sio.on('disconnect', lambda sid, reason: None, namespace=ns)
    w = {'part': 'late_ops_with_bystander', 'case_index': k, 'kind': kind,
         'namespace': ns, 'end': end, 'late_operations': late}
    try:
        b = d.open()
        b.connect(ns)
        bsid = b.sids[ns]
        d.api('enter_room', bsid, 'lobby', namespace=ns)
        # warm-up client
        t0 = d.open()
        t0.connect(ns)
        d.api('enter_room', t0.sids[ns], 'lobby', namespace=ns)
        t0.lose()
        b.drain()
        b.packets[:] = []
        d.transports = [t for t in d.transports if t.alive]
        d.clear_errors()
        base = G.measure(d.sio, extra_skip=(d,), with_module_state=True)
        a = d.open()
        a.connect(ns)
        sid = a.sids[ns]
        d.api('enter_room', sid, 'lobby', namespace=ns)
        d.api('enter_room', sid, 'mine-%d' % k, namespace=ns)
        if end == 'cdisc':
            a.send_packet(R_DISCONNECT, ns)
        elif end == 'sdisc':
            d.api('disconnect', sid, namespace=ns)
        else:
            a.lose()
        raised = []
        for op in late:
            try:
                if op == 'enter':
                    d.api('enter_room', sid, 'late-%d' % k, namespace=ns)
                elif op == 'enter_existing':
                    d.api('enter_room', sid, 'lobby', namespace=ns)
                elif op == 'leave':
                    d.api('leave_room', sid, 'lobby', namespace=ns)
                elif op == 'emit_cb':
                    d.api('emit', 'late', {'x': 1}, to=sid, namespace=ns,
                          callback=lambda *x: None)
                elif op == 'close_room':
                    d.api('close_room', sid, namespace=ns)
                else:
                    d.api('disconnect', sid, namespace=ns)
            except Exception as e:
                raised.append([op, type(e).__name__])
        w['late_operations_raised'] = raised
        if a.alive:
            a.lose()
        b.drain()
        b.packets[:] = []
        d.transports = [t for t in d.transports if t.alive]
        d.clear_errors()
        ctx.count('late_ops_with_bystander')
        m = d.sio.manager
        listed = sorted(str(room) for room, members in
                        m.rooms.get(ns, {}).items() if sid in members)
        rooms_api = list(d.api('rooms', sid, namespace=ns))
        w['internals'] = jsonable({
            'rooms': {str(room): sorted(members.keys()) for room, members
                      in m.rooms.get(ns, {}).items()},
            'callbacks': {str(kk): len(v) for kk, v in m.callbacks.items()}})
        if listed or rooms_api:
            ctx.violation(None, 'a client that has gone (%s) is listed in '
                          'rooms %r after the application used its session '
                          'id once more (%s) while another client kept the '
                          'namespace alive' % (end, listed or rooms_api,
                                               ', '.join(late)), w)
            return
        size = G.measure(d.sio, extra_skip=(d,), with_module_state=True)
        if size[0] != base[0]:
            w['graph_growth'] = G.diff(base[1], size[1])
            ctx.violation(None, 'after a client came and went (%s; late '
                          'operations: %s) with another client in the '
                          'namespace the objects reachable from the server '
                          'grew from %d to %d: %r' % (
                              end, ', '.join(late), base[0], size[0],
                              w['graph_growth']), w)
            return
        ctx.case(('late_ops_with_bystander', kind, ns, end,
                  tuple(sorted(late))), None)
    finally:
        d.close()


R_DISCONNECT = 1


def core_bug(msg):
    from vlib import core
    return core.CheckBug(msg)


def renumber(ops, old, new):
    def f(x):
        if isinstance(x, list):
            return [f(i) for i in x]
        if x == old and isinstance(x, int) and not isinstance(x, bool):
            return new
        if isinstance(x, str) and x == 'gen%d' % old:
            return 'gen%d' % new
        if isinstance(x, str) and x == '/gen-%d' % old:
            return '/gen-%d' % new
        return x
    out = []
    for op in ops:
        o = list(op)
        if o[0] in ('open', 'connect', 'event', 'event_partial', 'raw', 'ack',
                    'cdisc', 'lose', 'cclose'):
            o[1] = new
            o = [o[0], new] + [f2(v, old, new) for v in o[2:]]
        else:
            o = [o[0]] + [f2(v, old, new) for v in o[1:]]
        out.append(o)
    return out


def f2(v, old, new):
    if isinstance(v, list) and len(v) >= 3 and v[0] == 'sid' and v[1] == old:
        return ['sid', new] + list(v[2:])
    if isinstance(v, str) and v == 'gen%d' % old:
        return 'gen%d' % new
    return v


def run_case(ctx, k):
    if k % 5 == 3:
        refusal_race(ctx, k)
    if k % 5 == 1:
        late_work_race(ctx, k + (k // 5) % 2)
    if k % 5 == 2:
        late_ops_with_bystander(ctx, k + (k // 5) % 2)
    rng = ctx.case_rng(k)
    c = Case(ctx, rng, 'sync' if k % 2 == 0 else 'async', k)
    try:
        c.run()
    finally:
        c.close()


def run(ctx):
    ctx.rule = ('client generations (connects to several namespaces incl. '
                'refused/unserved, room changes, events, emits with '
                'callbacks left unanswered, partial binary packets, '
                'malformed frames, sessions) ended by every cause; for a '
                'history with K handler invocations every single fault '
                'position (quick: up to 7 sampled) + the fault-free run; '
                'optional application operations on the departed sid after '
                'the end; verdict = API-level residue, manager listings and '
                'GraphSize equal to the post-warm-up baseline, probe trace '
                'equal; distinct = (server kind, serializer, end cause, '
                'faulted handler kind, post-end ops, options, op kinds)')
    ctx.assumptions = [
        'engine.io sockets that are closed are removed by the harness the '
        'way engineio.Server.handle_request does',
        'GraphSize skips types, modules, functions and loggers',
        'one client at a time on the persistent server, so "the last client '
        'has gone" holds after every generation']
    ctx.require('generations', 50)
    ctx.require('fault_positions', 30)
    ctx.require('refusal_races', 10)
    ctx.require('late_work_races', 10)
    ctx.require('late_ops_with_bystander', 10)
    ctx.require('residue_checks', 50)
    ctx.require('graph_size_comparisons', 40)
    ctx.require('probe_traces_compared', 5)
    ctx.require('fault_in_disconnect_handler', 3)
    ctx.require('fault_in_connect_handler', 3)
    ctx.require('fault_in_event_handler', 3)
    ctx.require('cases_with_cancelled_disconnect_handlers', 3)
    ctx.require('cases_with_a_fresh_namespace_per_generation', 3)
    # threaded server: one client ended by two or three parties at the same
    # time (the controlled scheduler and scenarios of C20): once they have
    # all finished, the server is back at its baseline
    ctx.require('concurrent_end_schedules', 50)
    concurrent_ends(ctx, (ctx.budget or 45) * 0.15)
    # threaded server: an emit with a callback in one thread while another
    # handles the recipient's departure (statement-level schedules)
    ctx.require('emit_callback_race_schedules', 50)
    from checks import c11_sched
    c11_sched.run_part(ctx, (ctx.budget or 45) * 0.12)
    k = 0
    while not ctx.out_of_time() and not ctx.too_many_violations():
        run_case(ctx, k)
        ctx.count('histories')
        k += 1


def concurrent_ends(ctx, share):
    import itertools
    import time
    from checks import c20
    t0 = time.time()
    base = c20.baseline_size()
    pairs = [list(p) for p in itertools.combinations(c20.CAUSES, 2)]
    n0 = ctx.counters.get('schedules_run', 0)
    limit = 40 if ctx.tier == 'quick' else 2000
    for i, causes in enumerate(pairs):
        if ctx.nshards > 1 and i % ctx.nshards != ctx.shard % len(pairs):
            continue
        if time.time() - t0 > share * 0.7 or ctx.too_many_violations():
            break
        # (at most one pre-emption, then at most two: the atomicity windows)
        c20.explore_dfs(ctx, causes, 1, base, limit * 5)
        c20.explore_dfs(ctx, causes, 2, base, limit, bystander=False)
    k = ctx.shard * 10 ** 6
    triples = [list(t) for t in itertools.combinations(c20.CAUSES, 3)]
    while time.time() - t0 < share and not ctx.too_many_violations():
        rng = ctx.case_rng(11 * 10 ** 7 + k)
        c20.run_schedule(ctx, list(rng.choice(pairs + triples)), [], rng,
                         None, False, base)
        k += 1
    ctx.count('concurrent_end_schedules',
              ctx.counters.get('schedules_run', 0) - n0)
    # a client is removed while other clients change the room table of its
    # namespace (statement-level schedules of C03's scheduler part): nothing
    # raises and the departed client is in no room
    from checks import c03_sched
    for racers in (['sdisc', 'enter_new'], ['lose', 'leave_last'],
                   ['sdisc', 'connect_new']):
        if ctx.too_many_violations():
            break
        c03_sched.explore_self(ctx, racers,
                               150 if ctx.tier == 'quick' else 5000,
                               bound=1, lines=True)


def replay(ctx, w):
    if w['witness'].get('part') == 'emit_callback_race':
        from checks import c11_sched
        return c11_sched.replay(ctx, w)
    if w['witness'].get('part') == 'self_race':
        from checks import c03_sched
        return c03_sched.replay(ctx, w)
    if 'causes' in w['witness'] and 'choices' in w['witness']:
        from checks import c20
        wi = w['witness']
        return c20.run_schedule(ctx, wi['causes'], wi['choices'], None, None,
                                False, c20.baseline_size(),
                                wi.get('partial_binary_packet', False),
                                wi.get('bystander', True))
    if w['witness'].get('part') == 'late_ops_with_bystander':
        return late_ops_with_bystander(ctx, w['witness']['case_index'])
    if w['witness'].get('part') == 'late_work_race':
        return late_work_race(ctx, w['witness']['case_index'])
    if w['witness'].get('part') == 'refusal_race':
        return refusal_race(ctx, w['witness']['case_index'])
    run_case(ctx, w['witness']['case_index'])
