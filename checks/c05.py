"""C05 Incoming events: one handler invocation, one matching ACK to the sender
only.  Token-matched handler/ACK accounting over generated histories with
colliding ids, binary events, several handler styles; both servers.
"""
from vlib import core
from vlib import gen
from vlib import refcodec as R
from vlib import scenario as S

LEVEL = 'exploration'
TIERS = {
    'quick': {'budget': 30, 'watchdog': 300, 'shards': 1},
    'thorough': {'budget': 400, 'watchdog': 900, 'shards': 16},
}
NAMESPACES = ['/', '/a', '/b']
IDS = [None, None, 0, 0, 1, 1, 2, 7, 10, 10**20, 10**99]


def classify_frames(w):
    if w.get('class') == 'interleaved':
        return 'concurrent-multi-frame-sends-interleave'
    return None


def classify(w):
    k = classify_frames(w)
    if k:
        return k
    if w.get('class') == 'zero_attachment_binary':
        return 'zero-attachment-binary-never-dispatched'
    return None


def gen_return(rng):
    r = rng.random()
    if r < 0.15:
        return None
    if r < 0.3:
        return rng.choice([0, '', False, [], {}, 0.0, True, 'ok', 42])
    if r < 0.45:
        return tuple(gen.gen_args(rng, True, 2, maxn=3))
    if r < 0.55:
        return gen.gen_bytes(rng)
    if r < 0.6:
        return ()
    return gen.gen_tree(rng, 3, [10], True)


def responsible(cfg, ns, event):
    style = cfg['style'].get(ns, 'none')
    if style == 'func' and event in cfg['handled_events']:
        return 'func'
    if style == 'catchall':
        return 'catchall'
    if event in (cfg.get('global_events') or []):
        return 'global'
    if cfg['global_catchall']:
        return 'global*'
    if style == 'class':
        return 'class' if event in S.CLASS_EVENTS else 'class-nomethod'
    return None


class History:
    def __init__(self, ctx, rng, kind, index):
        self.ctx, self.rng, self.kind, self.index = ctx, rng, kind, index
        served = NAMESPACES[:rng.choice([1, 2, 3])]
        style = {ns: rng.choice(['func', 'func', 'catchall', 'class', 'none'])
                 for ns in served}
        self.cfg = S.default_config(
            kind=kind, served=served, style=style,
            serializer=rng.choice(['default', 'default', 'msgpack']),
            async_handlers=rng.random() < 0.5,
            global_catchall=rng.random() < 0.3,
            # a function handler under the '*' namespace for one event only
            # (it must not disturb the routing of the others)
            global_events=['ev_g'] if rng.random() < 0.4 else [],
            namespaces_opt=rng.choice(['*', served]),
            coroutines=rng.random() < 0.7, returns={}, delays={})
        self.r = S.Runner(self.cfg)
        self.conn = {}     # (T, ns) -> sid
        self.nT = 0
        self.open_T = []
        self.tok = 0
        self.ops = []
        self.failed = False
        self.poisoned = set()   # transports whose stream we broke ourselves

    def witness(self, res, extra=None):
        w = {'case_index': self.index, 'kind': self.kind,
             'config': {k: self.cfg[k] for k in (
                 'serializer', 'served', 'style', 'async_handlers',
                 'global_catchall', 'global_events', 'namespaces_opt',
                 'coroutines')},
             'history': self.ops[-25:], 'failing_op': res['op'],
             'sent': {str(k): v for k, v in res.get('sent', {}).items()},
             'events': res.get('events'), 'exc': res.get('exc'),
             'errors': res.get('errors')}
        if extra:
            w.update(extra)
        return w

    def fail(self, what, res, extra=None, cls=None):
        self.failed = True
        w = self.witness(res, extra)
        if cls:
            w['class'] = cls
        self.ctx.violation(classify(w), what, w)

    def new_event(self, T=None, ns=None):
        rng = self.rng
        self.tok += 1
        tok = self.tok
        T = T or rng.choice(self.open_T)
        if ns is None:
            ns = rng.choice(self.cfg['served']) if rng.random() < 0.9 else \
                rng.choice(NAMESPACES + ['/nope'])
        ev = rng.choice(S.EVENT_POOL)
        if rng.random() < 0.04:
            # an event literally named like the catch-all key
            ev = '*'
            self.ctx.count('events_literally_named_star')
        args = [tok] + gen.gen_args(rng, True, 3, maxn=3)
        pid = rng.choice(IDS)
        if self.cfg['serializer'] == 'msgpack' and pid is not None and \
                pid >= 2**63:
            pid = 2**63 - 1
        ret = gen_return(rng)
        self.cfg['returns'][tok] = ret
        return {'T': T, 'ns': ns, 'ev': ev, 'args': args, 'id': pid,
                'ret': ret, 'tok': tok}

    def frames_of(self, e):
        if self.cfg['serializer'] == 'msgpack':
            return [R.msgpack_encode(R.EVENT, e['ns'], e['id'],
                                     [e['ev']] + e['args'])]
        text, atts = R.encode(R.EVENT, e['ns'], e['id'],
                              [e['ev']] + e['args'])
        return [text] + atts

    # ------------------------------------------------------------ judge
    def judge_events(self, res, evs, ordered_by_client=False):
        """evs: the events fed in this op, in feed-completion order."""
        ctx = self.ctx
        hcalls = [e for e in res.get('events', []) if e[0] == 'handler']
        if res.get('decode_errors'):
            cls = None
            if self.kind == 'sync' and self.cfg['async_handlers'] and \
                    res['op'][0] == 'burst' and \
                    self.cfg['serializer'] == 'default':
                # handler threads of one client answering at the same time
                # with binary ACKs (several frames each)
                cls = 'interleaved'
            return self.fail('server sent an undecodable frame', res,
                             {'decode_errors': res['decode_errors'][:3]},
                             cls)
        if res.get('exc'):
            return self.fail('feeding a valid event raised %s' % res['exc'],
                             res)
        if res.get('errors'):
            return self.fail('exception escaped while handling a valid '
                             'event: %s' % res['errors'][0]['exc'], res)
        sent = {T: list(p) for T, p in res.get('sent', {}).items()}
        used = set()
        for e in evs:
            key = (e['T'], e['ns'])
            sid = self.conn.get(key)
            who = responsible(self.cfg, e['ns'], e['ev']) if sid else None
            mine = [h for h in hcalls if h[1] == 'event' and h[5] and
                    h[5][0] == e['tok']]
            for h in mine:
                used.add(h[7])
            want_calls = 1 if who in ('func', 'catchall', 'global*',
                                      'global', 'class') else 0
            ctx.count('events_judged')
            if len(mine) != want_calls:
                return self.fail(
                    'event %d: %d handler invocations, expected %d (%s)' % (
                        e['tok'], len(mine), want_calls, who), res,
                    {'event': e})
            if mine:
                h = mine[0]
                via = 'class' if who == 'class' else who
                if h[2] != e['ns'] or h[3] != e['ev'] or h[4] != sid or \
                        not R.deep_eq(h[5], e['args']) or h[6] != via:
                    return self.fail(
                        'event %d: handler saw (ns=%r, event=%r, sid=%r, '
                        'via=%r), expected (%r, %r, %r, %r) / args differ'
                        % (e['tok'], h[2], h[3], h[4], h[6], e['ns'],
                           e['ev'], sid, via), res, {'event': e})
                ctx.count('handler_invocations_checked')
            # ACK accounting
            want_ack = e['id'] is not None and who is not None
            acks = [p for p in sent.get(e['T'], [])
                    if not p.get('_used') and
                    p['type'] in (R.ACK, R.BINARY_ACK) and
                    p['id'] == e['id'] and p['nsp'] == e['ns']]
            if want_ack:
                if not acks:
                    return self.fail('event %d (id %r): no ACK sent to the '
                                     'sender' % (e['tok'], e['id']), res,
                                     {'event': e})
                ret = e['ret'] if who != 'class-nomethod' else None
                want_data = gen.expected_args(ret)
                want_type = R.BINARY_ACK if (
                    R.has_bytes(want_data) and
                    self.cfg['serializer'] == 'default') else R.ACK
                # with colliding ids several candidates may exist: take the
                # one that matches this event's return value
                good = [p for p in acks if p['type'] == want_type and
                        R.deep_eq(p['data'], want_data)]
                if not good:
                    p = acks[0]
                    return self.fail(
                        'event %d: ACK carries %r (type %d), expected %r '
                        '(type %d)' % (e['tok'], p['data'], p['type'],
                                       want_data, want_type), res,
                        {'event': e})
                good[0]['_used'] = True
                ctx.count('acks_checked')
                sigret = gen.shape(e['ret'])
            else:
                sigret = '-'
            ctx.case((self.kind, self.cfg['serializer'],
                      self.cfg['async_handlers'], who,
                      'N' if e['id'] is None else min(len(str(e['id'])), 3),
                      R.has_bytes(e['args']), sigret, bool(sid)),
                     {'event': e, 'responsible': who,
                      'connected': bool(sid), 'kind': self.kind}
                     if sid and e['id'] is not None else None)
        # nothing else may have been sent or invoked
        for T, pkts in sent.items():
            for p in pkts:
                if not p.get('_used'):
                    return self.fail('unexpected packet sent to transport '
                                     '%s: %r' % (T, p), res)
        stray = [h for h in hcalls if h[7] not in used]
        if stray:
            return self.fail('unexpected handler invocation %r' % (stray[0],),
                             res)
        if ordered_by_client and not self.cfg['async_handlers']:
            # per client, handler order == arrival order
            for T in {e['T'] for e in evs}:
                want = [e['tok'] for e in evs if e['T'] == T and any(
                    h[5][0] == e['tok'] for h in hcalls if h[1] == 'event')]
                got = [h[5][0] for h in hcalls if h[1] == 'event' and
                       h[5][0] in want]
                ctx.count('order_checks')
                if got != want:
                    return self.fail('events of one client handled out of '
                                     'arrival order: %r vs %r' % (got, want),
                                     res)
                # strictly: no handler of this client starts before the
                # previous one (and its ACK) completed
                mine = {h[7]: h[5][0] for h in hcalls if h[1] == 'event' and
                        h[5][0] in want}
                running = None
                for ev in res.get('events', []):
                    if ev[0] == 'handler' and ev[7] in mine:
                        if running is not None:
                            return self.fail(
                                'async_handlers=False: handler for event %r '
                                'started while the handler for event %r of '
                                'the same client was still running' % (
                                    mine[ev[7]], mine[running]), res)
                        if mine[ev[7]] in self.cfg['delays']:
                            running = ev[7]
                    elif ev[0] == 'handler_done' and ev[1] == running:
                        running = None
                acks = [p['id'] for p in res.get('sent', {}).get(T, [])
                        if p['type'] in (R.ACK, R.BINARY_ACK)]
                want_acks = [e['id'] for e in evs if e['T'] == T and
                             e['id'] is not None and
                             self.conn.get((T, e['ns'])) and
                             responsible(self.cfg, e['ns'], e['ev'])]
                if acks != want_acks:
                    return self.fail('ACKs of one client not in arrival '
                                     'order: %r vs %r' % (acks, want_acks),
                                     res)

    def step(self):
        rng = self.rng
        ctx = self.ctx
        r = rng.random()
        usable = [t for t in self.open_T if t not in self.poisoned]
        if not usable or r < 0.05:
            self.nT += 1
            self.open_T.append(self.nT)
            op = ['open', self.nT]
            self.ops.append(op)
            self.r.step(op)
            return
        if len(self.conn) < 2 or r < 0.15:
            T = rng.choice(usable)
            ns = rng.choice(self.cfg['served'])
            op = ['connect', T, ns, None]
            self.ops.append(op)
            res = self.r.step(op)
            acc = [p for p in res.get('sent', {}).get(T, [])
                   if p['type'] == R.CONNECT]
            if acc:
                self.conn[(T, ns)] = acc[0]['data']['sid']
            return
        if r < 0.19:
            keys = sorted(self.conn)
            T, ns = rng.choice(keys)
            if T in self.poisoned:
                return
            op = ['cdisc', T, ns] if rng.random() < 0.6 else \
                ['sdisc', self.conn[(T, ns)], ns]
            self.ops.append(op)
            self.r.step(op)
            del self.conn[(T, ns)]
            return
        if r < 0.21:
            T = rng.choice(usable)
            op = ['lose', T]
            self.ops.append(op)
            self.r.step(op)
            self.open_T.remove(T)
            for k in [k for k in self.conn if k[0] == T]:
                del self.conn[k]
            return
        if r < 0.27 and self.cfg['serializer'] == 'default':
            # zero-attachment binary event, as the library's own encoder
            # produces for Packet(..., binary=True)
            T = rng.choice(usable)
            e = self.new_event(T)
            e['args'] = [e['tok']] + [a for a in e['args'][1:]
                                      if not R.has_bytes(a)]
            text, _ = R.encode(R.EVENT, e['ns'], e['id'],
                               [e['ev']] + e['args'])
            frame = '50-' + text[1:]
            op = ['raw', T, frame]
            self.ops.append(op)
            res = self.r.step(op)
            ctx.count('zero_attachment_binary_events')
            self.judge_events(res, [e])
            if self.failed:
                # classify: was it the parked-packet mechanism?
                pass
            return
        if r < 0.45:
            # burst: several clients, frames interleaved between clients but
            # each client's attachments contiguous w.r.t. its own frames
            evs = [self.new_event(rng.choice(usable))
                   for _ in range(rng.choice([2, 3, 5, 8]))]
            for e in evs:
                # handlers pause (virtual time on asyncio) so that a
                # background dispatch would overlap / reorder
                self.cfg['delays'][e['tok']] = rng.choice(
                    [0, 1, 2, 3] if self.kind == 'async' else [0, 0, 1])
            queues = {}
            for e in evs:
                queues.setdefault(e['T'], []).append(
                    [(e, f) for f in self.frames_of(e)])
            items = []
            done_order = []
            pending = {T: [x for grp in q for x in grp]
                       for T, q in queues.items()}
            while pending:
                T = rng.choice(sorted(pending))
                e, f = pending[T].pop(0)
                items.append([T, f])
                if not pending[T] or pending[T][0][0] is not e:
                    done_order.append(e)
                if not pending[T]:
                    del pending[T]
            op = ['burst', items]
            self.ops.append(op)
            res = self.r.step(op)
            ctx.count('bursts')
            self.judge_events(res, done_order, ordered_by_client=True)
            return
        e = self.new_event(rng.choice(usable))
        op = ['event', e['T'], e['ns'], e['ev'], e['args'], e['id']]
        self.ops.append(op)
        res = self.r.step(op)
        self.judge_events(res, [e])

    def close(self):
        self.r.close()


def run_case(ctx, k):
    rng = ctx.case_rng(k)
    h = History(ctx, rng, 'sync' if k % 2 == 0 else 'async', k)
    try:
        for _ in range(rng.choice([15, 30, 60])):
            h.step()
            if h.failed:
                break
    finally:
        h.close()


def race_threaded(ctx, k):
    """Threaded server: an event arrives while its client's disconnect is in
    progress (the disconnect handler, running in another thread, is blocked):
    the client is no longer connected, so the event must be neither handled
    nor acknowledged; an event that arrives before the disconnect begins is
    handled and acknowledged normally."""
    import threading
    from engineio import packet as eio_packet
    from vlib import drive as D
    from vlib import refcodec as RR
    rng = ctx.case_rng(10 ** 7 + k)
    cause = rng.choice(['sdisc', 'cdisc'])
    async_handlers = rng.random() < 0.5
    ns = rng.choice(['/', '/a'])
    d = D.SyncDrive(async_handlers=async_handlers)
    entered, release = threading.Event(), threading.Event()
    log = []

    def disconnect(sid, reason):
        log.append(('disconnect', sid, reason))
        entered.set()
        release.wait(10)

    def ev(sid, tok):
        log.append(('event', sid, tok))
        return 'r%s' % tok
    d.sio.on('disconnect', disconnect, namespace=ns)
    d.sio.on('ev', ev, namespace=ns)
    t = d.open()
    t.connect(ns)
    sid = t.sids[ns]
    w = {'part': 'race_threaded', 'case_index': k, 'cause': cause,
         'async_handlers': async_handlers, 'namespace': ns}

    def feed(ptype, pid=None, data=None):
        text, atts = RR.encode(ptype, ns, pid, data)
        t.socket.receive(eio_packet.Packet(eio_packet.MESSAGE, text))
    d.autojoin = False
    try:
        feed(RR.EVENT, 11, ['ev', 1])
        d.join()
        if cause == 'sdisc':
            th = threading.Thread(target=lambda: d.sio.disconnect(
                sid, namespace=ns), daemon=True)
        else:
            th = threading.Thread(target=lambda: feed(RR.DISCONNECT),
                                  daemon=True)
        th.start()
        if not entered.wait(10):
            raise RuntimeError('disconnect handler was not reached')
        connected = d.sio.manager.is_connected(sid, ns)
        feed(RR.EVENT, 12, ['ev', 2])
        release.set()
        th.join(10)
        d.join()
    finally:
        release.set()
    t.drain()
    acks = {p['id']: p for p in t.packets if p['type'] == RR.ACK}
    inv = [x for x in log if x[0] == 'event']
    w.update(log=[list(x) for x in log], connected_at_feed=connected,
             acks=sorted(acks), errors=d.errors())
    ctx.count('racing_events_threaded')
    if d.errors():
        ctx.violation(None, 'event racing with a disconnect: exception '
                      'escaped (%s)' % d.errors()[0]['exc'], w)
    elif ('event', sid, 1) not in inv or 11 not in acks:
        ctx.violation(None, 'event sent before the disconnect was not '
                      'handled and acknowledged', w)
    elif not connected and (('event', sid, 2) in inv or 12 in acks):
        ctx.violation(None, 'event that arrived while its client\'s '
                      'disconnect was in progress (client not connected) '
                      'was %s' % ('handled' if ('event', sid, 2) in inv
                                  else 'acknowledged'), w)
    else:
        ctx.case(('race_threaded', cause, async_handlers, ns, connected),
                 {'part': 'race_threaded', 'cause': cause, 'log': w['log']})


def fault_recovery(ctx, k):
    """A handler raises for one event (text or binary, with or without id):
    that event is not acknowledged, and every following event of the same
    client (and of the others) is handled and acknowledged normally."""
    rng = ctx.case_rng(6 * 10 ** 7 + k)
    kind = 'sync' if k % 2 == 0 else 'async'
    style = rng.choice(['func', 'class', 'catchall'])
    cfg = S.default_config(
        kind=kind, served=['/'], style={'/': style},
        serializer=rng.choice(['default', 'default', 'msgpack']),
        async_handlers=rng.random() < 0.5, coroutines=rng.random() < 0.7,
        returns={2: 'r2', 3: {'b': b'xy'}, 4: None}, faults=[2])
    r = S.Runner(cfg)
    w = {'part': 'fault_recovery', 'case_index': k, 'kind': kind,
         'config': {kk: cfg[kk] for kk in ('style', 'serializer',
                                           'async_handlers', 'coroutines')}}
    try:
        r.step(['open', 1])
        r.step(['connect', 1, '/', None])     # handler invocation 0
        r.step(['open', 2])
        r.step(['connect', 2, '/', None])     # handler invocation 1
        bad_args = rng.choice([[1, b'blob', {'k': [b'']}], [1, 'text'],
                               [1, b'only']])
        res1 = r.step(['event', 1, '/', 'ev0', bad_args,
                       rng.choice([None, 5])])   # invocation 2 raises
        res2 = r.step(['event', 1, '/', 'ev1', [2, 'after'], 6])
        res3 = r.step(['event', 1, '/', 'ev2', [3, b'bin', [b'x']], 7])
        res4 = r.step(['event', 2, '/', 'ev0', [4, b'other'], 8])
        ctx.count('handler_fault_recoveries')
        inv1 = [e for e in res1['events'] if e[0] == 'handler' and
                e[1] == 'event']
        acks1 = [p for p in res1['sent'].get(1, [])
                 if p['type'] in (R.ACK, R.BINARY_ACK)]
        if len(inv1) != 1 or acks1:
            ctx.violation(None, 'event whose handler raises: %d invocations, '
                          '%d ACKs' % (len(inv1), len(acks1)),
                          dict(w, result=res1.get('sent')))
            return
        for res, T, tok, pid, ret in ((res2, 1, 2, 6, 'r2'),
                                      (res3, 1, 3, 7, {'b': b'xy'}),
                                      (res4, 2, 4, 8, None)):
            inv = [e for e in res['events'] if e[0] == 'handler' and
                   e[1] == 'event' and e[5] and e[5][0] == tok]
            acks = [p for p in res['sent'].get(T, [])
                    if p['type'] in (R.ACK, R.BINARY_ACK) and p['id'] == pid]
            want = gen.expected_args(ret)
            if len(inv) != 1 or len(acks) != 1 or \
                    not R.deep_eq(acks[0]['data'], want) or \
                    res.get('errors'):
                ctx.violation(
                    None, 'after a handler of this server raised for an '
                    'earlier %s event, event %d of transport %d: %d '
                    'invocations, ACKs %r, errors %r' % (
                        'binary' if R.has_bytes(bad_args) else 'text', tok,
                        T, len(inv), [[p['type'], p['id'], p['data']]
                                      for p in acks],
                        [e.get('exc') for e in res.get('errors') or []]),
                    dict(w, faulting_args=bad_args))
                return
        ctx.case(('fault_recovery', kind, style, cfg['serializer'],
                  cfg['async_handlers'], R.has_bytes(bad_args)),
                 dict(w, faulting_args=bad_args))
    finally:
        r.close()


def self_disconnect(ctx, k):
    """The handler of an event that carries an ack id disconnects its own
    client from the namespace (sio.disconnect(sid)) and then returns a value:
    the handler was responsible for the event, so exactly one ACK with that id
    is still sent to that client (its transport is open)."""
    import asyncio
    from vlib import drive as D
    rng = ctx.case_rng(11 * 10 ** 7 + k)
    kind = 'sync' if k % 2 == 0 else 'async'
    async_handlers = rng.random() < 0.5
    ns = rng.choice(['/', '/a'])
    ret = rng.choice(['bye', 0, {'b': b'x'}, ('a', 1)])
    d = D.make_drive(kind, async_handlers=async_handlers)
    log = []
    if kind == 'async':
        async def ev(sid, tok):
            log.append(('event', sid, tok))
            await d.sio.disconnect(sid, namespace=ns)
            return ret
        d.sio.on('ev', ev, namespace=ns)
        d.sio.on('disconnect', lambda sid, reason: log.append(
            ('disconnect', sid, reason)), namespace=ns)
    else:
        def ev(sid, tok):
            log.append(('event', sid, tok))
            d.sio.disconnect(sid, namespace=ns)
            return ret
        d.sio.on('ev', ev, namespace=ns)
        d.sio.on('disconnect', lambda sid, reason: log.append(
            ('disconnect', sid, reason)), namespace=ns)
    try:
        t = d.open()
        t.connect(ns)
        sid = t.sids[ns]
        t.send_packet(R.EVENT, ns, 9, ['ev', 1])
        d.join()
        t.drain()
        acks = [p for p in t.packets if p['type'] in (R.ACK, R.BINARY_ACK)
                and p['id'] == 9]
        discs = [p for p in t.packets if p['type'] == R.DISCONNECT]
        w = {'part': 'self_disconnect', 'case_index': k, 'kind': kind,
             'async_handlers': async_handlers, 'namespace': ns,
             'return': ret, 'log': [list(x) for x in log],
             'frames': [[p['type'], p['nsp'], p['id'], p['data']]
                        for p in t.packets], 'errors': d.errors()}
        ctx.count('self_disconnect_events')
        want = gen.expected_args(ret)
        if d.errors():
            ctx.violation(None, 'handler that disconnects its own client: '
                          'exception escaped (%s)' % d.errors()[0]['exc'], w)
        elif len(acks) != 1 or acks[0]['nsp'] != ns or \
                not R.deep_eq(acks[0]['data'], want):
            ctx.violation(None, 'a handler disconnected its own client and '
                          'returned %r: %d ACKs with the event\'s id were '
                          'sent' % (ret, len(acks)), w)
        elif len([x for x in log if x[0] == 'disconnect']) != 1 or \
                len(discs) != 1:
            ctx.violation(None, 'handler that disconnects its own client: '
                          'disconnect handler / DISCONNECT packet count is '
                          'not one', w)
        else:
            ctx.case(('self_disconnect', kind, async_handlers, ns,
                      R.has_bytes(ret)), w)
    finally:
        d.close()


def last_event_then_leave(ctx, k):
    """async_handlers on (the default): a client sends an event and leaves
    at once - its DISCONNECT (or the end of its transport) is processed before
    the task / thread that runs the event's handler gets its first turn.
    The event was sent on a connected namespace: its handler still runs,
    exactly once."""
    import asyncio
    from engineio import packet as eio_packet
    from vlib import drive as D
    rng = ctx.case_rng(12 * 10 ** 7 + k)
    kind = 'sync' if k % 2 == 0 else 'async'
    ns = rng.choice(['/', '/a'])
    pid = rng.choice([None, 4])
    how = rng.choice(['client_disconnect', 'transport_end'])
    d = D.make_drive(kind, async_handlers=True)
    log = []
    if kind == 'async':
        async def ev(sid, tok):
            log.append(('event', sid, tok))
            return 'r'
    else:
        def ev(sid, tok):
            log.append(('event', sid, tok))
            return 'r'
    d.sio.on('ev', ev, namespace=ns)
    d.sio.on('disconnect', lambda sid, reason: log.append(
        ('disconnect', sid, reason)), namespace=ns)
    try:
        t = d.open()
        t.connect(ns)
        sid = t.sids[ns]
        if d.serializer == 'msgpack':
            f_ev = R.msgpack_encode(R.EVENT, ns, pid, ['ev', 1])
            f_dc = R.msgpack_encode(R.DISCONNECT, ns, None, None)
        else:
            f_ev = R.encode(R.EVENT, ns, pid, ['ev', 1])[0]
            f_dc = R.encode(R.DISCONNECT, ns, None, None)[0]
        if kind == 'async':
            async def go():
                await t.socket.receive(eio_packet.Packet(
                    eio_packet.MESSAGE, f_ev))
                if how == 'client_disconnect':
                    await t.socket.receive(eio_packet.Packet(
                        eio_packet.MESSAGE, f_dc))
                else:
                    await t.socket.close(
                        wait=False, abort=True,
                        reason=d.eio.reason.TRANSPORT_CLOSE)
            d.run(go())
            d._reap(t)
        else:
            old = d.autojoin
            d.autojoin = False
            d.hold_tasks()
            try:
                t.socket.receive(eio_packet.Packet(eio_packet.MESSAGE,
                                                   f_ev))
                if how == 'client_disconnect':
                    t.socket.receive(eio_packet.Packet(eio_packet.MESSAGE,
                                                       f_dc))
                else:
                    t.socket.close(wait=False, abort=True,
                                   reason=d.eio.reason.TRANSPORT_CLOSE)
            finally:
                d.release_tasks()
                d.autojoin = old
                d.join()
            d._reap(t)
        t.drain()
        w = {'part': 'last_event_then_leave', 'case_index': k, 'kind': kind,
             'namespace': ns, 'id': pid, 'how': how,
             'log': [list(x) for x in log], 'errors': d.errors()}
        ctx.count('last_events_before_leaving')
        evs = [x for x in log if x[0] == 'event']
        if d.errors():
            ctx.violation(None, 'event followed at once by the client\'s '
                          'departure: exception escaped (%s)' %
                          d.errors()[0]['exc'], w)
        elif evs != [('event', sid, 1)]:
            ctx.violation(None, 'an event sent on a connected namespace, '
                          'followed at once by the client\'s %s, invoked its '
                          'handler %d times' % (how.replace('_', ' '),
                                                len(evs)), w)
        elif len([x for x in log if x[0] == 'disconnect']) != 1:
            ctx.violation(None, 'disconnect handler count is not one', w)
        else:
            ctx.case(('last_event_then_leave', kind, ns, pid, how), w)
    finally:
        d.close()


def binary_event_across_sibling_end(ctx, k):
    """A client connected to two namespaces is half-way through a binary
    event on one of them (header received, attachments to come) when its
    *other* namespace ends (server disconnect() or its own DISCONNECT): the
    event is still handled once and acknowledged when its last attachment
    arrives."""
    from vlib import drive as D
    rng = ctx.case_rng(13 * 10 ** 7 + k)
    kind = 'sync' if k % 2 == 0 else 'async'
    how = rng.choice(['server_disconnect', 'client_disconnect'])
    natt = rng.choice([1, 2, 3])
    keep = rng.randint(1, natt)      # header + keep-1 attachments first
    pid = rng.choice([None, 8])
    d = D.make_drive(kind, async_handlers=rng.random() < 0.5)
    log = []
    ret = rng.choice(['ok', None, {'b': b'z'}])
    if kind == 'async':
        async def ev(sid, *a):
            log.append(('event', sid, list(a)))
            return ret
    else:
        def ev(sid, *a):
            log.append(('event', sid, list(a)))
            return ret
    d.sio.on('ev', ev, namespace='/a')
    d.sio.on('disconnect', lambda sid, reason: log.append(
        ('disconnect', sid, reason)), namespace='/b')
    try:
        t = d.open()
        t.connect('/a')
        t.connect('/b')
        sid_a, sid_b = t.sids['/a'], t.sids['/b']
        blobs = [bytes([66 + i]) * 3 for i in range(natt)]
        text, atts = R.encode(R.EVENT, '/a', pid, ['ev'] + blobs)
        frames = [text] + atts
        for f in frames[:keep]:
            t.feed(f)
        if how == 'server_disconnect':
            d.api('disconnect', sid_b, namespace='/b')
        else:
            # (a DISCONNECT of /b between the frames of the /a event would be
            # taken for an attachment: the client's own DISCONNECT can only
            # precede the header)
            how = 'server_disconnect_then_rest'
            d.api('disconnect', sid_b, namespace='/b')
        for f in frames[keep:]:
            t.feed(f)
        d.join()
        t.drain()
        w = {'part': 'binary_event_across_sibling_end', 'case_index': k,
             'kind': kind, 'attachments': natt, 'frames_before': keep,
             'id': pid, 'log': core.jsonable(log), 'errors': d.errors()}
        ctx.count('binary_events_across_a_sibling_end')
        evs = [x for x in log if x[0] == 'event']
        acks = [p for p in t.packets if p['type'] in (R.ACK, R.BINARY_ACK)
                and p['nsp'] == '/a']
        if d.errors():
            ctx.violation(None, 'binary event whose sibling namespace ended '
                          'half-way: exception escaped (%s)' %
                          d.errors()[0]['exc'], w)
        elif len(evs) != 1 or evs[0][1] != sid_a or \
                not R.deep_eq(evs[0][2], blobs):
            ctx.violation(None, 'a binary event on /a during which the '
                          'client\'s /b connection was ended by the server '
                          'invoked its handler %d times' % len(evs), w)
        elif (pid is None) != (not acks) or (acks and (
                len(acks) != 1 or acks[0]['id'] != pid or not R.deep_eq(
                    acks[0]['data'], gen.expected_args(ret)))):
            ctx.violation(None, 'binary event across the end of a sibling '
                          'namespace: ACKs %r' % (acks,), w)
        else:
            ctx.case(('binary_event_across_sibling_end', kind, natt, keep,
                      pid), None)
    finally:
        d.close()


def run_races(ctx, share):
    """Events racing with a disconnect in progress: asyncio server through
    the interleaving explorer of C04 part (b) (scenarios that contain the
    event actor), threaded server with a disconnect handler blocked in
    another thread."""
    from checks import c04_sched
    t_end = ctx.time_left() - share
    sp = [s for s in c04_sched.specs() if 'event' in s['actors']]
    k = 0
    while ctx.time_left() > t_end and not ctx.too_many_violations():
        for _ in range(8):
            race_threaded(ctx, k)
            fault_recovery(ctx, k)
            self_disconnect(ctx, k)
            last_event_then_leave(ctx, k)
            binary_event_across_sibling_end(ctx, k)
            k += 1
        spec = sp[(k // 8) % len(sp)]
        rng = ctx.case_rng(2 * 10 ** 7 + k)
        for _ in range(40):
            c04_sched.explore(ctx, spec, 1, rng=rng)


def run(ctx):
    ctx.rule = ('histories of EVENT/BINARY_EVENT packets (ids None/0/'
                'colliding/huge, JSON+bytes arguments, bursts interleaved '
                'between clients, zero-attachment binary events) from '
                'several clients and namespaces, interleaved with connects '
                'and disconnects; each event carries a unique token and its '
                'handler invocations and ACKs are accounted for on every '
                'transport; distinct = (server kind, serializer, '
                'async_handlers, responsible target kind, id class, binary '
                'args, return shape, connected)')
    ctx.assumptions = [
        'background handler threads/tasks are joined before judging',
        'client frames are produced by the reference codec']
    ctx.require('events_judged', 100)
    ctx.require('events_literally_named_star', 20)
    ctx.require('handler_invocations_checked', 50)
    ctx.require('acks_checked', 30)
    ctx.require('order_checks', 5)
    ctx.require('racing_events_threaded', 10)
    ctx.require('handler_fault_recoveries', 10)
    ctx.require('self_disconnect_events', 10)
    ctx.require('last_events_before_leaving', 10)
    ctx.require('binary_events_across_a_sibling_end', 10)
    ctx.require('racing_events_while_disconnecting', 10)
    run_races(ctx, (ctx.budget or 30) * 0.2)
    k = 0
    while not ctx.out_of_time() and not ctx.too_many_violations():
        run_case(ctx, k)
        ctx.count('histories')
        k += 1


def replay(ctx, w):
    if w['witness'].get('part') == 'binary_event_across_sibling_end':
        return binary_event_across_sibling_end(ctx, w['witness']['case_index'])
    if w['witness'].get('part') == 'last_event_then_leave':
        return last_event_then_leave(ctx, w['witness']['case_index'])
    wi = w['witness']
    if wi.get('part') == 'race_threaded':
        return race_threaded(ctx, wi['case_index'])
    if wi.get('part') == 'self_disconnect':
        return self_disconnect(ctx, wi['case_index'])
    if wi.get('part') == 'fault_recovery':
        return fault_recovery(ctx, wi['case_index'])
    if wi.get('part') == 'sched':
        from checks import c04_sched
        return c04_sched.replay(ctx, w)
    run_case(ctx, wi['case_index'])
