"""C03 Rooms: an emit reaches exactly the addressed members, once each.

Histories are generated online against a real Server / AsyncServer (real
Manager / AsyncManager) through the direct-drive harness; the oracle is the
independent RoomsModel; every emit carries a unique token, so each delivered
frame identifies its emit (exactly-once = multiset equality).
"""
import asyncio
import collections

from vlib import refcodec as R
from vlib import scenario as S
from vlib.models import RoomsModel

LEVEL = 'exploration'
TIERS = {
    'quick': {'budget': 30, 'watchdog': 300, 'shards': 1},
    'thorough': {'budget': 400, 'watchdog': 900, 'shards': 16},
}
NAMESPACES = ['/', '/a', '/b', '/c']
ROOMS = ['r1', 'r2', 'lobby', 7, 2.5, 'r1 ', '/', 'None']


def bucket(n):
    return n if n < 3 else '3+'


class History:
    def __init__(self, ctx, rng, kind, index):
        self.ctx = ctx
        self.rng = rng
        self.kind = kind
        self.index = index
        served = NAMESPACES[:rng.choice([1, 2, 3, 4])]
        self.served = served
        # some connections are refused by the application's connect handler
        # (with and without always_connect): a refused client is in no room
        # (... or fail with an unexpected exception)
        script = {ns: [rng.choice(['accept'] * 7 + ['false', ['refuse', 'no'],
                                                    'crash'])
                       for _ in range(40)] for ns in NAMESPACES + ['/zz']}
        self.cfg = S.default_config(
            kind=kind, served=served,
            serializer=rng.choice(['default', 'default', 'msgpack']),
            async_handlers=False,
            always_connect=rng.random() < 0.4,
            connect_script=script,
            namespaces_opt=rng.choice([None, '*', served]),
            coroutines=rng.random() < 0.7)
        self.script = {ns: list(v) for ns, v in script.items()}
        self.r = S.Runner(self.cfg)
        # the application's disconnect handlers sometimes do the usual chat
        # clean-up for the departing client: leave_room(sid, R), then tell R
        self.disc_actions = {}     # sid -> (room, token)
        self.disc_log = []
        self._wrap_disconnect_handlers()
        self.m = RoomsModel()
        self.owner = {}          # sid -> (T, ns)
        self.dead = []           # sids no longer connected
        self.nT = 0
        self.open_T = []
        self.token = 0
        self.ops = []
        self.failed = False
        self.target = rng.choice([2, 3, 5, 8])
        self.stale = set()       # transports whose pings stopped long ago

    def _wrap_disconnect_handlers(self):
        sio = self.r.sio
        actions, log = self.disc_actions, self.disc_log
        is_async = self.r.d.is_async
        for ns, hs in list(sio.handlers.items()):
            orig = hs.get('disconnect')
            if orig is None or ns == '*':
                continue
            if is_async:
                def mk(ns, orig):
                    async def on_disconnect(sid, reason):
                        act = actions.pop(sid, None)
                        if act:
                            room, tok = act
                            try:
                                await sio.leave_room(sid, room, namespace=ns)
                                await sio.emit('tok%d' % tok, {'t': tok},
                                               to=room, namespace=ns)
                                log.append((sid, room, tok, sorted(
                                    sio.rooms(sid, namespace=ns), key=repr)))
                            except Exception as e:
                                log.append((sid, room, tok, 'raised %r' % e))
                        r = orig(sid, reason)
                        if asyncio.iscoroutine(r):
                            r = await r
                        return r
                    return on_disconnect
            else:
                def mk(ns, orig):
                    def on_disconnect(sid, reason):
                        act = actions.pop(sid, None)
                        if act:
                            room, tok = act
                            try:
                                sio.leave_room(sid, room, namespace=ns)
                                sio.emit('tok%d' % tok, {'t': tok}, to=room,
                                         namespace=ns)
                                log.append((sid, room, tok, sorted(
                                    sio.rooms(sid, namespace=ns), key=repr)))
                            except Exception as e:
                                log.append((sid, room, tok, 'raised %r' % e))
                        return orig(sid, reason)
                    return on_disconnect
            hs['disconnect'] = mk(ns, orig)

    # ---------------------------------------------------------------- gen
    def some_sid(self, live_bias=0.85):
        rng = self.rng
        live = sorted(self.m.all_sids())
        if live and rng.random() < live_bias:
            return rng.choice(live)            # (sid, ns)
        if self.dead and rng.random() < 0.8:
            return rng.choice(self.dead)
        return ('nosuchsid', rng.choice(NAMESPACES))

    def some_room(self, ns):
        rng = self.rng
        r = rng.random()
        if r < 0.6:
            return rng.choice(ROOMS[:3] if rng.random() < 0.6 else ROOMS)
        if r < 0.85:
            # a room named like a session id (live or dead, any namespace)
            return self.some_sid(0.7)[0]
        return 'room%d' % rng.randint(0, 30)

    def gen_op(self):
        rng = self.rng
        live = sorted(self.m.all_sids())
        r = rng.random()
        if not self.open_T or r < 0.04:
            self.nT += 1
            self.open_T.append(self.nT)
            return ['open', self.nT]
        if r > 0.975 and len(self.open_T) > 1:
            T = rng.choice(self.open_T)
            if T not in self.stale:
                return ['stale', T]
        if len(live) < self.target or r < 0.12:
            cand = [t for t in self.open_T if t not in self.stale]
            if not cand:
                self.nT += 1
                self.open_T.append(self.nT)
                return ['open', self.nT]
            T = rng.choice(cand)
            ns = rng.choice(self.served + (['/zz'] if rng.random() < 0.1
                                           else []))
            return ['connect', T, ns, None]
        if r < 0.36:
            sid, ns = self.some_sid()
            if rng.random() < 0.1:
                ns = rng.choice(NAMESPACES + ['/nope'])
            return ['enter', sid, self.some_room(ns), ns]
        if r < 0.44:
            sid, ns = self.some_sid()
            room = self.some_room(ns)
            if self.m.rooms(sid, ns) and rng.random() < 0.7:
                room = rng.choice(sorted(self.m.rooms(sid, ns), key=repr))
            if room == sid:
                room = 'r1'       # own personal room: outside the judged domain
            if rng.random() < 0.1:
                ns = rng.choice(NAMESPACES + ['/nope'])
            return ['leave', sid, room, ns]
        if r < 0.48:
            ns = rng.choice(NAMESPACES + ['/nope'])
            room = self.some_room(ns)
            if self.m.connected(room, ns):
                room = 'r2'       # a live client's personal room: not judged
            return ['close_room', room, ns]
        if r < 0.51:
            sid, ns = self.some_sid(0.95)
            if sid in self.owner and self.owner[sid][0] not in self.stale:
                return ['cdisc', self.owner[sid][0], ns]
        if r < 0.54:
            sid, ns = self.some_sid(0.9)
            return ['sdisc', sid, ns]
        if r < 0.56 and self.open_T:
            T = rng.choice(self.open_T)
            return ['lose', T]
        # emit
        self.token += 1
        ns = rng.choice(self.served) if rng.random() < 0.9 else \
            rng.choice(NAMESPACES + ['/nope'])
        k = rng.random()
        if k < 0.2:
            to = None
        elif k < 0.45:
            to = self.some_sid()[0]
        elif k < 0.75:
            to = self.some_room(ns)
        else:
            to = [self.some_room(ns) for _ in range(rng.choice([1, 2, 2, 3,
                                                                5]))]
        k = rng.random()
        if k < 0.5:
            skip = None
        elif k < 0.8:
            skip = self.some_sid()[0]
        else:
            skip = [self.some_sid()[0] for _ in range(rng.choice([0, 1, 2,
                                                                  3]))]
        cb = None
        if to is not None and not isinstance(to, list) and \
                len(self.m.members(ns, to)) == 1 and rng.random() < 0.5:
            cb = 'co' if rng.random() < 0.5 else 'fn'
        emit_ns = ns
        if ns == '/' and rng.random() < 0.5:
            emit_ns = None
        op = ['emit', self.token, to, skip, emit_ns, cb]
        # payloads with byte strings: the event is a packet of several frames
        # per recipient
        k = rng.random()
        if k < 0.25:
            op.append({'t': self.token, 'b': bytes([self.token % 256])})
        elif k < 0.35:
            op.append({'t': self.token, 'b': [b'\x00', b'\x01\x02'],
                       'n': {'deep': b'xyz'}})
        return op

    # -------------------------------------------------------------- judge
    def witness(self, res, extra=None):
        w = {'case_index': self.index, 'kind': self.kind,
             'config': {k: self.cfg[k] for k in (
                 'serializer', 'served', 'namespaces_opt', 'coroutines')},
             'history': self.ops[-40:], 'failing_op': res['op'],
             'sent': {str(k): v for k, v in res.get('sent', {}).items()},
             'exc': res.get('exc'), 'exc_tb': res.get('exc_tb'),
             'errors': res.get('errors'),
             'model': {ns: {s: sorted(map(repr, r)) for s, r in m.items()}
                       for ns, m in self.m.ns.items()}}
        if extra:
            w.update(extra)
        return w

    def fail(self, what, res, extra=None):
        self.failed = True
        self.ctx.violation(None, what, self.witness(res, extra))

    def step(self):
        ctx = self.ctx
        op = self.gen_op()
        kind = op[0]
        m = self.m
        script = None
        if kind in ('cdisc', 'sdisc', 'lose') and self.rng.random() < 0.3:
            # the application's disconnect handler fails: the client is
            # gone all the same.  A non-Exception (green-thread timeout or
            # kill) only where one handler runs and the transport lives.
            if kind == 'lose':
                n = len([1 for s, o in self.owner.items()
                         if o[0] == op[1] and m.connected(s, o[1])])
                script = ['base'] if n == 1 and self.rng.random() < 0.5 \
                    else [self.rng.choice(['exc', 'exc', 'ok'])
                          for _ in range(n)]
            else:
                T = op[1] if kind == 'cdisc' else \
                    self.owner.get(op[1], (None,))[0]
                script = ['exc'] if T in self.stale or T is None else \
                    [self.rng.choice(['exc', 'base'])]
            self.r.disconnect_script = list(script)
            self.ctx.count('disconnects_with_failing_handler')
        # clean-up by the disconnect handler (only where exactly one client
        # connection ends and its transport is alive)
        cleanup = None
        if kind in ('cdisc', 'sdisc') and not script and \
                self.rng.random() < 0.3:
            if kind == 'cdisc':
                dsid = next((s for s, o in self.owner.items()
                             if o == (op[1], op[2]) and
                             m.connected(s, op[2])), None)
                dns = op[2]
            else:
                dsid, dns = op[1], op[2]
            if dsid is not None and m.connected(dsid, dns) and \
                    dns in self.served and \
                    self.owner.get(dsid, (None,))[0] not in self.stale:
                rooms = sorted((x for x in m.rooms(dsid, dns) if x != dsid),
                               key=repr)
                if rooms:
                    self.token += 1
                    room = self.rng.choice(rooms)
                    others = [x for x in m.members(dns, room) if x != dsid]
                    if not any(self.owner[x][0] in self.stale
                               for x in others):
                        cleanup = (dsid, dns, room, self.token, others)
                        self.disc_actions[dsid] = (room, self.token)
        self.ops.append(op + ([{'handler': script}] if script else []) +
                        ([{'cleanup': list(cleanup[2:4])}] if cleanup
                         else []))
        del self.disc_log[:]
        res = self.r.step(op)
        self.disc_actions.clear()
        self.r.disconnect_script = []
        if cleanup:
            dsid, dns, room, tok, others = cleanup
            self.ctx.count('disconnect_handler_cleanups')
            sent0 = res.get('sent', {})
            got = collections.Counter()
            for T, pkts in list(sent0.items()):
                keep = []
                for p in pkts:
                    if p['type'] in (R.EVENT, R.BINARY_EVENT) and \
                            isinstance(p['data'], list) and p['data'] and \
                            p['data'][0] == 'tok%d' % tok:
                        got[(T, p['nsp'])] += 1
                    else:
                        keep.append(p)
                if keep:
                    sent0[T] = keep
                else:
                    del sent0[T]
            want = collections.Counter(
                {(self.owner[x][0], dns): 1 for x in others})
            logged = [e for e in self.disc_log if e[0] == dsid]
            if len(logged) != 1 or not isinstance(logged[0][3], list):
                return self.fail('the disconnect handler\'s clean-up '
                                 '(leave_room, emit, rooms) did not run '
                                 'normally: %r' % (logged,), res)
            if got != want:
                return self.fail(
                    'the disconnect handler of %r left room %r and then '
                    'emitted to it: delivered to %s, the other members are '
                    '%s' % (dsid, room, sorted(got.items()),
                            sorted(want)), res)
            if room in logged[0][3]:
                return self.fail('rooms(%r) inside its disconnect handler '
                                 'still lists %r after leave_room' % (
                                     dsid, room), res)
        if script:
            if res.get('exc') in ('Injected', 'InjectedBase'):
                res['exc'] = None
            if res.get('errors'):
                res['errors'] = [e for e in res['errors'] if e['exc'] not in
                                 ('Injected', 'InjectedBase')]
        if kind == 'connect' and res.get('errors'):
            # (a connect handler that crashes: its own exception reaches the
            # log, nothing else does)
            res['errors'] = [e for e in res['errors']
                             if e['exc'] != 'Injected']
        sent = res.get('sent', {})
        if res.get('decode_errors'):
            return self.fail('server sent an undecodable frame', res)
        if res.get('errors'):
            return self.fail('exception escaped inside the server: %s' %
                             res['errors'][0]['exc'], res)
        tokens = collections.Counter()
        others = []
        for T, pkts in sent.items():
            for p in pkts:
                if p['type'] in (R.EVENT, R.BINARY_EVENT) and isinstance(
                        p['data'], list) and p['data'] and isinstance(
                            p['data'][0], str) and \
                        p['data'][0].startswith('tok'):
                    tokens[(p['data'][0], T, p['nsp'])] += 1
                else:
                    others.append((T, p))
        if kind != 'emit' and tokens:
            return self.fail('an event was delivered by a non-emit operation',
                             res)
        if kind == 'open':
            pass
        elif kind == 'stale':
            self.stale.add(op[1])
            ctx.count('transports_gone_stale')
        elif kind == 'connect':
            T, ns = op[1], op[2]
            already = any(o == (T, ns) for s, o in self.owner.items()
                          if m.connected(s, o[1]))
            acc = [p for p in sent.get(T, []) if p['type'] == R.CONNECT]
            ran = [e for e in res.get('events', [])
                   if e[0] == 'handler' and e[1] == 'connect']
            if ran:
                beh = self.script[ns].pop(0) if self.script.get(ns) \
                    else 'accept'
                if beh not in ('accept', 'true'):
                    # refused: whatever was sent (CONNECT_ERROR, or CONNECT +
                    # DISCONNECT with always_connect), the client is not
                    # connected and in no room from now on
                    ctx.count('connects_refused_by_handler')
                    for p in acc:
                        self.dead.append((p['data']['sid'], ns))
                    self.refused_T = getattr(self, 'refused_T', set())
                    return self.after_op(res, kind, op)
            if ns in self.served and not already and \
                    T in self.open_T:
                if len(acc) != 1:
                    return self.fail('CONNECT to a served namespace was not '
                                     'accepted', res)
                sid = acc[0]['data']['sid']
                if sid in self.owner:
                    return self.fail('session id reused', res)
                m.connect(sid, ns)
                self.owner[sid] = (T, ns)
                ctx.count('connects')
            elif acc and ns in self.served:
                return self.fail('duplicate CONNECT was accepted', res)
            elif acc:
                # namespaces_opt '*' serves everything
                if self.cfg['namespaces_opt'] == '*':
                    sid = acc[0]['data']['sid']
                    m.connect(sid, ns)
                    self.owner[sid] = (T, ns)
                else:
                    return self.fail('CONNECT to an unserved namespace was '
                                     'accepted', res)
        elif kind == 'enter':
            if res.get('exc') and m.connected(op[1], op[3]):
                return self.fail('enter_room raised for a connected client',
                                 res)
            m.enter(op[1], op[3], op[2])
            ctx.count('room_ops')
            if res.get('exc'):
                ctx.count('room_ops_on_unknown_raised')
        elif kind == 'leave':
            if res.get('exc') and m.connected(op[1], op[3]):
                return self.fail('leave_room raised for a connected client',
                                 res)
            m.leave(op[1], op[3], op[2])
            ctx.count('room_ops')
        elif kind == 'close_room':
            if res.get('exc'):
                return self.fail('close_room raised', res)
            m.close(op[1], op[2])
            ctx.count('room_ops')
        elif kind == 'cdisc':
            T, ns = op[1], op[2]
            for s, o in list(self.owner.items()):
                if o == (T, ns) and m.connected(s, ns):
                    m.disconnect(s, ns)
                    self.dead.append((s, ns))
            ctx.count('disconnects')
        elif kind == 'sdisc':
            if res.get('exc'):
                return self.fail('disconnect() raised', res)
            if m.connected(op[1], op[2]):
                T = self.owner[op[1]][0]
                m.disconnect(op[1], op[2])
                self.dead.append((op[1], op[2]))
                ctx.count('disconnects')
                if T in self.stale:
                    # the DISCONNECT packet is the send that finds the
                    # transport dead: all of its namespaces end
                    self.kill_transport(T)
        elif kind == 'lose':
            T = op[1]
            for s, o in list(self.owner.items()):
                if o[0] == T and m.connected(s, o[1]):
                    m.disconnect(s, o[1])
                    self.dead.append((s, o[1]))
            if T in self.open_T:
                self.open_T.remove(T)
            self.stale.discard(T)
            ctx.count('transport_losses')
        elif kind == 'emit':
            token, to, skip, ens, cb = op[1:6]
            ns = ens or '/'
            if res.get('exc'):
                return self.fail('emit raised %s' % res['exc'], res)
            want = collections.Counter()
            died = set()
            for s in m.recipients(ns, to, skip):
                if self.owner[s][0] in self.stale:
                    # found dead by this very send: not delivered, and the
                    # whole transport is disconnected from inside the emit
                    died.add(self.owner[s][0])
                    continue
                want[('tok%d' % token, self.owner[s][0], ns)] += 1
            for T in sorted(died):
                self.kill_transport(T)
                ctx.count('clients_found_dead_during_emit')
            ctx.count('emits_judged')
            if len(op) > 6:
                ctx.count('binary_emits_judged')
                if sum(want.values()) > 1:
                    ctx.count('binary_emits_to_several_recipients')
                # the payload arrives whole at every recipient
                for T, pkts in sent.items():
                    for p in pkts:
                        if p['type'] == R.BINARY_EVENT and \
                                p['data'][0] == 'tok%d' % token and \
                                not R.deep_eq(p['data'][1:], [op[6]]):
                            return self.fail(
                                'binary emit arrived as %r, sent %r' % (
                                    p['data'][1:], op[6]), res)
            ctx.count('deliveries_checked', sum(tokens.values()))
            if tokens != want:
                return self.fail(
                    'emit delivered to %s, the model says %s' % (
                        sorted((k[1], k[2], v) for k, v in tokens.items()),
                        sorted((k[1], k[2], v) for k, v in want.items())),
                    res)
            if others:
                return self.fail('emit caused other packets to be sent', res)
            nrec = sum(want.values())
            sig = ('none' if to is None else (
                'list%d' % len(to) if isinstance(to, list) else (
                    'sidroom' if to in self.owner else 'room')),
                'noskip' if skip is None else (
                    'skiplist%d' % len(skip) if isinstance(skip, list)
                    else 'skip1'),
                bool(cb), bucket(nrec),
                bucket(len(m.ns.get(ns, {}))),
                ens is None, self.kind, self.cfg['serializer'])
            ctx.case(sig, {'op': op, 'recipients': sorted(
                (k[1], k[2]) for k in want), 'kind': self.kind}
                if nrec else None, nontrivial=True)
        return self.after_op(res, kind, op)

    def after_op(self, res, kind, op):
        ctx, m = self.ctx, self.m
        # rooms() for a few sids after every operation
        cands = sorted(m.all_sids())
        probe = []
        if cands:
            probe.append(self.rng.choice(cands))
        if self.dead and self.rng.random() < 0.3:
            probe.append(self.rng.choice(self.dead))
        if kind in ('enter', 'leave', 'sdisc') and isinstance(op[1], str):
            probe.append((op[1], op[3] if kind != 'sdisc' else op[2]))
        if kind == 'close_room':
            probe = cands[:6]
        for sid, ns in probe:
            try:
                got = self.r.d.api('rooms', sid, namespace=ns)
            except Exception as e:
                return self.fail('rooms() raised %r' % e, res)
            ctx.count('rooms_queries')
            if len(set(got)) != len(list(got)) or \
                    set(got) != m.rooms(sid, ns):
                return self.fail(
                    'rooms(%r, %r) = %r, the model says %r' % (
                        sid, ns, sorted(got, key=repr),
                        sorted(m.rooms(sid, ns), key=repr)), res)

    def kill_transport(self, T):
        m = self.m
        for s, o in list(self.owner.items()):
            if o[0] == T and m.connected(s, o[1]):
                m.disconnect(s, o[1])
                self.dead.append((s, o[1]))
        if T in self.open_T:
            self.open_T.remove(T)
        self.stale.discard(T)

    def close(self):
        self.r.close()


def run_case(ctx, k):
    rng = ctx.case_rng(k)
    kind = 'sync' if k % 2 == 0 else 'async'
    h = History(ctx, rng, kind, k)
    try:
        n = rng.choice([20, 40, 80, 120])
        for _ in range(n):
            h.step()
            if h.failed:
                break
    finally:
        h.close()


def abandoned_emit_case(ctx, k):
    """asyncio: the coroutine that awaits emit() is cancelled - by the
    application, or by asyncio.wait_for() around it - while the send to one
    recipient is still in progress (a slow transport).  The emit has been
    issued: every addressed member still receives the event exactly once,
    nobody else does."""
    import asyncio
    from vlib import drive as D
    rng = ctx.case_rng(4 * 10 ** 7 + k)
    mode = rng.choice(['wait_for', 'cancel'])
    binary = rng.random() < 0.4
    n = rng.choice([2, 3, 4])
    d = D.AsyncDrive(serializer=rng.choice(['default', 'msgpack']))
    try:
        d.on('connect', lambda sid, env, auth=None: None, '/')
        T = []
        for i in range(n + 1):
            t = d.open()
            t.connect('/')
            T.append(t)
        for t in T[:n]:
            d.api('enter_room', t.sids['/'], 'room', namespace='/')
        for t in T:
            t.drain()
        slow = {T[i].eio_sid for i in rng.sample(range(n), rng.randint(
            1, n - 1))}
        orig = d.eio.send_packet

        locks = {}
        delayed = set()

        async def send_packet(eio_sid, pkt):
            if eio_sid not in slow:
                return await orig(eio_sid, pkt)
            # a slow transport: writes complete late, in the order issued
            lock = locks.setdefault(eio_sid, asyncio.Lock())
            async with lock:
                if eio_sid not in delayed:
                    delayed.add(eio_sid)
                    await asyncio.sleep(5)      # virtual seconds
                return await orig(eio_sid, pkt)
        d.eio.send_packet = send_packet
        data = {'n': k, 'b': [b'one', b'two']} if binary else {'n': k}
        out = {}

        async def go():
            if mode == 'wait_for':
                try:
                    await asyncio.wait_for(d.sio.emit(
                        'tok1', data, to='room', namespace='/'), 1)
                    out['emit'] = 'returned'
                except asyncio.TimeoutError:
                    out['emit'] = 'timed out'
            else:
                task = asyncio.ensure_future(d.sio.emit(
                    'tok1', data, to='room', namespace='/'))
                await asyncio.sleep(1)
                task.cancel()
                try:
                    await task
                    out['emit'] = 'returned'
                except asyncio.CancelledError:
                    out['emit'] = 'cancelled'
            await asyncio.sleep(20)
        d.run(go())
        del d.eio.__dict__['send_packet']
        got = []
        for t in T:
            t.drain()
            got.append(len([p for p in t.packets
                            if p['type'] in (R.EVENT, R.BINARY_EVENT) and
                            p['data'][0] == 'tok1']))
        ctx.count('abandoned_emits_judged')
        w = {'part': 'abandoned_emit', 'case_index': k, 'mode': mode,
             'binary': binary, 'members': n, 'slow_members': len(slow),
             'emit_outcome': out.get('emit'), 'deliveries': got,
             'undecodable': [e[1][:100] for t in T for e in t.decode_errors]}
        if w['undecodable'] or d.errors():
            w['errors'] = [e.get('exc') for e in d.errors()[:3]]
            ctx.violation(None, 'an emit whose awaiting coroutine was '
                          'abandoned (%s): errors / undecodable frames' %
                          mode, w)
        elif got != [1] * n + [0]:
            ctx.violation(None, 'emit(to=room) whose awaiting coroutine was '
                          'abandoned (%s) while the send to %d of %d members '
                          'was in progress: deliveries per member %r (the '
                          'last client is not a member)' % (
                              mode, len(slow), n, got), w)
        else:
            ctx.case(('abandoned_emit', mode, binary, n, len(slow)), None)
    finally:
        d.close()


def run(ctx):
    ctx.rule = ('online-generated histories (20-120 ops) over {open, CONNECT,'
                ' enter/leave/close_room, client DISCONNECT, server '
                'disconnect(), transport loss, emit(to,skip_sid,namespace,'
                'callback)} on real Server/AsyncServer; every emit is judged '
                'against RoomsModel by multiset equality of (transport, '
                'namespace) recipients; distinct = (target kind, skip kind, '
                'callback, #recipients, #clients in namespace, namespace '
                'omitted, server kind, serializer)')
    ctx.assumptions = [
        'room names are truthy non-sequence hashables; a client leaving / '
        'close_room on its own personal room is not generated',
        'operations on unknown sids/namespaces: model says no state change; '
        'whether they raise is recorded, not judged',
        'threaded server driven sequentially (async_handlers=False)']
    ctx.require('emits_judged', 50)
    ctx.require('binary_emits_to_several_recipients', 10)
    ctx.require('deliveries_checked', 50)
    ctx.require('rooms_queries', 50)
    ctx.require('room_ops', 20)
    ctx.require('disconnects', 5)
    ctx.require('disconnects_with_failing_handler', 5)
    ctx.require('disconnect_handler_cleanups', 5)
    ctx.require('clients_found_dead_during_emit', 3)
    ctx.require('connects_refused_by_handler', 5)
    # threaded server: emits racing with membership changes made by other
    # threads (controlled scheduler)
    from checks import c03_sched
    ctx.require('emit_race_schedules', 50)
    ctx.require('self_race_schedules', 20)
    c03_sched.run_part(ctx, (ctx.budget or 30) * 0.2)
    ctx.require('abandoned_emits_judged', 10)
    k = 0
    while not ctx.out_of_time() and not ctx.too_many_violations():
        run_case(ctx, k)
        ctx.count('histories')
        if k % 25 == 3:
            abandoned_emit_case(ctx, k // 25 + ctx.shard * 10 ** 5)
        k += 1


def replay(ctx, w):
    if w['witness'].get('part') == 'abandoned_emit':
        return abandoned_emit_case(ctx, w['witness']['case_index'])
    if w['witness'].get('part') in ('emit_race', 'self_race'):
        from checks import c03_sched
        return c03_sched.replay(ctx, w)
    run_case(ctx, w['witness']['case_index'])
