"""C06 Server-initiated acks: callback at most once, only for the right client
and id; call() shaping and timeouts (virtual time).
"""
import asyncio

from vlib import gen
from vlib import refcodec as R
from vlib import scenario as S
from vlib.vtime import VirtualEvent, settle

LEVEL = 'exploration'
TIERS = {
    'quick': {'budget': 30, 'watchdog': 300, 'shards': 1},
    'thorough': {'budget': 400, 'watchdog': 900, 'shards': 16},
}
NAMESPACES = ['/', '/a', '/b']


def classify(w):
    if w.get('ack_id') == 0 and w.get('id0_symptom'):
        return 'ack-id-0-hits-counter'
    if w.get('after_id0_ack'):
        return 'ack-id-0-hits-counter'
    return None


class History:
    def __init__(self, ctx, rng, kind, index):
        self.ctx, self.rng, self.kind, self.index = ctx, rng, kind, index
        served = NAMESPACES[:rng.choice([1, 2, 3])]
        self.cfg = S.default_config(
            kind=kind, served=served,
            serializer=rng.choice(['default', 'default', 'msgpack']),
            async_handlers=True, namespaces_opt=served + ['/rej'],
            always_connect=rng.random() < 0.5,
            coroutines=rng.random() < 0.7)
        self.r = S.Runner(self.cfg)
        self.rej = {}
        self._register_rej()
        self.conn = {}          # (T, ns) -> sid
        self.out = {}           # sid -> {id: token}
        self.used = {}          # sid -> set of ids already acknowledged
        self.ended = {}         # (T, ns) -> ids outstanding at a session end
        self.fired = set()      # tokens whose callback ran
        self.nT = 0
        self.open_T = []
        self.tok = 0
        self.ops = []
        self.failed = False
        self.id0_acked = set()  # sids that were sent an ACK with id 0
        self.raising = set()    # tokens whose callback raises

    def _register_rej(self):
        """Namespace /rej: its connect handler emits to the new client with
        a callback and then accepts or refuses the connection."""
        import socketio
        sio, rej, events = self.r.sio, self.rej, self.r.events

        def cb(*args):
            events.append(('callback', rej['tok'], list(args)))

        def decide(sid):
            rej['sid'] = sid
            if rej['beh'] == 'false':
                return False
            if rej['beh'] == 'refuse':
                raise socketio.exceptions.ConnectionRefusedError('no')
        if self.kind == 'async':
            async def connect(sid, environ, auth=None):
                await sio.emit('tok%d' % rej['tok'], {'t': rej['tok']},
                               to=sid, namespace='/rej', callback=cb)
                return decide(sid)
        else:
            def connect(sid, environ, auth=None):
                sio.emit('tok%d' % rej['tok'], {'t': rej['tok']}, to=sid,
                         namespace='/rej', callback=cb)
                return decide(sid)
        sio.on('connect', connect, namespace='/rej')

    def do_refused_with_callback(self):
        """A callback registered for a client whose connection is then
        refused belongs to a client that has disconnected: an ACK with its
        id, sent all the same, invokes nothing."""
        rng, ctx = self.rng, self.ctx
        cand = [T for T in self.open_T if (T, '/rej') not in self.conn]
        if not cand:
            return
        T = rng.choice(cand)
        self.tok += 1
        tok = self.tok
        beh = rng.choice(['false', 'refuse', 'refuse', 'accept'])
        self.rej.update(tok=tok, beh=beh, sid=None)
        op = ['connect', T, '/rej', None]
        self.ops.append(op + [beh])
        res = self.r.step(op)
        if res.get('exc') or res.get('errors'):
            return self.fail('CONNECT raised', res)
        pk = [p for p in res['sent'].get(T, [])
              if p['type'] in (R.EVENT, R.BINARY_EVENT)]
        if len(pk) != 1 or pk[0]['id'] is None:
            return self.fail('the emit with callback of the connect handler '
                             'sent %r' % res['sent'], res)
        aid = pk[0]['id']
        sid = self.rej['sid']
        args = ['thanks', tok]
        op = ['ack', T, '/rej', aid, args]
        self.ops.append(op)
        res = self.r.step(op)
        cbs = [e for e in res['events'] if e[0] == 'callback']
        if res.get('exc') or res.get('errors') or res['sent']:
            return self.fail('ACK from a client whose connection was %s was '
                             'not handled silently' % (
                                 'accepted' if beh == 'accept' else
                                 'refused'), res)
        if beh == 'accept':
            if len(cbs) != 1 or cbs[0][1] != tok or cbs[0][2] != args:
                return self.fail('callback registered inside the connect '
                                 'handler: invocations %r' % cbs, res)
            self.r.step(['cdisc', T, '/rej'])
        elif cbs:
            return self.fail('callback of a client whose connection was '
                             'refused (it is disconnected) was invoked by a '
                             'later ACK: %r' % cbs, res,
                             {'always_connect': self.cfg['always_connect']})
        ctx.count('refused_with_callback_outstanding'
                  if beh != 'accept' else 'accepted_with_callback')
        ctx.case((self.kind, 'connect_handler_callback', beh,
                  self.cfg['always_connect'], self.cfg['serializer']), None)

    def witness(self, res, extra=None):
        w = {'case_index': self.index, 'kind': self.kind,
             'config': {k: self.cfg[k] for k in ('serializer', 'served',
                                                  'coroutines')},
             'history': self.ops[-25:], 'failing_op': res.get('op'),
             'sent': {str(k): v for k, v in res.get('sent', {}).items()},
             'events': res.get('events'), 'exc': res.get('exc'),
             'exc_tb': res.get('exc_tb'), 'errors': res.get('errors'),
             'outstanding': {s: dict(v) for s, v in self.out.items()}}
        if extra:
            w.update(extra)
        return w

    def fail(self, what, res, extra=None):
        self.failed = True
        w = self.witness(res, extra)
        self.ctx.violation(classify(w), what, w)

    def drop_sid(self, sid, key=None):
        gone = self.out.pop(sid, None) or {}
        self.used.pop(sid, None)
        if key is not None and gone:
            # ids that were outstanding when the session ended: a late ACK
            # bearing one of them (same transport, same namespace) must not
            # invoke anything
            self.ended.setdefault(key, set()).update(gone)

    def pick_ack_id(self, sid, T, ns):
        """Returns (id, class)."""
        rng = self.rng
        mine = self.out.get(sid, {}) if sid else {}
        r = rng.random()
        if not sid and self.ended.get((T, ns)) and r < 0.7:
            return rng.choice(sorted(self.ended[(T, ns)])), 'ended_session'
        if r > 0.96:
            # an acknowledgement that carries no id at all
            return None, 'noid'
        if mine and r < 0.4:
            return rng.choice(sorted(mine)), 'correct'
        if r < 0.5 and sid and self.used.get(sid):
            return rng.choice(sorted(self.used[sid])), 'duplicate'
        if r < 0.6:
            return 0, 'zero'
        if r < 0.8:
            # outstanding for somebody else but not for me
            others = sorted({i for s, d in self.out.items() if s != sid
                             for i in d if i not in mine})
            if others:
                return rng.choice(others), 'foreign'
        top = max(list(mine) + list(self.used.get(sid, [])) + [0])
        return top + rng.choice([1, 5, 1000, 10**15]), 'never_issued'

    def after_id0(self, sid):
        return sid in self.id0_acked

    # ---------------------------------------------------------------- ops
    def do_emit_cb(self):
        rng = self.rng
        T, ns = rng.choice(sorted(self.conn))
        sid = self.conn[(T, ns)]
        self.tok += 1
        tok = self.tok
        data = gen.gen_payload_arg(rng, True)
        cb = 'co' if (self.kind == 'async' and rng.random() < 0.5) else 'fn'
        if rng.random() < 0.12:
            # an application callback that fails: the other outstanding
            # acknowledgements of the client are not affected by it
            cb = 'raise_co' if cb == 'co' else 'raise'
            self.raising.add(tok)
        op = ['emit', tok, sid, None, ns if rng.random() < 0.8 or ns != '/'
              else None, cb, data]
        self.ops.append(op)
        res = self.r.step(op)
        if res.get('exc') or res.get('errors'):
            return self.fail('emit with callback raised', res,
                             {'after_id0_ack': self.after_id0(sid)})
        pk = [p for p in res['sent'].get(T, [])
              if p['type'] in (R.EVENT, R.BINARY_EVENT)]
        if len(pk) != 1 or len(res['sent']) != 1:
            return self.fail('emit with callback to one client sent %r'
                             % res['sent'], res)
        p = pk[0]
        if p['id'] is None or isinstance(p['id'], bool) or \
                not isinstance(p['id'], int):
            return self.fail('event for an emit with callback carries no id',
                             res)
        mine = self.out.setdefault(sid, {})
        self.ctx.count('ids_checked_unique')
        if p['id'] in mine:
            return self.fail('ack id %r reused while still outstanding for '
                             'the same client' % p['id'], res)
        if p['id'] in self.used.get(sid, ()):
            # "acknowledgements with an already used id are ignored" can only
            # hold if an id is never issued twice on one connection: a
            # repeated (or late) ACK of the earlier event would complete
            # this callback with the earlier arguments
            return self.fail('ack id %r was issued again on the same client '
                             'connection after it had been used: a repeated '
                             'acknowledgement of the earlier event would '
                             'complete this callback' % p['id'], res)
        mine[p['id']] = tok
        want = ['tok%d' % tok] + gen.expected_args(data)
        if p['nsp'] != ns or not R.deep_eq(p['data'], want):
            return self.fail('emitted event differs from what was asked',
                             res)

    def do_ack(self):
        rng = self.rng
        ctx = self.ctx
        if rng.random() < 0.85 and self.conn:
            T, ns = rng.choice(sorted(self.conn))
        else:
            T = rng.choice(self.open_T)
            ns = rng.choice(NAMESPACES)
        sid = self.conn.get((T, ns))
        aid, cls = self.pick_ack_id(sid, T, ns)
        if self.cfg['serializer'] == 'msgpack' and aid is not None and \
                aid >= 2**63:
            aid = 2**62
        args = gen.gen_args(rng, True, 3, maxn=3)
        op = ['ack', T, ns, aid, args]
        self.ops.append(op)
        res = self.r.step(op)
        cbs = [e for e in res['events'] if e[0] == 'callback']
        tok = self.out.get(sid, {}).get(aid) if sid else None
        extra = {'ack_id': aid, 'ack_class': cls,
                 'after_id0_ack': self.after_id0(sid)}
        if aid == 0 and sid:
            self.id0_acked.add(sid)
        if tok in self.raising and res.get('errors'):
            # the callback's own exception reaches the log, nothing else
            res['errors'] = [e for e in res['errors']
                             if e['exc'] != 'Injected']
            ctx.count('acks_with_raising_callback')
        if res.get('exc') or res.get('errors'):
            extra['id0_symptom'] = True
            return self.fail('an ACK (%s id) was not handled without error: '
                             '%s' % (cls, (res.get('errors') or [{}])[0].get(
                                 'exc') or res.get('exc')), res, extra)
        if res['sent']:
            return self.fail('an ACK caused packets to be sent', res, extra)
        ctx.count('acks_judged')
        ctx.count('acks_' + cls)
        if tok == 'call':
            # late acknowledgement of a call() that already timed out
            if cbs:
                return self.fail('late ACK of a timed-out call() invoked an '
                                 'application callback', res, extra)
            del self.out[sid][aid]
            self.used.setdefault(sid, set()).add(aid)
        elif tok is not None:
            if len(cbs) != 1 or cbs[0][1] != tok or \
                    not R.deep_eq(cbs[0][2], args):
                return self.fail('callback for token %r: invocations %r, '
                                 'expected once with %r' % (tok, cbs, args),
                                 res, extra)
            if tok in self.fired:
                return self.fail('callback invoked twice', res, extra)
            self.fired.add(tok)
            del self.out[sid][aid]
            self.used.setdefault(sid, set()).add(aid)
            ctx.count('callbacks_checked')
        elif cbs:
            return self.fail('an ACK with a %s id invoked a callback: %r'
                             % (cls, cbs), res, extra)
        ctx.case((self.kind, self.cfg['serializer'], cls, bool(sid),
                  R.has_bytes(args), len(args) if len(args) < 3 else 3,
                  len(self.out.get(sid, {})) if sid else -1),
                 {'ack': op, 'class': cls, 'callback_expected':
                  tok is not None} if cls != 'correct' or
                 R.has_bytes(args) else None)

    def do_binary_ack_across_sibling_end(self):
        """A client connected to two namespaces acknowledges on one of them
        with byte strings (header frame + attachments); between the frames
        the server disconnects the client's session on the *other* namespace.
        The acknowledgement is still complete: the callback runs once with
        the acknowledged values."""
        rng, ctx, r = self.rng, self.ctx, self.r
        if self.cfg['serializer'] != 'default':
            return self.do_ack()
        cands = []
        for (T, ns), sid in sorted(self.conn.items()):
            toks = [(aid, tok) for aid, tok in sorted(
                self.out.get(sid, {}).items()) if tok != 'call']
            sib = [n2 for (T2, n2) in self.conn if T2 == T and n2 != ns]
            if toks and sib:
                cands.append((T, ns, sid, toks, sib))
        if not cands:
            return self.do_ack()
        T, ns, sid, toks, sib = rng.choice(cands)
        aid, tok = rng.choice(toks)
        ns2 = rng.choice(sib)
        sid2 = self.conn[(T, ns2)]
        args = [b'blob-%d' % tok, {'x': [b'y', tok]}]
        text, atts = R.encode(R.ACK, ns, aid, args)
        frames = [text] + atts
        cut = rng.randint(1, len(frames) - 1)
        op = ['binary_ack_across_sibling_end', T, ns, aid, ns2, cut]
        self.ops.append(op)
        for f in frames[:cut]:
            res = r.step(['raw', T, f])
            if res.get('errors') or [e for e in res['events']
                                     if e[0] == 'callback']:
                return self.fail('an incomplete binary ACK had an effect',
                                 res)
        res = r.step(['sdisc', sid2, ns2])
        if [e for e in res['events'] if e[0] == 'callback']:
            return self.fail('a callback was invoked by a disconnect', res)
        self.drop_sid(self.conn.pop((T, ns2)))
        cbs, errs = [], []
        for f in frames[cut:]:
            res = r.step(['raw', T, f])
            cbs += [e for e in res['events'] if e[0] == 'callback']
            errs += res.get('errors') or []
        if tok in self.raising:
            errs = [e for e in errs if e['exc'] != 'Injected']
        ctx.count('binary_acks_across_a_sibling_namespace_end')
        if errs:
            return self.fail('the rest of a binary ACK that straddled the '
                             'server-side end of the client\'s other '
                             'namespace was not handled without error: %s'
                             % errs[0]['exc'], res)
        if len(cbs) != 1 or cbs[0][1] != tok or \
                not R.deep_eq(cbs[0][2], args) or tok in self.fired:
            return self.fail('a binary ACK on %r straddled the server-side '
                             'disconnect of the same client\'s %r session: '
                             'callback invocations %r, expected once with '
                             'the acknowledged values' % (ns, ns2, cbs), res)
        self.fired.add(tok)
        del self.out[sid][aid]
        self.used.setdefault(sid, set()).add(aid)
        ctx.count('callbacks_checked')

    def do_dup_ack_race(self):
        """The same ACK arrives twice, the second one while the callback
        started by the first is still running (two polling POSTs in flight:
        two tasks on the asyncio server, two threads on the threaded one).
        The callback must still run exactly once."""
        import threading
        import time
        from engineio import packet as eio_packet
        rng, ctx, r = self.rng, self.ctx, self.r
        d = r.d
        T, ns = rng.choice(sorted(self.conn))
        sid = self.conn[(T, ns)]
        t = r.T[T]
        self.tok += 1
        tok = self.tok
        calls = []
        started = threading.Event()
        if d.is_async:
            async def slow(*args):
                calls.append(list(args))
                await asyncio.sleep(0.5)
        else:
            def slow(*args):
                calls.append(list(args))
                started.set()
                time.sleep(0.03)
        op = ['dup_ack_race', tok, sid, ns]
        self.ops.append(op)
        res = {'op': op, '_ev0': len(r.events)}
        try:
            d.api('emit', 'tok%d' % tok, {'t': tok}, to=sid, namespace=ns,
                  callback=slow)
        except Exception as e:
            res['exc'] = type(e).__name__
        r._collect(res)
        if res.get('exc') or res.get('errors'):
            return self.fail('emit with callback raised', res,
                             {'after_id0_ack': self.after_id0(sid)})
        pk = [p for p in res['sent'].get(T, [])
              if p['type'] in (R.EVENT, R.BINARY_EVENT)]
        if len(pk) != 1:
            return self.fail('emit with callback sent %r' % res['sent'], res)
        aid = pk[0]['id']
        if aid in self.out.get(sid, {}):
            return self.fail('ack id %r reused while still outstanding for '
                             'the same client' % aid, res)
        # (half of the time an acknowledgement with attachments: several
        # frames, the callback starts when the last one has arrived)
        ackargs = ['a', tok] + ([b'\x00\x01', {'k': b'z'}]
                                if rng.random() < 0.5 else [])
        if d.serializer == 'msgpack':
            fr = [R.msgpack_encode(R.ACK, ns, aid, ackargs)]
        else:
            text, atts = R.encode(R.ACK, ns, aid, ackargs)
            fr = [text] + atts
        op.append(len(fr))
        res = {'op': op, '_ev0': len(r.events)}
        if d.is_async:
            async def one():
                for f in fr:
                    await t.socket.receive(eio_packet.Packet(
                        eio_packet.MESSAGE, f))

            async def go():
                await asyncio.gather(one(), one())
            d.run(go())
        else:
            old = d.autojoin
            d.autojoin = False

            def feed(second):
                if second:
                    # while the callback started by the first is running
                    started.wait(5)
                for f in fr:
                    t.socket.receive(eio_packet.Packet(eio_packet.MESSAGE,
                                                       f))
            ths = [threading.Thread(target=feed, args=(dl,), daemon=True)
                   for dl in (False, True)]
            for th in ths:
                th.start()
            for th in ths:
                th.join(10)
            d.autojoin = old
            d.join()
        r._collect(res)
        ctx.count('duplicate_ack_races')
        if res.get('errors'):
            return self.fail('duplicate ACK racing with its running callback '
                             'was not handled without error', res)
        if len(calls) != 1 or not R.deep_eq(calls[0], ackargs):
            return self.fail('callback invoked %d times when its ACK arrived '
                             'twice, the second time while the callback was '
                             'still running' % len(calls), res,
                             {'invocations': calls})
        self.used.setdefault(sid, set()).add(aid)
        ctx.count('duplicate_ack_races_%d_frames' % min(len(fr), 2))
        ctx.case((self.kind, 'dup_ack_race', self.cfg['serializer'],
                  len(fr)),
                 {'op': op, 'invocations': calls})

    def do_disconnect(self):
        rng = self.rng
        T, ns = rng.choice(sorted(self.conn))
        sid = self.conn[(T, ns)]
        k = rng.random()
        if k < 0.4:
            op = ['cdisc', T, ns]
        elif k < 0.8:
            op = ['sdisc', sid, ns]
        else:
            op = ['lose', T]
        # some disconnect handlers fail: the session has ended all the same
        faulted = rng.random() < 0.3
        if faulted:
            self.r.disconnect_script = ['exc'] * 4
            op = op + ['handler raises']
        self.ops.append(op)
        res = self.r.step(op[:3] if faulted else op)
        self.r.disconnect_script = []
        if faulted:
            self.r.d.clear_errors()
            self.ctx.count('disconnects_with_failing_handler')
        if [e for e in res['events'] if e[0] == 'callback']:
            return self.fail('a callback was invoked by a disconnect', res)
        if op[0] == 'lose':
            self.open_T.remove(T)
            for key in [k2 for k2 in self.conn if k2[0] == T]:
                self.drop_sid(self.conn.pop(key))
        else:
            self.drop_sid(self.conn.pop((T, ns)), (T, ns))
            # (the transport stays open: late ACKs of the ended session and
            # a new CONNECT of the namespace are possible)
        self.ctx.count('disconnects')

    # ------------------------------------------------------------- call()
    def do_call(self):
        rng = self.rng
        ctx = self.ctx
        T, ns = rng.choice(sorted(self.conn))
        sid = self.conn[(T, ns)]
        self.tok += 1
        tok = self.tok
        data = gen.gen_payload_arg(rng, True)
        timeout = rng.choice([1, 5, 60, 0.5, 3600])
        # 'prompt_ack': the acknowledgement is handled before the send of
        # the event has returned to call() (a prompt client, a slow send, a
        # transport that answers from the send path)
        script = rng.choice(['ack', 'ack', 'ack', 'timeout',
                             'disconnect_timeout', 'foreign_ack_timeout',
                             'wrongid_then_ack', 'ack_after_timeout',
                             'lose_timeout', 'prompt_ack', 'prompt_ack'])
        args = gen.gen_args(rng, True, 3, maxn=3)
        op = ['call', tok, sid, ns, data, timeout, script, args]
        self.ops.append(op)
        r = self.r
        t = r.T[T]
        res = {'op': op, '_ev0': len(r.events)}
        state = {'id': None, 'waits': []}
        other = [k for k in sorted(self.conn) if k != (T, ns)]

        def observe():
            pk = [p for p in t.drain()
                  if p['type'] in (R.EVENT, R.BINARY_EVENT)]
            if len(pk) == 1:
                state['id'] = pk[0]['id']
                state['pkt'] = pk[0]
            return pk

        def actions():
            """What happens while call() waits.  Returns list of frames to
            feed as (transport, ptype, ns, id, args) or ('lose', T) /
            ('cdisc', T, ns)."""
            cid = state['id']
            if script == 'ack':
                return [(t, R.ACK, ns, cid, args)]
            if script == 'timeout':
                return []
            if script == 'disconnect_timeout':
                return [('cdisc', t, ns), (t, R.ACK, ns, cid, args)]
            if script == 'lose_timeout':
                return [('lose', t)]
            if script == 'foreign_ack_timeout':
                for T2, ns2 in other:
                    if cid not in self.out.get(self.conn[(T2, ns2)], {}):
                        return [(r.T[T2], R.ACK, ns2, cid, args)]
                return []
            if script == 'wrongid_then_ack':
                return [(t, R.ACK, ns, cid + 7, ['wrong']),
                        (t, R.ACK, ns, cid, args)]
            if script == 'ack_after_timeout':
                return []
            return []
        expect_result = script in ('ack', 'wrongid_then_ack', 'prompt_ack')
        kw = dict(to=sid, namespace=ns, timeout=timeout)
        undo_send = []
        if script == 'prompt_ack':
            eio = r.d.eio
            for meth in ('send', 'send_packet'):
                orig = getattr(eio, meth)
                if r.d.is_async:
                    async def wrapped(*a, _o=orig, **k):
                        ret = await _o(*a, **k)
                        if not state.get('prompt'):
                            observe()
                            if state['id'] is not None:
                                state['prompt'] = True
                                await self.feed_async(
                                    (t, R.ACK, ns, state['id'], args))
                        return ret
                else:
                    def wrapped(*a, _o=orig, **k):
                        ret = _o(*a, **k)
                        if not state.get('prompt'):
                            observe()
                            if state['id'] is not None:
                                state['prompt'] = True
                                self.feed_sync(
                                    (t, R.ACK, ns, state['id'], args))
                        return ret
                setattr(eio, meth, wrapped)
                undo_send.append((eio, meth))
        if r.d.is_async:
            loop = r.d.loop

            async def go():
                t0 = loop.time()
                task = asyncio.ensure_future(r.sio.call('tok%d' % tok, data,
                                                        **kw))
                await settle(loop, horizon=0)
                observe()
                if state['id'] is None:
                    task.cancel()
                    return ('noemit', None, 0)
                for a in actions():
                    await self.feed_async(a)
                    await settle(loop, horizon=0)
                if not task.done():
                    # let the timeout expire (virtual time)
                    await asyncio.sleep(timeout + 0.001)
                    await settle(loop, horizon=0)
                    if not task.done():
                        state['late'] = True
                try:
                    v = await task
                    out = ('ok', v, loop.time() - t0)
                except BaseException as e:
                    out = ('exc', e, loop.time() - t0)
                if script == 'ack_after_timeout':
                    await self.feed_async((t, R.ACK, ns, state['id'], args))
                    await settle(loop, horizon=0)
                return out
            status, val, elapsed = r.d.run(go())
            if status == 'exc' and type(val).__name__ == 'TimeoutError':
                ctx.count('call_timeouts_observed')
            if state.get('late'):
                r._collect(res)
                return self.fail('call(timeout=%r) had not timed out after '
                                 '%r virtual seconds' % (timeout,
                                                         timeout + 0.001),
                                 res)
        else:
            def on_wait(ev, tmo):
                state['waits'].append(tmo)
                observe()
                if state['id'] is None:
                    return
                for a in actions():
                    self.feed_sync(a)
            orig_create = r.d.eio.create_event
            r.d.eio.create_event = lambda *a, **k: VirtualEvent(
                on_wait=on_wait)
            old_join = r.d.autojoin
            r.d.autojoin = False
            try:
                try:
                    v = r.sio.call('tok%d' % tok, data, **kw)
                    status, val = 'ok', v
                except BaseException as e:
                    status, val = 'exc', e
                if state['id'] is None:
                    status = 'noemit'
                if script == 'ack_after_timeout' and state['id'] is not None:
                    self.feed_sync((t, R.ACK, ns, state['id'], args))
            finally:
                r.d.eio.create_event = orig_create
                r.d.autojoin = old_join
                r.d.join()
            if state['waits'] and state['waits'] != [timeout]:
                r._collect(res)
                return self.fail('call() waited with timeouts %r, expected '
                                 '[%r]' % (state['waits'], timeout), res)
            if status == 'exc' and type(val).__name__ == 'TimeoutError':
                ctx.count('call_timeouts_observed')
        for obj, meth in undo_send:
            obj.__dict__.pop(meth, None)
        r._collect(res)
        # bookkeeping of model: disconnections performed by the script
        if script == 'disconnect_timeout':
            self.drop_sid(self.conn.pop((T, ns)))
        if script == 'lose_timeout':
            self.open_T.remove(T)
            for key in [k2 for k2 in self.conn if k2[0] == T]:
                self.drop_sid(self.conn.pop(key))
        extra = {'call_status': status, 'call_value': val,
                 'after_id0_ack': self.after_id0(sid)}
        if res.get('errors'):
            return self.fail('exception escaped during call(): %s' %
                             res['errors'][0]['exc'], res, extra)
        if status == 'noemit':
            return self.fail('call() did not emit exactly one event with an '
                             'id', res, extra)
        if state['id'] in self.out.get(sid, {}):
            return self.fail('call() reused an outstanding ack id', res,
                             extra)
        p = state['pkt']
        want = ['tok%d' % tok] + gen.expected_args(data)
        if p['nsp'] != ns or not R.deep_eq(p['data'], want):
            return self.fail('call() emitted a different event', res, extra)
        ctx.count('calls_judged')
        ctx.count('call_' + script)
        if expect_result:
            shaped = None if len(args) == 0 else (
                args[0] if len(args) == 1 else tuple(args))
            if status != 'ok' or not R.deep_eq(val, shaped) or (
                    len(args) > 1 and not isinstance(val, tuple)):
                return self.fail('call() returned %r (%s), expected %r' % (
                    val, status, shaped), res, extra)
            self.used.setdefault(sid, set()).add(state['id'])
        else:
            if status != 'exc' or type(val).__name__ != 'TimeoutError' or \
                    type(val).__module__ != 'socketio.exceptions':
                return self.fail('call() without acknowledgement: %s %r, '
                                 'expected socketio TimeoutError' % (
                                     status, val), res, extra)
            # the id stays outstanding for a still-connected client
            if (T, ns) in self.conn and script != 'ack_after_timeout':
                self.out.setdefault(sid, {})[state['id']] = 'call'
            elif script == 'ack_after_timeout':
                self.used.setdefault(sid, set()).add(state['id'])
        ctx.case((self.kind, 'call', script, len(args) if len(args) < 3
                  else 3, self.cfg['serializer'], timeout),
                 {'call': op, 'result': repr(val)[:100]})

    def feed_sync(self, a):
        if a[0] == 'cdisc':
            a[1].send_packet(R.DISCONNECT, a[2])
        elif a[0] == 'lose':
            a[1].lose()
        else:
            a[0].send_packet(a[1], a[2], a[3], a[4])

    async def feed_async(self, a):
        from engineio import packet as eio_packet
        d = self.r.d

        async def feed(t, ptype, ns, pid, data):
            if d.serializer == 'msgpack':
                frames = [R.msgpack_encode(ptype, ns, pid, data)]
            else:
                text, atts = R.encode(ptype, ns, pid, data)
                frames = [text] + atts
            for f in frames:
                await t.socket.receive(eio_packet.Packet(
                    eio_packet.MESSAGE, f))
        if a[0] == 'cdisc':
            await feed(a[1], R.DISCONNECT, a[2], None, None)
        elif a[0] == 'lose':
            await a[1].socket.close(wait=False, abort=True,
                                    reason=d.eio.reason.TRANSPORT_ERROR)
            d._reap(a[1])
        else:
            await feed(*a)

    # ---------------------------------------------------------------- step
    def step(self):
        rng = self.rng
        r = rng.random()
        if not self.open_T or r < 0.04:
            self.nT += 1
            self.open_T.append(self.nT)
            op = ['open', self.nT]
            self.ops.append(op)
            self.r.step(op)
            return
        if len(self.conn) < 2 or r < 0.14:
            T = rng.choice(self.open_T)
            ns = rng.choice(self.cfg['served'])
            op = ['connect', T, ns, None]
            self.ops.append(op)
            res = self.r.step(op)
            acc = [p for p in res.get('sent', {}).get(T, [])
                   if p['type'] == R.CONNECT]
            if acc:
                self.conn[(T, ns)] = acc[0]['data']['sid']
            return
        if r < 0.20:
            return self.do_disconnect()
        if r > 0.97:
            return self.do_refused_with_callback()
        if r < (0.215 if self.kind == 'async' else 0.204):
            # (real sleeps on the threaded server: kept rare)
            return self.do_dup_ack_race()
        if r < 0.235:
            return self.do_binary_ack_across_sibling_end()
        if r < 0.50:
            return self.do_emit_cb()
        if r < 0.62:
            return self.do_call()
        return self.do_ack()

    def close(self):
        self.r.close()


def run_case(ctx, k):
    rng = ctx.case_rng(k)
    h = History(ctx, rng, 'sync' if k % 2 == 0 else 'async', k)
    try:
        for _ in range(rng.choice([20, 40, 80])):
            h.step()
            if h.failed:
                break
    finally:
        h.close()


def run(ctx):
    ctx.rule = ('histories mixing emit-with-callback / call() to individual '
                'clients with ACK/BINARY_ACK packets from any client '
                'carrying correct, duplicate, never-issued, zero and foreign '
                'ids, with disconnects and reconnects in between; call() '
                'with scripted orders of {ACK, timeout, disconnect, loss} '
                'through VirtualEvent / VirtualLoop; distinct = (server '
                'kind, serializer, id class, connected, binary, argc, '
                '#outstanding) or (call script, argc, timeout)')
    ctx.assumptions = [
        'callbacks on emits addressed to more than one client are excluded',
        'timeouts observed through the wait primitives (virtual time)']
    ctx.require('acks_judged', 100)
    ctx.require('callbacks_checked', 30)
    ctx.require('ids_checked_unique', 50)
    ctx.require('calls_judged', 20)
    ctx.require('call_timeouts_observed', 5)
    ctx.require('duplicate_ack_races', 5)
    ctx.require('refused_with_callback_outstanding', 5)
    ctx.require('binary_acks_across_a_sibling_namespace_end', 5)
    ctx.require('duplicate_ack_races_2_frames', 2)
    ctx.require('acks_with_raising_callback', 5)
    for cls in ('correct', 'duplicate', 'zero', 'foreign', 'never_issued',
                'noid', 'ended_session'):
        ctx.require('acks_' + cls, 3)
    ctx.require('disconnects_with_failing_handler', 5)
    # two threads emitting with callbacks at the same time (handlers run in
    # a thread each): distinct ids, each callback once with its own ACK
    from checks import ackid_sched
    ctx.require('ack_id_race_schedules', 30)
    ackid_sched.run_part(ctx, 'server', (ctx.budget or 30) * 0.12)
    # the same acknowledgement handled by two threads at the same time
    ctx.require('duplicate_ack_schedules', 30)
    ackid_sched.run_dup_ack_part(ctx, 'server', (ctx.budget or 30) * 0.08)
    # call() waiting in one thread, its acknowledgement handled in another
    ctx.require('call_wakeup_schedules', 30)
    ackid_sched.run_call_part(ctx, (ctx.budget or 30) * 0.1)
    k = 0
    while not ctx.out_of_time() and not ctx.too_many_violations():
        run_case(ctx, k)
        ctx.count('histories')
        k += 1


def replay(ctx, w):
    if w['witness'].get('part') in ('ack_id_race', 'call_wakeup',
                                    'dup_ack_race'):
        from checks import ackid_sched
        return ackid_sched.replay(ctx, w)
    run_case(ctx, w['witness']['case_index'])
