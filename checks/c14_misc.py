"""C14 parts N (class-based namespaces) and Q (SimpleClient twins)."""
import asyncio
import inspect
import json

from vlib import core
from vlib import eioclient as E
from vlib import gen
from vlib import refcodec as R
from vlib.vtime import settle

SERVER_HELPERS = ['emit', 'send', 'call', 'enter_room', 'leave_room',
                  'close_room', 'rooms', 'get_session', 'save_session',
                  'session', 'disconnect']
CLIENT_HELPERS = ['emit', 'send', 'call', 'disconnect']
VALUES = ['v-str', 0, '', False, None, 7, ['l'], {'d': 1}, 2.5]


def stable(x):
    return json.dumps(core.jsonable(x), sort_keys=True, default=repr)


# ---------------------------------------------------------------- part N
def _drive(x, loop):
    if asyncio.iscoroutine(x):
        return loop.run_until_complete(x)
    return x


def part_namespace(ctx, k):
    import socketio
    rng = ctx.case_rng(k)
    loop = asyncio.new_event_loop()
    try:
        for side, helpers, pair in (
                ('server', SERVER_HELPERS,
                 (socketio.Namespace, socketio.AsyncNamespace)),
                ('client', CLIENT_HELPERS,
                 (socketio.ClientNamespace, socketio.AsyncClientNamespace))):
            reg = rng.choice(['/reg', '/', '/x/y'])
            for helper in helpers:
                sigs = [inspect.signature(getattr(c, helper)) for c in pair]
                plist = [[(p.name, repr(p.default), str(p.kind))
                          for p in s.parameters.values()] for s in sigs]
                if plist[0] != plist[1]:
                    only = [sorted(set(n for n, _, _ in a) -
                                   set(n for n, _, _ in b))
                            for a, b in ((plist[0], plist[1]),
                                         (plist[1], plist[0]))]
                    key = None
                    if pair[0].__name__ == 'ClientNamespace' and \
                            helper == 'send' and only == [['room'], []]:
                        key = 'clientnamespace-send-vestigial-room'
                    ctx.count('namespace_signature_differences')
                    if ctx.violation(key, '%s.%s and its asyncio twin have '
                                     'different signatures: %s vs %s' % (
                                         pair[0].__name__, helper, sigs[0],
                                         sigs[1]),
                                     {'part': 'namespace', 'case_index': k,
                                      'threaded': plist[0],
                                      'asyncio': plist[1]}):
                        return
                common = set(sigs[0].parameters) & set(sigs[1].parameters)
                params = [p for p in sigs[0].parameters.values()
                          if p.name != 'self' and p.name in common]
                req = [p for p in params
                       if p.default is inspect.Parameter.empty]
                opt = [p for p in params
                       if p.default is not inspect.Parameter.empty]
                for _ in range(3):
                    args = [rng.choice(VALUES) for _ in req]
                    kw = {p.name: rng.choice(VALUES) for p in opt
                          if rng.random() < 0.5}
                    seen = []
                    for cls in pair:
                        calls = []

                        class Target:
                            pass
                        tgt = Target()

                        def rec(*a, _calls=calls, _co=(cls is pair[1]),
                                **kws):
                            _calls.append([list(a), dict(kws)])
                            if _co:
                                async def co():
                                    return 'RESULT'
                                return co()
                            return 'RESULT'
                        setattr(tgt, helper, rec)
                        ns = cls(reg)
                        if side == 'server':
                            ns._set_server(tgt)
                        else:
                            ns._set_client(tgt)
                        try:
                            ret = _drive(getattr(ns, helper)(*args, **kw),
                                         loop)
                            out = {'ret': ret if isinstance(
                                ret, (str, int, type(None))) else
                                type(ret).__name__}
                        except Exception as e:
                            out = {'exc': type(e).__name__}
                        out['calls'] = calls
                        seen.append(out)
                    ctx.count('namespace_calls_compared')
                    if stable(seen[0]) != stable(seen[1]):
                        ctx.violation(
                            None, '%s.%s forwards differently from its '
                            'asyncio twin' % (pair[0].__name__, helper),
                            {'part': 'namespace', 'case_index': k,
                             'helper': helper, 'args': args, 'kwargs': kw,
                             'threaded': seen[0], 'asyncio': seen[1]})
                        return
                    ctx.case(('N', side, helper, tuple(sorted(kw))),
                             {'part': 'namespace', 'helper': helper,
                              'kwargs': kw, 'forwarded': seen[0]})
            # dispatch of trigger_event to on_<event>
            for ev, args in (('foo', [1, 'a']), ('missing', [2]),
                             ('connect', ['sid', {}]), ('bar', [])):
                seen = []
                for cls in pair:
                    log = []
                    co = cls is pair[1]
                    body = {}
                    if co:
                        async def on_foo(self, *a, _log=log):
                            _log.append(['foo', list(a)])
                            return 'foo-ret'

                        def on_bar(self, *a, _log=log):
                            _log.append(['bar', list(a)])
                            return 'bar-ret'
                    else:
                        def on_foo(self, *a, _log=log):
                            _log.append(['foo', list(a)])
                            return 'foo-ret'

                        def on_bar(self, *a, _log=log):
                            _log.append(['bar', list(a)])
                            return 'bar-ret'
                    body['on_foo'] = on_foo
                    body['on_bar'] = on_bar
                    ns = type('N', (cls,), body)(reg)
                    try:
                        ret = _drive(ns.trigger_event(ev, *args), loop)
                        out = {'ret': ret if isinstance(
                            ret, (str, int, type(None))) else
                            type(ret).__name__}
                    except Exception as e:
                        out = {'exc': type(e).__name__}
                    out['log'] = log
                    seen.append(out)
                ctx.count('namespace_calls_compared')
                if stable(seen[0]) != stable(seen[1]):
                    ctx.violation(
                        None, '%s.trigger_event(%r) behaves differently '
                        'from its asyncio twin' % (pair[0].__name__, ev),
                        {'part': 'namespace', 'case_index': k, 'event': ev,
                         'threaded': seen[0], 'asyncio': seen[1]})
                    return
    finally:
        loop.close()


# ---------------------------------------------------------------- part Q
class QSrv:
    def __init__(self, run):
        self.run = run
        self.n = 0

    def on_packet(self, h, pkt):
        if pkt['type'] == R.CONNECT:
            plan = self.run.plan
            beh = plan.pop(0) if plan else 'accept'
            if beh == 'accept':
                self.n += 1
                h.deliver(R.CONNECT, pkt['nsp'], None,
                          {'sid': 'srv-sid-%d' % self.n})
            elif beh == 'refuse':
                h.deliver(R.CONNECT_ERROR, pkt['nsp'], None,
                          {'message': 'no'})


class SimpleRun:
    def __init__(self, kind, cfg):
        import socketio
        self.kind = kind
        self.plan = []
        ckw = {'reconnection': cfg['reconnection'],
               'reconnection_attempts': cfg['attempts'],
               'reconnection_delay': 0.1, 'reconnection_delay_max': 0.5,
               'randomization_factor': 0}
        self.h = E.make_client(kind, script=QSrv(self), client_kw=ckw)
        h = self.h
        if kind == 'async':
            h.horizon = 200.0

            class SCli(socketio.AsyncSimpleClient):
                client_class = staticmethod(lambda *a, **k: h.c)

            async def mk():
                return SCli()
            self.sc = h.run(mk())
        else:
            class SCli(socketio.SimpleClient):
                client_class = staticmethod(lambda *a, **k: h.c)
            self.sc = SCli()
            run = self

            class BEvent(E.HEvent):
                """wait() without a timeout that nothing will ever satisfy:
                a real threading.Event would block for ever."""

                def wait(self_, timeout=None):
                    r = E.HEvent.wait(self_, timeout)
                    if not r and timeout is None:
                        raise run.Blocked()
                    return r
            self.sc.connected_event = BEvent(h, 'connected_event')
            self.sc.input_event = BEvent(h, 'input_event')
        self.mark = 0
        # emit()/call() of the simple clients retry in a loop that swallows
        # every SocketIOError; when the underlying client can never succeed
        # the loop spins for ever on both implementations.  The harness ends
        # such a step after 50 rounds and reports it as the step's outcome.
        self.rounds = 0
        orig = h.c.emit
        run = self

        class Spin(Exception):
            pass

        class Blocked(Exception):
            pass
        self.Spin = Spin
        self.Blocked = Blocked
        if kind == 'async':
            async def emit(*a, **kw):
                run.rounds += 1
                if run.rounds > 50:
                    raise Spin()
                return await orig(*a, **kw)
        else:
            def emit(*a, **kw):
                run.rounds += 1
                if run.rounds > 50:
                    raise Spin()
                return orig(*a, **kw)
        h.c.emit = emit

    def call(self, name, *a, **kw):
        h = self.h
        if self.kind == 'async':
            # an await that nothing will ever complete ends at a far virtual
            # deadline and is reported as the step's outcome
            async def bounded():
                try:
                    return await asyncio.wait_for(
                        getattr(self.sc, name)(*a, **kw), 5000)
                except asyncio.TimeoutError:
                    raise self.Blocked()
            return h.run(bounded())
        return h.call(getattr(self.sc, name), *a, **kw)

    def step(self, op):
        h = self.h
        res = {'op': op}
        self.rounds = 0
        try:
            kind = op[0]
            if kind == 'connect':
                self.plan = list(op[3])
                kw = {'namespace': op[1], 'wait_timeout': 1}
                if op[2] is not None:
                    kw['auth'] = op[2]
                res['ret'] = self.call('connect', 'http://h', **kw)
            elif kind == 'srv':
                h.server_send(op[1], op[2], op[3], op[4])
            elif kind == 'receive':
                res['ret'] = self.call('receive', timeout=op[1])
            elif kind == 'emit':
                res['ret'] = self.call('emit', op[1], op[2])
            elif kind == 'call':
                res.update(self.do_call(op))
            elif kind == 'lose':
                h.plan = [list(o) if isinstance(o, list) else o
                          for o in op[1]]
                h.lose()
            elif kind == 'server_close':
                h.server_close()
            elif kind == 'disconnect':
                res['ret'] = self.call('disconnect')
            elif kind == 'sid':
                res['ret'] = self.sc.sid
            else:
                raise ValueError(op)
        except self.Spin:
            res['exc'] = 'SpinsForEver'
        except self.Blocked:
            res['exc'] = 'BlocksForEver'
        except Exception as e:
            if not core.exc_in_repo(e) and type(e).__module__.split(
                    '.')[0] not in ('socketio', 'engineio'):
                raise
            res['exc'] = type(e).__name__
        sent = h.sent[self.mark:]
        self.mark = len(h.sent)
        res['sent'] = [[p['type'], p['nsp'], p['id'], p['data']]
                       for p in sent]
        res['state'] = [bool(self.sc.connected),
                        list(getattr(self.sc, 'input_buffer', []))]
        errs = h.all_errors()
        if errs:
            res['errors'] = sorted(e['exc'] or '' for e in errs)
            res['errors_raw'] = [dict(e, tb=(e.get('tb') or '')[-800:])
                                 for e in errs[:3]]
            h.clear_errors()
        return res

    def do_call(self, op):
        _, ev, data, timeout, script, args = op
        h = self.h
        ns = self.sc.namespace
        state = {}

        def reactions():
            sent = h.sent[self.mark:]
            pk = [p for p in sent if p['type'] in (R.EVENT, R.BINARY_EVENT)]
            if len(pk) != 1:
                return []
            if script == 'ack':
                return [(ns, pk[0]['id'], args)]
            return []
        if h.is_async:
            loop = h.loop

            async def go():
                task = asyncio.ensure_future(self.sc.call(ev, data,
                                                          timeout=timeout))
                await settle(loop, horizon=0)
                if script == 'ack_second':
                    # the first emission is never answered; whatever the
                    # client sends after its time-out is acknowledged
                    await asyncio.sleep(timeout + 0.001)
                    await settle(loop, horizon=0)
                    pk = [p for p in h.sent[self.mark:]
                          if p['type'] in (R.EVENT, R.BINARY_EVENT)]
                    if len(pk) >= 2:
                        h.deliver(R.ACK, ns, pk[-1]['id'], args)
                        await settle(loop, horizon=0)
                for n2, i2, a2 in reactions():
                    h.deliver(R.ACK, n2, i2, a2)
                    await settle(loop, horizon=0)
                if not task.done():
                    await asyncio.sleep(timeout + 0.001)
                    await settle(loop, horizon=0)
                    if not task.done():
                        task.cancel()
                        return {'exc': 'BlocksForEver'}
                try:
                    return {'ret': await task}
                except self.Spin:
                    return {'exc': 'SpinsForEver'}
                except Exception as e:
                    return {'exc': type(e).__name__}
            return h.run(go(), horizon=0)

        def idle(evt, tmo):
            if evt.label == 'call' and script == 'ack_second':
                state['waits'] = state.get('waits', 0) + 1
                if state['waits'] == 2:
                    pk = [p for p in h.sent[self.mark:]
                          if p['type'] in (R.EVENT, R.BINARY_EVENT)]
                    if len(pk) >= 2:
                        h.deliver(R.ACK, ns, pk[-1]['id'], args)
                        return True
                return False
            if evt.label != 'call' or state.get('reacted'):
                return False
            state['reacted'] = True
            rs = reactions()
            for n2, i2, a2 in rs:
                h.deliver(R.ACK, n2, i2, a2)
            return bool(rs)
        h.idle_hook = idle
        try:
            try:
                return {'ret': self.call('call', ev, data, timeout=timeout)}
            except self.Spin:
                return {'exc': 'SpinsForEver'}
            except Exception as e:
                if not core.exc_in_repo(e) and type(e).__module__.split(
                        '.')[0] not in ('socketio', 'engineio'):
                    raise
                return {'exc': type(e).__name__}
        finally:
            h.idle_hook = None

    def close(self):
        self.h.close()


def gen_simple_script(rng):
    cfg = {'reconnection': rng.random() < 0.5,
           'attempts': rng.choice([1, 2, 3])}
    ns = rng.choice(['/', '/', '/a'])
    ops = []
    tok = [0]
    connected = [False]

    def do_connect():
        plan = [rng.choice(['accept'] * 8 + ['refuse']) for _ in range(3)]
        ops.append(['connect', ns, rng.choice([None, {'t': 1}]), plan])
        if plan[0] == 'accept':
            connected[0] = True

    do_connect()
    for _ in range(rng.choice([8, 16, 30])):
        if not connected[0]:
            do_connect()
            continue
        r = rng.random()
        if r < 0.3:
            tok[0] += 1
            n = rng.randint(1, 3)
            for _ in range(n):
                ops.append(['srv', R.EVENT, rng.choice([ns, ns, ns, '/zz']),
                            rng.choice([None, None, 3]),
                            ['ev%d' % rng.randint(0, 2), tok[0]] +
                            gen.gen_args(rng, True, 2, maxn=2)])
                tok[0] += 1
        elif r < 0.6:
            ops.append(['receive', rng.choice([0.5, 1, 5, 0, 0])])
        elif r < 0.72:
            ops.append(['emit', 'ev%d' % rng.randint(0, 2),
                        rng.choice([None, 'd', [1, 2], {'k': tok[0]}])])
        elif r < 0.82:
            ops.append(['call', 'ev%d' % rng.randint(0, 2),
                        rng.choice([None, 'd', {'k': tok[0]}]),
                        rng.choice([0.5, 2]),
                        # an unanswered SimpleClient.call() re-emits for
                        # ever on both implementations (TimeoutError is a
                        # SocketIOError, which its retry loop swallows): not
                        # scripted
                        # ('ack_second': the first emission is not
                        # answered in time, the next one is)
                        rng.choice(['ack'] * 6 + ['ack_second']),
                        gen.gen_args(rng, True, 2, maxn=3)])
        elif r < 0.88:
            if cfg['reconnection']:
                plan = [rng.choice([['fail', 'refused'], 'ok'])
                        for _ in range(rng.randint(0, 4))]
                # the effort ends within the step; it fails iff the first
                # `attempts` outcomes are all failures
                outcomes = (plan + ['ok'] * 5)[:cfg['attempts']]
                if all(o != 'ok' for o in outcomes):
                    # the effort is given up.  The script ends here: after an
                    # unsuccessful effort the finished task stays in
                    # _reconnect_task (C10 known finding, both
                    # implementations), the next loss neither reconnects nor
                    # reports the final disconnect, and emit()/call() of
                    # either simple client then spin for ever
                    ops.append(['lose', plan])
                    break
            else:
                plan = []
                connected[0] = False
            ops.append(['lose', plan])
        elif r < 0.91:
            ops.append(['server_close'])
            connected[0] = False
        elif r < 0.95:
            ops.append(['disconnect'])
            connected[0] = False
        elif r < 0.97:
            ops.append(['srv', R.DISCONNECT, ns, None, None])
            connected[0] = False
        else:
            ops.append(['sid'])
    return cfg, ops


def part_simple(ctx, k):
    rng = ctx.case_rng(k)
    cfg, ops = gen_simple_script(rng)
    out = {}
    for kind in ('sync', 'async'):
        run = SimpleRun(kind, cfg)
        try:
            res = []
            for op in ops:
                r = run.step(op)
                res.append(r)
                if r.get('exc') == 'ConnectionError' and op[0] == 'connect' \
                        and not run.sc.connected:
                    # never connected: emit()/receive() would block for ever
                    # on both implementations
                    break
            out[kind] = res
        finally:
            run.close()
    strip = lambda res: [{k2: v for k2, v in e.items()  # noqa: E731
                          if k2 != 'errors_raw'} for e in res]
    ta, tb = strip(out['sync']), strip(out['async'])
    ctx.count('simple_scripts')
    ctx.count('simple_ops_compared', len(ta))
    ctx.count('simple_receives_compared',
              sum(1 for e in ta if e['op'][0] == 'receive'))
    for i, (x, y) in enumerate(zip(ta, tb)):
        if stable(x) != stable(y):
            keys = sorted(kk for kk in set(x) | set(y)
                          if stable(x.get(kk)) != stable(y.get(kk)))
            ctx.violation(None, 'SimpleClient vs AsyncSimpleClient: traces '
                          'differ at operation %d (%r) in %s' % (
                              i, ops[i][:2], keys),
                          {'part': 'simple', 'case_index': k, 'config': cfg,
                           'ops': ops[:i + 1], 'threaded': out['sync'][i],
                           'asyncio': out['async'][i]})
            return
    if len(ta) != len(tb):
        ctx.violation(None, 'SimpleClient vs AsyncSimpleClient: one side '
                      'stopped earlier', {'part': 'simple', 'case_index': k,
                                          'config': cfg, 'ops': ops})
        return
    ctx.case(('Q', cfg['reconnection'],
              tuple(sorted({op[0] for op in ops}))),
             {'part': 'simple', 'ops': ops[:6], 'trace_head': ta[:3]})
