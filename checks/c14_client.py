"""C14 part C: Client vs AsyncClient on the scripted engine.io transport.

A script is plain data: configuration + operations.  The scripted server's
reactions (CONNECT plans, ACK reactions to call()) are part of the script, so
both runs see exactly the same peer.
"""
import asyncio
import copy
import json

from vlib import core
from vlib import drive as D
from vlib import eioclient as E
from vlib import gen
from vlib import refcodec as R
from vlib.vtime import settle

from checks.c12 import mutate_msgpack, mutate_text, valid_frames

NAMESPACES = ['/', '/a', '/b']
EVENTS = ['ev0', 'ev1', 'ev2', 'my event', 'é!', 'unhandled_x']
HANDLED = ['ev0', 'ev1', 'ev2', 'my event', 'é!']
CLASS_EVENTS = ['ev0', 'ev1', 'ev2']
IDS = [None, None, 0, 1, 2, 7, 10**20]
AUTHS = [None, None, {'token': 'abc'}, 'callable', 'secret']


class Injected(RuntimeError):
    pass


def stable(x):
    return json.dumps(core.jsonable(x), sort_keys=True, default=repr)


def untuple(x):
    if isinstance(x, list) and x and x[0] == '$tuple':
        return tuple(x[1:])
    return x


class Srv:
    """The scripted server: reacts to CONNECT per plan; everything else is
    driven by the script's operations."""

    def __init__(self, run):
        self.run = run
        self.n = 0

    def on_packet(self, h, pkt):
        if pkt['type'] == R.CONNECT:
            plan = self.run.connect_plan.get(pkt['nsp']) or []
            beh = plan.pop(0) if plan else 'accept'
            if beh == 'accept':
                self.n += 1
                h.deliver(R.CONNECT, pkt['nsp'], None,
                          {'sid': 'srv-sid-%d' % self.n})
            elif beh == 'refuse':
                h.deliver(R.CONNECT_ERROR, pkt['nsp'], None,
                          {'message': 'no'})
            elif beh == 'refuse_data':
                h.deliver(R.CONNECT_ERROR, pkt['nsp'], None,
                          {'message': 'no', 'data': [1, {'k': 2}]})
            elif beh == 'refuse_str':
                h.deliver(R.CONNECT_ERROR, pkt['nsp'], None, 'denied')
            # 'silent': no answer


class ClientRun:
    def __init__(self, kind, cfg):
        import socketio
        self.kind = kind
        self.cfg = cfg
        self.connect_plan = {}
        ckw = {'reconnection': bool(cfg.get('reconnection'))}
        if cfg.get('reconnection'):
            ckw.update(reconnection_attempts=cfg['attempts'],
                       reconnection_delay=cfg['delay'],
                       reconnection_delay_max=cfg['delay_max'],
                       randomization_factor=0)
        self.h = E.make_client(kind, serializer=cfg['serializer'],
                               script=Srv(self), client_kw=ckw)
        h = self.h
        self.events = []
        self.ninv = 0
        self.faults = set(cfg.get('faults') or [])
        self.disconnect_faults = set(cfg.get('disconnect_faults') or [])
        self.ndisc = 0
        self.returns = {k: untuple(v) for k, v in cfg['returns'].items()}
        co = cfg['coroutines']
        for ns, st in cfg['style'].items():
            if st in ('func', 'catchall'):
                h.on('connect', self.mk_reserved(ns, 'connect'), ns, co)
                h.on('connect_error', self.mk_reserved(ns, 'connect_error'),
                     ns, co)
                h.on('disconnect', self.mk_reserved(ns, 'disconnect'), ns,
                     co)
                if st == 'func':
                    for ev in HANDLED:
                        h.on(ev, self.mk(ns, ev, 'func'), ns, co)
                else:
                    h.on('*', self.mk_catchall(ns), ns, co)
            elif st == 'class':
                base = socketio.AsyncClientNamespace if h.is_async else \
                    socketio.ClientNamespace
                body = {}
                names = [('on_' + ev, self.mk(ns, ev, 'class'))
                         for ev in CLASS_EVENTS]
                for r in ('connect', 'connect_error', 'disconnect'):
                    names.append(('on_' + r, self.mk_reserved(ns, r)))
                for name, f in names:
                    fn = D.wrap_handler(f, h.is_async, co)
                    if h.is_async and co:
                        async def m(self_, *a, _fn=fn):
                            return await _fn(*a)
                    else:
                        def m(self_, *a, _fn=fn):
                            return _fn(*a)
                    body[name] = m
                h.c.register_namespace(type('CN', (base,), body)(ns))
        if cfg.get('global_catchall'):
            def g_any(event, ns, *args):
                return self.invoke(('handler', ns, event, list(args),
                                    'global*'), args)
            h.on('*', g_any, '*', co)
        self.mark = 0
        self.backoff = []
        self._orig_wait_for = None
        if h.is_async:
            import sys
            # every timer a step starts (connect wait, whole reconnection
            # efforts) runs out within the step, as on the threaded side
            h.horizon = 200.0
            orig = asyncio.wait_for
            self._orig_wait_for = orig
            run = self

            async def wait_for(fut, timeout, **k):
                try:
                    name = sys._getframe(1).f_code.co_name
                except Exception:
                    name = ''
                if name == '_handle_reconnect':
                    run.backoff.append(timeout)
                return await orig(fut, timeout, **k)
            asyncio.wait_for = wait_for

    # ------------------------------------------------------------ handlers
    def invoke(self, rec, args):
        n = self.ninv
        self.ninv += 1
        self.events.append(rec)
        if n in self.faults:
            raise Injected('injected fault at client handler %d' % n)
        tok = args[0] if args and isinstance(args[0], int) and \
            not isinstance(args[0], bool) else None
        return self.returns.get(tok, self.returns.get(str(tok)))

    def mk(self, ns, ev, via):
        def handler(*args):
            return self.invoke(('handler', ns, ev, list(args), via), args)
        return handler

    def mk_catchall(self, ns):
        def handler(event, *args):
            return self.invoke(('handler', ns, event, list(args),
                                'catchall'), args)
        return handler

    def mk_reserved(self, ns, name):
        def handler(*args):
            n = self.ninv
            self.ninv += 1
            self.events.append(('reserved', ns, name, list(args)))
            if n in self.faults:
                raise Injected('injected fault at client handler %d' % n)
            if name == 'disconnect':
                # the k-th disconnect handler invocation of the run fails
                k = self.ndisc
                self.ndisc += 1
                if k in self.disconnect_faults:
                    raise Injected('injected fault in disconnect handler '
                                   '%d' % k)
        return handler

    def new_sent(self):
        out = self.h.sent[self.mark:]
        self.mark = len(self.h.sent)
        return out

    def callback(self, tok):
        if self.h.is_async and self.cfg['coroutines']:
            async def cb(*args):
                self.events.append(('callback', tok, list(args)))
        else:
            def cb(*args):
                self.events.append(('callback', tok, list(args)))
        return cb

    # ------------------------------------------------------------- running
    def step(self, op):
        h = self.h
        res = {'op': op}
        ev0 = len(self.events)
        att0 = len(h.attempts)
        w0 = len(h.waits)
        try:
            kind = op[0]
            if kind == 'connect':
                _, nss, auth, wait, plan = op[:5]
                self.connect_plan = {k: list(v) for k, v in plan.items()}
                kw = {'wait': wait, 'wait_timeout': 1}
                if len(op) > 5 and op[5]:
                    kw['headers'] = dict(op[5])
                if nss is not None:
                    kw['namespaces'] = list(nss)
                if auth == 'callable':
                    if h.is_async and self.cfg['coroutines']:
                        async def auth_fn():
                            return {'from': 'callable'}
                    else:
                        def auth_fn():
                            return {'from': 'callable'}
                    kw['auth'] = auth_fn
                elif auth is not None:
                    kw['auth'] = auth
                res['ret'] = h.api('connect', 'http://h', **kw)
            elif kind == 'srv':
                h.server_send(op[1], op[2], op[3], untuple(op[4]))
            elif kind == 'srv_partial':
                h.server_send(op[1], op[2], op[3], op[4], partial=op[5])
            elif kind == 'raw':
                h.feed(op[1])
                h.pump()
            elif kind == 'emit':
                _, tok, ev, data, ns, cb = op
                kw = {}
                if ns is not None:
                    kw['namespace'] = ns
                if cb:
                    kw['callback'] = self.callback(tok)
                res['ret'] = h.api('emit', ev, untuple(data), **kw)
            elif kind == 'send':
                _, tok, data, ns, cb = op
                kw = {}
                if ns is not None:
                    kw['namespace'] = ns
                if cb:
                    kw['callback'] = self.callback(tok)
                res['ret'] = h.api('send', untuple(data), **kw)
            elif kind == 'call':
                res.update(self.do_call(op))
            elif kind == 'disconnect':
                res['ret'] = h.api('disconnect')
            elif kind == 'lose':
                h.plan = [list(o) if isinstance(o, list) else o
                          for o in (op[1] if len(op) > 1 else [])]
                h.lose()
            elif kind == 'server_close':
                h.server_close()
            elif kind == 'get_sid':
                res['ret'] = h.c.get_sid(op[1])
            elif kind == 'transport':
                res['ret'] = h.c.transport()
            else:
                raise ValueError('unknown op %r' % (op,))
        except Injected:
            res['exc'] = 'Injected'
        except Exception as e:
            if not core.exc_in_repo(e) and type(e).__module__.split(
                    '.')[0] not in ('socketio', 'engineio'):
                raise
            res['exc'] = type(e).__name__
            res['exc_msg'] = str(e)[:200]
        res['sent'] = [[p['type'], p['nsp'], p['id'], p['data']]
                       for p in self.new_sent()]
        res['events'] = [list(e) for e in self.events[ev0:]]
        res['attempts'] = [[a['outcome'] if isinstance(a['outcome'], str)
                            else list(a['outcome']), a['url'], a['headers'],
                            a['transports'], a['path']]
                           for a in h.attempts[att0:]]
        # back-off delays before the reconnection attempts of this step
        # (randomization_factor is 0 in these scripts, so they are exact)
        if h.is_async:
            res['backoff'] = [round(float(t), 6) for t in self.backoff]
            del self.backoff[:]
        else:
            res['backoff'] = [round(float(t), 6) for (lab, t) in h.waits[w0:]
                              if lab == '_handle_reconnect']
        res['state'] = [bool(h.c.connected), sorted(h.c.namespaces, key=repr),
                        h.eio.state]
        errs = h.all_errors()
        if errs:
            res['errors'] = sorted(e['exc'] or '' for e in errs)
            res['errors_raw'] = [dict(e, tb=(e.get('tb') or '')[-800:])
                                 for e in errs[:3]]
            h.clear_errors()
        return res

    def do_call(self, op):
        _, tok, ev, data, ns, timeout, script, args = op
        h = self.h
        data = untuple(data)
        state = {}

        def reactions():
            sent = h.sent[self.mark:]
            pk = [p for p in sent if p['type'] in (R.EVENT, R.BINARY_EVENT)]
            if len(pk) != 1:
                return None
            cid = pk[0]['id']
            if script == 'ack':
                return [(ns, cid, args)]
            if script == 'wrongid_then_ack':
                return [(ns, (cid or 0) + 9, ['wrong']), (ns, cid, args)]
            if script == 'foreign_ns_ack':
                return [('/zz' if ns != '/zz' else '/', cid, args)]
            return []
        kw = {'timeout': timeout}
        if ns is not None:
            kw['namespace'] = ns
        if h.is_async:
            loop = h.loop

            async def go():
                task = asyncio.ensure_future(h.c.call(ev, data, **kw))
                await settle(loop, horizon=0)
                rs = reactions()
                for n2, i2, a2 in rs or []:
                    h.deliver(R.ACK, n2, i2, a2)
                    await settle(loop, horizon=0)
                if not task.done():
                    await asyncio.sleep(timeout + 0.001)
                    await settle(loop, horizon=0)
                    if not task.done():
                        task.cancel()
                        return {'exc': 'NeverReturned'}
                try:
                    return {'ret': await task}
                except Exception as e:
                    return {'exc': type(e).__name__}
            return h.run(go(), horizon=0)

        def idle(evt, tmo):
            if evt.label != 'call' or state.get('reacted'):
                return False
            state['reacted'] = True
            rs = reactions()
            if not rs:
                return False
            for n2, i2, a2 in rs:
                h.deliver(R.ACK, n2, i2, a2)
            return True
        h.idle_hook = idle
        try:
            try:
                return {'ret': h.api('call', ev, data, **kw)}
            except Exception as e:
                if not core.exc_in_repo(e) and type(e).__module__.split(
                        '.')[0] not in ('socketio', 'engineio'):
                    raise
                return {'exc': type(e).__name__}
        finally:
            h.idle_hook = None

    def close(self):
        if self._orig_wait_for is not None:
            asyncio.wait_for = self._orig_wait_for
        self.h.close()


# ------------------------------------------------------------- generation
def gen_return(rng):
    r = rng.random()
    if r < 0.25:
        return None
    if r < 0.4:
        return rng.choice([0, '', False, [], {}, 'ok', 42])
    if r < 0.55:
        return ['$tuple'] + gen.gen_args(rng, True, 2, maxn=3)
    if r < 0.6:
        return ['$tuple']
    return gen.gen_tree(rng, 3, [10], True)


def gen_client_script(rng):
    nss = NAMESPACES[:rng.choice([1, 2, 3])]
    serializer = 'msgpack' if rng.random() < 0.25 else 'default'
    cfg = {
        'serializer': serializer,
        'style': {ns: rng.choice(['func', 'func', 'catchall', 'class',
                                  'none']) for ns in nss},
        'global_catchall': rng.random() < 0.15,
        'coroutines': rng.random() < 0.7,
        'returns': {}, 'faults': [],
        'reconnection': rng.random() < 0.3,
        'attempts': rng.choice([1, 2, 3, 5]),
        'delay': rng.choice([0.1, 0.2]),
        'delay_max': rng.choice([0.5, 2.0]),
    }
    pool = nss + ['/zz']
    ops = []
    tok = [0]

    def plan():
        bad = rng.random() < 0.3
        return {ns: [rng.choice(['accept'] * (6 if bad else 40) +
                                ['refuse', 'refuse_data', 'refuse_str',
                                 'silent'])
                     for _ in range(3)] for ns in pool}

    def nsp():
        return rng.choice(nss * 4 + ['/zz', None])

    def do_connect():
        k = rng.random()
        if k < 0.6:
            req = list(nss)
        elif k < 0.75:
            req = None
        else:
            req = rng.sample(pool, rng.randint(1, len(pool)))
        ops.append(['connect', req, rng.choice(AUTHS),
                    rng.random() < 0.75, plan(),
                    rng.choice([None, None, {'X-Verif': 'h%d' % len(ops)}])])

    do_connect()
    n = rng.choice([10, 25, 50])
    for _ in range(n):
        r = rng.random()
        if ops[-1][0] in ('disconnect', 'lose', 'server_close') and \
                rng.random() < 0.85:
            do_connect()
        elif r < 0.06:
            do_connect()
        elif r < 0.30:
            tok[0] += 1
            cfg['returns'][tok[0]] = gen_return(rng)
            ev = rng.choice(EVENTS)
            args = [tok[0]] + gen.gen_args(rng, True, 2, maxn=2)
            pid = rng.choice(IDS)
            if serializer == 'msgpack' and pid is not None and pid >= 2**63:
                pid = 2**62
            if rng.random() < 0.1 and R.has_bytes(args) and \
                    serializer == 'default':
                ops.append(['srv_partial', R.EVENT, nsp(), pid,
                            [ev] + args, 1])
            else:
                ops.append(['srv', R.EVENT, nsp(), pid, [ev] + args])
        elif r < 0.40:
            ops.append(['srv', R.ACK, nsp(),
                        rng.choice([0, 1, 1, 2, 2, 3, 4, 9]),
                        gen.gen_args(rng, True, 2, maxn=3)])
        elif r < 0.43:
            ops.append(['srv', R.DISCONNECT, rng.choice(pool), None, None])
        elif r < 0.47:
            ops.append(['srv', R.CONNECT_ERROR, rng.choice(pool), None,
                        rng.choice([None, 'err', {'message': 'm'},
                                    {'message': 'm', 'data': [1]}])])
        elif r < 0.49:
            ops.append(['srv', R.CONNECT, rng.choice(pool), None,
                        {'sid': 'late-sid'}])
        elif r < 0.56:
            frames = valid_frames(rng, serializer)
            f = rng.choice(frames)
            if rng.random() < 0.7:
                if isinstance(f, str):
                    f = mutate_text(rng, f)[:3000]
                elif serializer == 'msgpack':
                    f = mutate_msgpack(rng, f)
            ops.append(['raw', f])
        elif r < 0.74:
            tok[0] += 1
            data = rng.choice([None, 'd', ['$tuple', 1, 'two'], ['$tuple'],
                               {'t': tok[0]}, [1, 2], 0, '']) \
                if rng.random() < 0.5 else gen.gen_tree(rng, 3, [8], True)
            ns = nsp()
            if rng.random() < 0.8:
                ops.append(['emit', tok[0], rng.choice(EVENTS), data, ns,
                            rng.random() < 0.5])
            else:
                ops.append(['send', tok[0], data, ns, rng.random() < 0.5])
        elif r < 0.84:
            tok[0] += 1
            data = gen.gen_tree(rng, 2, [6], True) if rng.random() < 0.7 \
                else rng.choice([None, ['$tuple', 1, 2]])
            ops.append(['call', tok[0], rng.choice(EVENTS), data, nsp(),
                        rng.choice([0.5, 1, 3]),
                        rng.choice(['ack', 'ack', 'ack', 'timeout',
                                    'wrongid_then_ack', 'foreign_ns_ack']),
                        gen.gen_args(rng, True, 2, maxn=3)])
        elif r < 0.87:
            ops.append(['disconnect'])
        elif r < 0.91:
            if rng.random() < 0.7:
                ops.append(['lose', [rng.choice([['fail', 'refused'], 'ok'])
                                     for _ in range(rng.randint(0, 5))]])
            else:
                ops.append(['server_close'])
        elif r < 0.97:
            ops.append(['get_sid', rng.choice(pool)])
        else:
            ops.append(['transport'])
    if rng.random() < 0.3:
        cfg['faults'] = sorted(rng.sample(range(0, 30), rng.randint(1, 3)))
    if rng.random() < 0.4:
        # failing disconnect handlers (reserved events are rare among the
        # handler invocations: aimed at separately)
        cfg['disconnect_faults'] = sorted(rng.sample(range(0, 3),
                                                     rng.randint(1, 2)))
    return cfg, ops


def run_side(kind, cfg, ops):
    r = ClientRun(kind, copy.deepcopy(cfg))
    out = []
    try:
        for op in ops:
            out.append(r.step(copy.deepcopy(op)))
    finally:
        r.close()
    return out


def strip(res):
    return [{k: v for k, v in e.items() if k not in ('errors_raw',
                                                     'exc_msg')}
            for e in res]


def part_client(ctx, k):
    rng = ctx.case_rng(k)
    cfg, ops = gen_client_script(rng)
    ra = run_side('sync', cfg, ops)
    rb = run_side('async', cfg, ops)
    ta, tb = strip(ra), strip(rb)
    ctx.count('client_scripts')
    ctx.count('client_ops_compared', len(ops))
    ctx.count('client_frames_compared', sum(len(e['sent']) for e in ta))
    ctx.count('client_handler_events_compared',
              sum(len(e['events']) for e in ta))
    ctx.count('client_api_exceptions_compared',
              sum(1 for e in ta if 'exc' in e))
    ctx.count('client_contained_errors_compared',
              sum(len(e.get('errors', [])) for e in ta))
    ctx.count('client_reconnect_attempts_compared',
              sum(len(e['attempts']) for e in ta) - 1)
    for i, (x, y) in enumerate(zip(ta, tb)):
        if stable(x) != stable(y):
            keys = sorted(kk for kk in set(x) | set(y)
                          if stable(x.get(kk)) != stable(y.get(kk)))
            ctx.violation(None, 'Client vs AsyncClient: traces differ at '
                          'operation %d (%r) in %s' % (i, ops[i][:3], keys),
                          {'part': 'client', 'case_index': k, 'config': cfg,
                           'ops': ops[:i + 1], 'threaded': ra[i],
                           'asyncio': rb[i]})
            return
    kinds = sorted({op[0] if op[0] != 'srv' else 'srv%d' % op[1]
                    for op in ops})
    ctx.case(('C', cfg['serializer'], cfg['reconnection'], tuple(kinds),
              bool(cfg['faults'])),
             {'part': 'client', 'ops': ops[:5], 'trace_head': ta[:2]})
