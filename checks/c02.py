"""C02 End-to-end payload transparency between client and server handlers.

A real Client/AsyncClient connected to a real Server/AsyncServer through the
bridge (every frame re-encoded by the real engine.io framing), in all 8
configurations {threaded, asyncio} x {default, msgpack} x {polling/base64,
websocket/raw}; both directions; emit, emit+callback, call(), send();
bursts for ordering.
"""
from vlib import bridge as B
from vlib import gen
from vlib import refcodec as R
from vlib.vtime import VirtualEvent

LEVEL = 'exploration'
TIERS = {
    'quick': {'budget': 45, 'watchdog': 400, 'shards': 1},
    'thorough': {'budget': 420, 'watchdog': 900, 'shards': 16},
}
CONFIGS = [(k, s, f) for k in ('sync', 'async')
           for s in ('default', 'msgpack')
           for f in ('polling', 'websocket')]
NSS = ['/', '/a']


def shape_result(args):
    return None if len(args) == 0 else (args[0] if len(args) == 1
                                        else tuple(args))


class Session:
    def __init__(self, ctx, rng, cfg, index):
        self.ctx, self.rng, self.cfg, self.index = ctx, rng, cfg, index
        kind, ser, framing = cfg
        self.async_handlers = rng.random() < 0.5
        self.b = B.make_bridge(kind, serializer=ser, framing=framing,
                               server_kw={'async_handlers':
                                          self.async_handlers})
        b = self.b
        self.records = []
        self.rets = {}
        self.failed = False
        self.ended_ns = None
        self.seq = 0
        self.history = []
        co = rng.random() < 0.6
        self.co = co
        for ns in NSS:
            b.on_server('connect', lambda sid, env, auth=None: None, ns, co)
            b.on_server('*', self.mk('server', ns, True), ns, co)
            b.on_client('*', self.mk('client', ns, False), ns, co)
        if kind == 'async':
            # an application mixes coroutine and plain handlers: the event
            # 'mixed' is handled by a handler of the other kind than the rest
            for ns in NSS:
                b.on_server('mixed', self.mk_named('server', ns, True,
                                                   'mixed'), ns, not co)
                b.on_client('mixed', self.mk_named('client', ns, False,
                                                   'mixed'), ns, not co)
        if kind == 'sync':
            # the threaded server's call() waits on an event that lets the
            # bridge move frames while it waits
            b.d.eio.create_event = lambda *a, **k: VirtualEvent(
                on_wait=lambda ev, t: b.pump())
        b.client('connect', 'http://bridge', namespaces=list(NSS))
        self.sids = {ns: b.h.c.get_sid(ns) for ns in NSS}

    def mk(self, side, ns, has_sid):
        def handler(event, *args):
            if has_sid:
                sid, args = args[0], args[1:]
            else:
                sid = None
            self.records.append((side, ns, event, list(args), sid))
            return self.rets.get(event)
        return handler

    def mk_named(self, side, ns, has_sid, event):
        def handler(*args):
            if has_sid:
                sid, args = args[0], args[1:]
            else:
                sid = None
            self.records.append((side, ns, event, list(args), sid))
            return None
        return handler

    def witness(self, extra=None):
        w = {'case_index': self.index, 'config': list(self.cfg),
             'async_handlers': self.async_handlers,
             'history': self.history[-10:],
             'errors': self.b.errors()[:3]}
        if extra:
            w.update(extra)
        return w

    def fail(self, what, extra=None):
        self.failed = True
        self.ctx.violation(None, what, self.witness(extra))

    def payload(self):
        rng = self.rng
        bits = 64
        return gen.gen_payload_arg(rng, True, bits)

    def new_name(self, send=False):
        self.seq += 1
        if send:
            return 'message'
        return '%d|%s' % (self.seq, gen.gen_event_name(self.rng))

    def one(self, direction=None, mode=None, burst_member=False, ns=None):
        rng, b, ctx = self.rng, self.b, self.ctx
        direction = direction or rng.choice(['c2s', 's2c'])
        mode = mode or rng.choice(['emit', 'emit', 'emit_cb', 'call',
                                   'send'])
        if mode == 'call' and direction == 's2c' and \
                not self.async_handlers:
            mode = 'emit_cb'
        ns = ns or rng.choice(NSS)
        data = self.payload()
        ret = self.payload() if mode in ('emit_cb', 'call') or \
            rng.random() < 0.3 else None
        name = self.new_name(send=mode == 'send')
        self.rets[name] = ret
        msg = {'dir': direction, 'mode': mode, 'ns': ns, 'name': name,
               'data': data, 'ret': ret}
        self.history.append(msg)
        n0 = len(self.records)
        cb = []
        result = None
        exc = None
        kwns = {} if (ns == '/' and rng.random() < 0.5) else \
            {'namespace': ns}
        try:
            if direction == 'c2s':
                if mode == 'emit':
                    b.client('emit', name, data, **kwns)
                elif mode == 'send':
                    b.client('send', data, **kwns)
                elif mode == 'emit_cb':
                    b.client('emit', name, data, callback=lambda *a:
                             cb.append(a), **kwns)
                else:
                    result = b.client('call', name, data, **kwns)
            else:
                kw = dict(kwns, to=self.sids[ns])
                if mode == 'emit':
                    b.server('emit', name, data, **kw)
                elif mode == 'send':
                    b.server('send', data, **kw)
                elif mode == 'emit_cb':
                    b.server('emit', name, data, callback=lambda *a:
                             cb.append(a), **kw)
                else:
                    result = b.server('call', name, data, **kw)
        except Exception as e:
            exc = e
        if burst_member:
            return msg
        return self.judge(msg, n0, cb, result, exc)

    def judge(self, msg, n0, cb, result, exc):
        ctx, b = self.ctx, self.b
        errs = b.errors()
        if exc is not None or errs:
            return self.fail('%s %s raised %r / errors %r' % (
                msg['dir'], msg['mode'], exc,
                [e.get('exc') for e in errs[:2]]), {'message': msg})
        new = self.records[n0:]
        want_side = 'server' if msg['dir'] == 'c2s' else 'client'
        want_args = gen.expected_args(msg['data'])
        ctx.count('messages_judged')
        if len(new) != 1:
            return self.fail('%d handler invocations for one message' %
                             len(new), {'message': msg, 'records': new})
        side, ns, event, args, sid = new[0]
        if side != want_side or ns != msg['ns'] or event != msg['name']:
            return self.fail('message arrived as (%s, %r, %r), sent as '
                             '(%s, %r, %r)' % (side, ns, event, want_side,
                                               msg['ns'], msg['name']),
                             {'message': msg})
        if not R.deep_eq(args, want_args):
            return self.fail('handler arguments %r differ from what was '
                             'sent %r' % (args, want_args),
                             {'message': msg})
        if want_side == 'server' and sid != self.sids[msg['ns']]:
            return self.fail('server handler got sid %r' % sid,
                             {'message': msg})
        if msg['mode'] == 'emit_cb':
            want_cb = gen.expected_args(msg['ret'])
            ctx.count('callbacks_judged')
            if len(cb) != 1 or not R.deep_eq(list(cb[0]), want_cb):
                return self.fail('callback got %r, the handler returned %r'
                                 % (cb, msg['ret']), {'message': msg})
        elif msg['mode'] == 'call':
            want = shape_result(gen.expected_args(msg['ret']))
            ctx.count('calls_judged')
            if not R.deep_eq(result, want) or (
                    isinstance(want, tuple) and
                    not isinstance(result, tuple)):
                return self.fail('call() returned %r, the handler returned '
                                 '%r' % (result, msg['ret']),
                                 {'message': msg})
        elif cb:
            return self.fail('unexpected callback', {'message': msg})
        ctx.case((self.cfg, msg['dir'], msg['mode'], msg['ns'] == '/',
                  gen.shape(msg['data']), gen.shape(msg['ret'])),
                 {'config': list(self.cfg), 'message': msg}
                 if R.has_bytes(msg['data']) and self.rng.random() < 0.05
                 else None)

    def burst(self):
        """Several consecutive messages from one sender to one receiver,
        nothing pumped in between: handled in the order sent."""
        rng, b, ctx = self.rng, self.b, self.ctx
        direction = rng.choice(['c2s', 's2c'])
        if direction == 'c2s' and self.async_handlers and \
                self.cfg[0] == 'sync':
            # thread per message on the threaded server: no defined order
            ctx.count('bursts_skipped_threaded_dispatch')
            return
        n = rng.choice([2, 5, 10, 25, 50])
        ns = rng.choice(NSS)
        n0 = len(self.records)
        names = []
        datas = []
        sender = b.h.c if direction == 'c2s' else b.d.sio
        kw = {'namespace': ns}
        if direction == 's2c':
            kw['to'] = self.sids[ns]

        def send_all_sync():
            for name, data in zip(names, datas):
                sender.emit(name, data, **kw)

        async def send_all_async():
            for name, data in zip(names, datas):
                await sender.emit(name, data, **kw)
        mixed = b.is_async and rng.random() < 0.5
        for _ in range(n):
            if mixed and rng.random() < 0.4:
                names.append('mixed')
                self.seq += 1
            else:
                names.append(self.new_name())
            datas.append(self.payload())
            self.rets[names[-1]] = None
        if mixed:
            ctx.count('bursts_with_handlers_of_both_kinds')
        self.history.append({'burst': n, 'dir': direction, 'ns': ns,
                             'mixed_handler_kinds': mixed})
        try:
            if b.is_async:
                b.run(send_all_async())
            else:
                send_all_sync()
                b.pump()
        except Exception as e:
            return self.fail('burst raised %r' % e)
        if b.errors():
            return self.fail('errors during a burst: %r' % [
                e.get('exc') for e in b.errors()[:2]])
        new = self.records[n0:]
        got = [r[2] for r in new]
        ctx.count('bursts_judged')
        ctx.count('burst_messages', n)
        if got != names:
            return self.fail('burst of %d messages handled as %r, sent as '
                             '%r' % (n, got, names))
        for r, data in zip(new, datas):
            if not R.deep_eq(r[3], gen.expected_args(data)):
                return self.fail('burst message arguments %r differ from %r'
                                 % (r[3], gen.expected_args(data)))
        ctx.case((self.cfg, 'burst', direction, n), None)

    def callback_burst(self):
        """A few hundred emits with callbacks issued in one go by one side,
        nothing else happening in between (the acknowledgements are all
        outstanding at the same time): every callback gets the value its own
        handler returned, once."""
        rng, b, ctx = self.rng, self.b, self.ctx
        direction = rng.choice(['c2s', 'c2s', 's2c'])
        n = rng.choice([140, 200, 300])
        ns = rng.choice(NSS)
        sender = b.h.c if direction == 'c2s' else b.d.sio
        kw = {'namespace': ns}
        if direction == 's2c':
            kw['to'] = self.sids[ns]
        got = {}
        names = []
        for i in range(n):
            name = self.new_name()
            names.append(name)
            self.rets[name] = i

        def cb_for(name):
            def cb(*a):
                got.setdefault(name, []).append(a)
            return cb
        self.history.append({'callback_burst': n, 'dir': direction,
                             'ns': ns})
        try:
            if b.is_async:
                async def go():
                    for name in names:
                        await sender.emit(name, {'n': name},
                                          callback=cb_for(name), **kw)
                b.run(go())
            else:
                for name in names:
                    sender.emit(name, {'n': name}, callback=cb_for(name),
                                **kw)
                b.pump()
        except Exception as e:
            return self.fail('a burst of emits with callbacks raised %r' % e)
        if b.errors():
            return self.fail('errors during a burst of emits with '
                             'callbacks: %r' % [
                                 e.get('exc') for e in b.errors()[:2]])
        for name in names:
            self.rets[name] = None
        ctx.count('callback_bursts')
        bad = [(name, got.get(name)) for i, name in enumerate(names)
               if got.get(name) != [(i,)]]
        if bad:
            return self.fail('%d emits with callbacks issued in one go (%s): '
                             '%d callbacks did not get their own handler\'s '
                             'value exactly once, e.g. %r' % (
                                 n, direction, len(bad), bad[:2]))
        ctx.case((self.cfg, 'callback_burst', direction, n), None)

    def overlap(self):
        """Several emits with callbacks outstanding at once (asyncio pairing,
        coroutine handlers that take different virtual times): the answers
        come back out of order and a further emit is issued while older ones
        are still unanswered.  Every callback must receive its own handler's
        return value, exactly once."""
        import asyncio
        from vlib import drive as DD
        rng, b, ctx = self.rng, self.b, self.ctx
        direction = rng.choice(['c2s', 's2c'])
        ns = rng.choice(NSS)
        sender = b.h.c if direction == 'c2s' else b.d.sio
        kw = {'namespace': ns}
        if direction == 's2c':
            kw['to'] = self.sids[ns]
        got = {}
        msgs = []

        def mk_msg(delay):
            name = self.new_name()
            ret = self.payload()
            self.rets[name] = DD.Delay(ret, delay)
            msgs.append((name, ret))
            return name

        def cb_for(name):
            def cb(*a):
                got.setdefault(name, []).append(a)
            return cb

        async def go():
            first = [mk_msg(d) for d in rng.sample([3, 1, 2, 0.5], 3)]
            for name in first:
                # (byte strings inside: the receiver reassembles a binary
                # packet while the handlers of earlier ones are still running)
                await sender.emit(name, {'n': name, 'b': [b'\x00', b'xy']},
                                  callback=cb_for(name), **kw)
            await asyncio.sleep(rng.choice([0.7, 1.5, 2.5]))
            late = [mk_msg(d) for d in (1, 0.2)]
            for name in late:
                await sender.emit(name, {'n': name} if name == late[0] else
                                  {'n': name, 'b': b'z'},
                                  callback=cb_for(name), **kw)
        self.history.append({'overlap': direction, 'ns': ns})
        try:
            b.run(go(), horizon=50.0)
        except Exception as e:
            return self.fail('overlapping emits raised %r' % e)
        if b.errors():
            return self.fail('errors during overlapping emits: %r' % [
                e.get('exc') for e in b.errors()[:2]])
        ctx.count('overlapping_callback_groups')
        for name, ret in msgs:
            want = tuple(gen.expected_args(ret))
            g = got.get(name, [])
            if len(g) != 1 or not R.deep_eq(list(g[0]), list(want)):
                return self.fail(
                    'emit %r with several callbacks outstanding: its '
                    'callback was invoked %d times with %r, its handler '
                    'returned %r' % (name, len(g), g[:2], ret),
                    {'messages': [m[0] for m in msgs], 'direction':
                     direction})
        ctx.case((self.cfg, 'overlap', direction, self.async_handlers), None)

    def late_ack_after_call_timeout(self):
        """call() gives up (its handler is still busy), the application
        calls again, and the acknowledgement of the first call arrives while
        the second is outstanding: the second call returns what *its*
        handler returned."""
        from vlib.drive import Delay
        rng, b, ctx = self.rng, self.b, self.ctx
        direction = rng.choice(['c2s', 'c2s', 's2c'])
        ns = rng.choice(NSS)
        n1, n2 = self.new_name(), self.new_name()
        r1, r2 = self.payload(), self.payload()
        self.rets[n1] = Delay(r1, 5)
        self.rets[n2] = Delay(r2, 10)
        self.history.append({'late_ack': [n1, n2], 'dir': direction,
                             'ns': ns})
        caller = b.h.c if direction == 'c2s' else b.d.sio
        kw = {'namespace': ns}
        if direction == 's2c':
            kw['to'] = self.sids[ns]
        out = {}

        async def go():
            try:
                out['first'] = ('ok', await caller.call(n1, 1, timeout=1,
                                                        **kw))
            except Exception as e:
                out['first'] = (type(e).__name__, None)
            try:
                out['second'] = ('ok', await caller.call(n2, 2, timeout=60,
                                                         **kw))
            except Exception as e:
                out['second'] = (type(e).__name__, None)
        try:
            b.run(go(), horizon=30)
        except Exception as e:
            return self.fail('late-ack scenario raised %r' % e)
        self.rets[n1] = self.rets[n2] = None
        b.h.clear_errors()
        b.d.clear_errors()
        ctx.count('late_acks_after_call_timeout')
        want = shape_result(gen.expected_args(r2))
        if out.get('first', ('',))[0] != 'TimeoutError':
            return self.fail('call(timeout=1) whose handler takes 5 s ended '
                             'with %r' % (out.get('first'),))
        got = out.get('second')
        if not got or got[0] != 'ok' or not R.deep_eq(got[1], want) or (
                isinstance(want, tuple) and not isinstance(got[1], tuple)):
            return self.fail(
                'call() issued after an earlier call had timed out returned '
                '%r; its handler returned %r (the earlier handler returned '
                '%r and answered late, while this call was outstanding)' % (
                    got, r2, r1), {'direction': direction})
        ctx.case((self.cfg, 'late_ack', direction), None)

    def reconnect_after_partial(self):
        """The connection is lost while a message of several frames is on
        its way to the client; the application connects the same client
        object again.  Nothing that was not sent reaches a handler and the
        new connection is as transparent as the first."""
        rng, b, ctx = self.rng, self.b, self.ctx
        ns = rng.choice(NSS)
        natt = rng.choice([1, 2, 3])
        data = {'k': [bytes([i]) * (i + 1) for i in range(natt)], 'n': natt}
        keep = rng.randint(1, natt)       # header + keep-1 attachments
        name = self.new_name()
        self.rets[name] = None
        n0 = len(self.records)
        self.history.append({'partial_loss': name, 'ns': ns, 'frames_kept':
                             keep, 'attachments': natt})
        sio = b.d.sio
        if b.is_async:
            async def send():
                await sio.emit(name, data, to=self.sids[ns], namespace=ns)
        else:
            def send():
                sio.emit(name, data, to=self.sids[ns], namespace=ns)
        try:
            b.partial_loss(send, keep)
            b.client('connect', 'http://bridge', namespaces=list(NSS))
        except Exception as e:
            return self.fail('connecting again after a connection that was '
                             'lost in the middle of a message raised %r'
                             % e)
        for r in self.records[n0:]:
            if r[2] != name or not R.deep_eq(r[3], [data]):
                return self.fail('after a connection lost in the middle of '
                                 'a message a handler was invoked with '
                                 'something nobody sent: %r' % (r,))
        errs = b.errors()
        if errs:
            return self.fail('errors while connecting again: %r' % [
                e.get('exc') for e in errs[:2]])
        self.sids = {ns: b.h.c.get_sid(ns) for ns in NSS}
        ctx.count('reconnects_after_partial_message')

    def nested(self):
        """asyncio pairing: the handler of a call() asks the caller
        something with call() before it answers, and returns what it got.
        The inner acknowledgement is handled by another task while the
        handler's task waits."""
        rng, b, ctx = self.rng, self.b, self.ctx
        direction = rng.choice(['c2s', 's2c'])   # of the outer call
        ns, ns2 = rng.choice(NSS), rng.choice(NSS)
        outer, inner = self.new_name(), self.new_name()
        data, inner_data, inner_ret = self.payload(), self.payload(), \
            self.payload()
        self.rets[inner] = inner_ret
        n0 = len(self.records)
        self.history.append({'nested': [outer, inner], 'dir': direction,
                             'ns': [ns, ns2], 'data': data,
                             'inner_data': inner_data, 'inner_ret':
                             inner_ret})
        if direction == 's2c':
            async def h(*args):
                self.records.append(('client', ns, outer, list(args), None))
                return await b.h.c.call(inner, inner_data, namespace=ns2,
                                        timeout=60)
            b.h.c.on(outer, h, namespace=ns)
        else:
            async def h(sid, *args):
                self.records.append(('server', ns, outer, list(args), sid))
                return await b.d.sio.call(inner, inner_data,
                                          to=self.sids[ns2], namespace=ns2,
                                          timeout=60)
            b.d.sio.on(outer, h, namespace=ns)
        try:
            if direction == 's2c':
                result = b.server('call', outer, data, to=self.sids[ns],
                                  namespace=ns, timeout=120)
            else:
                result = b.client('call', outer, data, namespace=ns,
                                  timeout=120)
        except Exception as e:
            return self.fail('call() whose handler asks the caller something '
                             'before it answers raised %r / errors %r' % (
                                 e, [x.get('exc') for x in b.errors()[:2]]))
        if b.errors():
            return self.fail('errors during a nested call: %r' % [
                e.get('exc') for e in b.errors()[:2]])
        ctx.count('nested_calls_judged_asyncio')
        new = self.records[n0:]
        sides = ('client', 'server') if direction == 's2c' else \
            ('server', 'client')
        want_new = [(sides[0], ns, outer, gen.expected_args(data)),
                    (sides[1], ns2, inner, gen.expected_args(inner_data))]
        if len(new) != 2 or any(
                r[:3] != w[:3] or not R.deep_eq(r[3], w[3])
                for r, w in zip(new, want_new)):
            return self.fail('nested call: handlers were invoked as %r, '
                             'expected %r' % ([r[:4] for r in new],
                                              want_new))
        want = shape_result(gen.expected_args(inner_ret))
        if not R.deep_eq(result, want) or (
                isinstance(want, tuple) and not isinstance(result, tuple)):
            return self.fail('call() whose handler returns the result of '
                             'its own call() returned %r; the inner handler '
                             'returned %r' % (result, inner_ret))
        ctx.case((self.cfg, 'nested', direction, ns == ns2,
                  gen.shape(inner_ret)), None)

    def sibling_namespace_ends_while_outstanding(self):
        """Last step of a session: the client has an emit-with-callback (or
        a call()) outstanding on one namespace when the server disconnects
        another namespace of the same client; the answer arrives afterwards.
        The callback still gets what the handler returned, and the surviving
        namespace keeps working."""
        import asyncio
        from vlib.drive import Delay
        rng, b, ctx = self.rng, self.b, self.ctx
        ns_end, ns = rng.sample(NSS, 2)
        name = self.new_name()
        data, ret = self.payload(), self.payload()
        mode = rng.choice(['emit_cb', 'call']) if b.is_async else 'emit_cb'
        self.ended_ns = ns_end
        self.history.append({'sibling_namespace_ends': ns_end, 'ns': ns,
                             'name': name, 'mode': mode, 'data': data,
                             'ret': ret})
        n0 = len(self.records)
        got = []
        out = {}
        try:
            if b.is_async:
                self.rets[name] = Delay(ret, 3)

                async def go():
                    task = None
                    if mode == 'call':
                        task = asyncio.ensure_future(b.h.c.call(
                            name, data, namespace=ns, timeout=60))
                    else:
                        await b.h.c.emit(name, data, namespace=ns,
                                         callback=lambda *a: got.append(a))
                    await asyncio.sleep(1)
                    await b.d.sio.disconnect(self.sids[ns_end],
                                             namespace=ns_end)
                    await asyncio.sleep(4)
                    if task is not None:
                        try:
                            out['result'] = ('ok', await task)
                        except Exception as e:
                            out['result'] = (type(e).__name__, None)
                b.run(go(), horizon=30)
            else:
                self.rets[name] = ret
                b.d.hold_tasks()
                try:
                    b.h.c.emit(name, data, namespace=ns,
                               callback=lambda *a: got.append(a))
                    b.h.pump()
                    b.d.sio.disconnect(self.sids[ns_end], namespace=ns_end)
                    b.pump()
                finally:
                    b.d.release_tasks()
                b.pump()
        except Exception as e:
            return self.fail('sibling namespace ended while an '
                             'acknowledgement was outstanding: raised %r'
                             % e)
        if b.errors():
            return self.fail('errors when a sibling namespace ended: %r' % [
                e.get('exc') for e in b.errors()[:2]])
        self.rets[name] = None
        new = [r for r in self.records[n0:] if r[2] == name]
        ctx.count('acks_outstanding_when_sibling_namespace_ended')
        if len(new) != 1 or not R.deep_eq(new[0][3],
                                          gen.expected_args(data)):
            return self.fail('%d handler invocations (%r) for one message'
                             % (len(new), [r[3] for r in new]))
        want_cb = gen.expected_args(ret)
        if mode == 'emit_cb':
            if len(got) != 1 or not R.deep_eq(list(got[0]), want_cb):
                return self.fail(
                    'an emit on %r was waiting for its acknowledgement when '
                    'the server disconnected namespace %r of the same '
                    'client: the callback was invoked %d times (%r), the '
                    'handler returned %r' % (ns, ns_end, len(got), got[:2],
                                             ret))
        else:
            want = shape_result(want_cb)
            r = out.get('result')
            if not r or r[0] != 'ok' or not R.deep_eq(r[1], want):
                return self.fail(
                    'a call() on %r was outstanding when the server '
                    'disconnected namespace %r of the same client: it ended '
                    'with %r, the handler returned %r' % (ns, ns_end, r,
                                                          ret))
        # the surviving namespace still works, both directions
        for direction in ('c2s', 's2c'):
            self.one(direction=direction,
                     mode=rng.choice(['emit', 'emit_cb']), ns=ns)
            if self.failed:
                return
        ctx.case((self.cfg, 'sibling_namespace_ends', mode, ns), None)

    def run(self):
        rng = self.rng
        for _ in range(rng.choice([20, 40])):
            if self.b.is_async and self.co and self.async_handlers and \
                    rng.random() < 0.04:
                self.late_ack_after_call_timeout()
            elif self.b.is_async and self.async_handlers and \
                    rng.random() < 0.05:
                self.nested()
            elif self.cfg[1] == 'default' and rng.random() < 0.03:
                self.reconnect_after_partial()
            elif self.b.is_async and self.co and rng.random() < 0.06:
                self.overlap()
            elif rng.random() < 0.02:
                self.callback_burst()
            elif rng.random() < 0.12:
                self.burst()
            else:
                self.one()
            if self.failed:
                return
        if rng.random() < 0.3 and (
                (self.b.is_async and self.co) or
                (not self.b.is_async and self.async_handlers)):
            self.sibling_namespace_ends_while_outstanding()
            if self.failed:
                return
        b = self.b
        self.ctx.count('frames_through_bridge', b.frames_c2s + b.frames_s2c)
        self.ctx.count('binary_frames_through_bridge', b.binary_frames)
        if rng.random() < 0.4 and not self.ended_ns:
            return self.last_words()
        try:
            b.client('disconnect')
        except Exception as e:
            self.fail('disconnect raised %r' % e)

    def last_words(self):
        """The client emits and leaves at once (emit(...); disconnect(), no
        pause in between): the message was sent on a connected namespace, it
        arrives at its handler, once, with its arguments."""
        b, rng, ctx = self.b, self.rng, self.ctx
        ns = rng.choice(NSS)
        name = self.new_name()
        data = self.payload()
        self.rets[name] = None
        n0 = len(self.records)
        self.history.append({'last_words': name, 'ns': ns, 'data': data})
        c = b.h.c
        try:
            if b.is_async:
                async def go():
                    await c.emit(name, data, namespace=ns)
                    await c.disconnect()
                b.run(go())
            else:
                c.emit(name, data, namespace=ns)
                c.disconnect()
                b.pump()
        except Exception as e:
            return self.fail('emit followed at once by disconnect() raised '
                             '%r' % e)
        errs = b.errors()
        if errs:
            return self.fail('emit followed at once by disconnect(): errors '
                             '%r' % [e.get('exc') for e in errs[:2]])
        ctx.count('last_words_judged')
        new = [r for r in self.records[n0:] if r[2] == name]
        if len(new) != 1 or new[0][0] != 'server' or new[0][1] != ns or \
                not R.deep_eq(new[0][3], gen.expected_args(data)):
            return self.fail('a message emitted right before disconnect() '
                             '(async_handlers=%r) reached the server\'s '
                             'handlers as %r, sent was (%r, %r, %r)' % (
                                 self.async_handlers,
                                 [r[:4] for r in new], ns, name,
                                 gen.expected_args(data)))
        ctx.case((self.cfg, 'last_words', self.async_handlers, ns), None)

    def close(self):
        self.b.close()


def run_case(ctx, k):
    rng = ctx.case_rng(k)
    cfg = CONFIGS[k % len(CONFIGS)]
    s = Session(ctx, rng, cfg, k)
    try:
        s.run()
        ctx.count('sessions_%s_%s_%s' % cfg)
    finally:
        s.close()


def run(ctx):
    ctx.rule = ('sessions of 20-40 messages between a real client and a real '
                'server through the bridge, rotating over the 8 '
                'configurations; each message: direction, mode (emit, '
                'emit+callback, call, send), namespace, random event name '
                'carrying a sequence number, random JSON+bytes payload '
                '(tuple / None / other at top level) and random handler '
                'return value; bursts of 2-50 consecutive emits checked for '
                'order; distinct = (configuration, direction, mode, default '
                'namespace, payload shape, return shape)')
    ctx.assumptions = [
        'python-engineio hands frames to the message callback in arrival '
        'order (trusted); the threaded engine.io client\'s thread-per-message '
        'dispatch is modelled by FIFO deferred tasks',
        'bursts towards a threaded server with async_handlers=True are not '
        'judged for order (a thread per message: no order is defined)',
        'integers within 64 bits, finite floats, tuples only at top level, '
        'no lone surrogates']
    ctx.require('messages_judged', 300)
    ctx.require('callbacks_judged', 50)
    ctx.require('calls_judged', 50)
    ctx.require('bursts_judged', 10)
    ctx.require('last_words_judged', 10)
    ctx.require('callback_bursts', 5)
    ctx.require('bursts_with_handlers_of_both_kinds', 5)
    ctx.require('overlapping_callback_groups', 5)
    ctx.require('binary_frames_through_bridge', 50)
    ctx.require('reconnects_after_partial_message', 5)
    ctx.require('late_acks_after_call_timeout', 5)
    for cfg in CONFIGS:
        ctx.require('sessions_%s_%s_%s' % cfg, 1)
    # real transport (threaded pairing over 127.0.0.1, HTTP long-polling)
    from checks import c02_tcp
    ctx.require('tcp_messages_judged', 10)
    share = (ctx.budget or 40) * 0.12
    # handlers that wait for an acknowledgement themselves (threads under the
    # controlled scheduler)
    from checks import c02_nested
    ctx.require('nested_calls_judged', 20)
    ctx.require('nested_calls_judged_asyncio', 10)
    ctx.require('acks_outstanding_when_sibling_namespace_ended', 10)
    c02_nested.run_part(ctx, share)
    k = ctx.shard * 8
    while ctx.time_left() > share and not ctx.too_many_violations():
        run_case(ctx, k)
        k += 1 if ctx.nshards == 1 else 1
    # (after the bridge: on a broken tree the real transport only times out)
    if not ctx.too_many_violations():
        c02_tcp.run_part(ctx, share, k0=ctx.shard * 10000)
    if ctx.counters.get('tcp_sessions_unavailable'):
        ctx.required.pop('tcp_messages_judged', None)


def replay(ctx, w):
    if w['witness'].get('part') == 'nested_call':
        from checks import c02_nested
        return c02_nested.replay(ctx, w)
    if w['witness'].get('part') == 'tcp':
        from checks import c02_tcp
        return c02_tcp.replay(ctx, w)
    run_case(ctx, w['witness']['case_index'])
