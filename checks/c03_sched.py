"""C03, threaded server: an emit to a room races with membership changes made
by other threads (another client leaves / is disconnected / loses its
transport / enters the room).  Real threads under vlib.sched.ThreadScheduler
(one runs at a time), pre-emption at every engine.io send and at every
manager call; DFS over the schedules of small scenarios.

Oracle per schedule: nothing raises (neither the emit nor the racing
operation); a member whose membership is not touched by the race receives the
event exactly once; a client whose membership changes during the emit at most
once; a client that never was and never becomes a member never.
"""
import collections
import itertools
import threading

from vlib import drive as D
from vlib import refcodec as R
from vlib import sched as SC

from checks.c20 import SchedLock

ROOM = 'room'
NS = '/'
MGR_METHODS = ['is_connected', 'pre_disconnect', 'disconnect',
               'basic_leave_room', 'basic_enter_room', 'get_rooms',
               'sid_from_eio_sid', 'eio_sid_from_sid', 'get_namespaces']
RACERS = ['leave', 'sdisc', 'lose', 'enter', 'close_room', 'emit2']
# a room operation on the very client that is being disconnected
SELF_RACERS = ['enter_self', 'enter_self_other']


class World:
    def __init__(self, sched, nclients=4):
        self.sched = sched
        self.d = D.SyncDrive(async_handlers=False, autojoin=False)
        d = self.d
        d.on('connect', lambda sid, env, auth=None: None, NS)
        d.on('disconnect', lambda sid, reason: None, NS)
        self.T = []
        self.sids = []
        for i in range(nclients):
            t = d.open()
            t.connect(NS)
            self.T.append(t)
            self.sids.append(t.sids[NS])
        # clients 0..2 are members; client 3 is not
        for i in range(3):
            d.sio.enter_room(self.sids[i], ROOM, namespace=NS)
        d.sio.enter_room(self.sids[0], 'solo', namespace=NS)
        self.extra = d.open()       # a transport that is not connected yet
        for t in self.T:
            t.drain()
        self.wrap()

    def wrap(self):
        sched = self.sched
        m = self.d.sio.manager
        for name in MGR_METHODS:
            orig = getattr(m, name)

            def w(*a, _o=orig, _n=name, **k):
                sched.yield_point('mgr.' + _n)
                return _o(*a, **k)
            setattr(m, name, w)
        for attr, val in list(m.__dict__.items()):
            if isinstance(val, type(threading.Lock())):
                setattr(m, attr, SchedLock(sched))
            elif isinstance(val, type(threading.RLock())):
                setattr(m, attr, SchedLock(sched, reentrant=True))
        eio = self.d.eio
        orig_send = eio.send_packet

        def send_packet(sid, pkt):
            sched.yield_point('eio.send_packet')
            return orig_send(sid, pkt)
        eio.send_packet = send_packet

    def actor(self, name):
        d = self.d
        sio = d.sio
        if name == 'emit':
            return lambda: sio.emit('tok1', {'n': 1}, to=ROOM, namespace=NS)
        if name == 'emit2':
            return lambda: sio.emit('tok2', {'n': 2}, to=ROOM, namespace=NS)
        if name == 'emit_bin':
            return lambda: sio.emit('tok1', {'n': 1, 'b': [b'one', b'two']},
                                    to=ROOM, namespace=NS)
        if name == 'emit_bin2':
            return lambda: sio.emit('tok2', {'n': 2, 'b': b'three'},
                                    to=ROOM, namespace=NS)
        if name == 'leave':
            return lambda: sio.leave_room(self.sids[1], ROOM, namespace=NS)
        if name == 'sdisc':
            return lambda: sio.disconnect(self.sids[2], namespace=NS)
        if name == 'lose':
            return lambda: self.T[2].socket.close(
                wait=False, abort=True,
                reason=d.eio.reason.TRANSPORT_ERROR)
        if name == 'enter':
            return lambda: sio.enter_room(self.sids[3], ROOM, namespace=NS)
        if name == 'close_room':
            return lambda: sio.close_room(ROOM, namespace=NS)
        if name == 'enter_new':
            # another client creates a room that did not exist: the
            # namespace's room table grows
            return lambda: sio.enter_room(self.sids[3], 'fresh',
                                          namespace=NS)
        if name == 'leave_last':
            # the only member of a room leaves it: the table shrinks
            return lambda: sio.leave_room(self.sids[0], 'solo', namespace=NS)
        if name == 'connect_new':
            return lambda: self.extra.connect(NS)
        if name in ('enter_self', 'enter_self_other'):
            room = ROOM if name == 'enter_self' else 'other'

            def enter():
                try:
                    sio.enter_room(self.sids[2], room, namespace=NS)
                except (ValueError, KeyError):
                    pass     # "not connected": the disconnect won the race
            return enter
        raise ValueError(name)


def touched(racers):
    """Indices of the clients whose membership the racers change."""
    out = set()
    for r in racers:
        if r == 'leave':
            out.add(1)
        elif r in ('sdisc', 'lose'):
            out.add(2)
        elif r == 'enter':
            out.add(3)
        elif r == 'close_room':
            out.update([0, 1, 2, 3])
    return out


def run_schedule(ctx, racers, choices, rng, bound=None):
    sp = rng.choice([None, 0.05, 0.2]) if rng is not None else None
    sched = SC.ThreadScheduler(choices=choices, rng=rng,
                               preemption_bound=bound, switch_prob=sp)
    w = World(sched)
    binary = 'emit_bin2' in racers
    sched.spawn('emit', w.actor('emit_bin' if binary else 'emit'))
    for r in racers:
        sched.spawn(r, w.actor(r))
    trace = sched.run()
    ctx.count('emit_race_schedules')
    got = []
    undecodable = []
    for i, t in enumerate(w.T):
        t.drain()
        undecodable += [(i, e) for e in t.decode_errors]
        got.append(collections.Counter(
            p['data'][0] for p in t.packets
            if p['type'] in (R.EVENT, R.BINARY_EVENT) and p['data'] and
            str(p['data'][0]).startswith('tok')))
    wit = {'part': 'emit_race', 'racers': racers,
           'choices': [c for _, c in trace],
           'labels': [[a, lbl] for a, lbl in sched.labels][-80:],
           'deliveries': [dict(g) for g in got]}
    if sched.aborted:
        SC.report_abort(ctx, sched, wit, 'emit race: schedule did not '
                        'complete')
        return trace, 'aborted'
    if undecodable:
        # the frames of two multi-frame (binary) packets sent by different
        # threads to one client are interleaved: the client cannot attribute
        # the attachments
        wit['undecodable'] = [[i, e[0][:80], e[1][:120]]
                              for i, e in undecodable[:4]]
        ctx.count('interleaved_frame_streams')
        ctx.violation('concurrent-multi-frame-sends-interleave'
                      if binary else None,
                      'two threads emitting to the same client at the same '
                      'time: the frame stream of client %d cannot be decoded '
                      '(frames of the two packets are interleaved)' %
                      undecodable[0][0], wit)
        return trace, 'undecodable'
    errs = list(sched.errors) + w.d.errors()
    if errs:
        wit['errors'] = [{'actor': e.get('actor'), 'exc': e.get('exc'),
                          'tb': (e.get('tb') or '')[-1500:]}
                         for e in errs[:3]]
        ctx.violation(None, 'emit(room) racing with %s: %s raised in %s' % (
            '+'.join(racers), errs[0].get('exc'),
            errs[0].get('actor') or 'the server'), wit)
        return trace, 'exception'
    # did the sends of the two emitters interleave at all?
    runs = []
    for actor, lbl in sched.labels:
        if lbl == 'eio.send_packet' and (not runs or runs[-1] != actor):
            runs.append(actor)
    mixed_key = 'concurrent-multi-frame-sends-interleave' \
        if binary and len(runs) > 2 else None
    ch = touched(racers)
    toks = ['tok1'] + (['tok2'] if 'emit2' in racers or binary else [])
    for tok in toks:
        for i in range(4):
            n = got[i][tok]
            member0 = i < 3
            if i not in ch:
                want = 1 if member0 else 0
                if n != want:
                    ctx.violation(
                        mixed_key, 'emit(room) racing with %s: client %d (%s, '
                        'untouched by the race) received the event %d times'
                        % ('+'.join(racers), i,
                           'member' if member0 else 'not a member', n), wit)
                    return trace, 'count'
            elif n > 1:
                ctx.violation(mixed_key, 'emit(room) racing with %s: client %d '
                              'received the event %d times' % (
                                  '+'.join(racers), i, n), wit)
                return trace, 'duplicate'
    ctx.count('emit_race_deliveries_checked', 4 * len(toks))
    out = tuple(tuple(sorted(g.items())) for g in got)
    ctx.case(('emit_race', tuple(racers), out,
              tuple(c for _, c in trace)[:40]),
             wit if len(ctx.samples) < 2 else None)
    return trace, 'ok'


def explore(ctx, racers, limit, bound=None):
    choices = []
    n = 0
    while choices is not None and n < limit and \
            not ctx.too_many_violations():
        trace, res = run_schedule(ctx, racers, choices, None, bound)
        n += 1
        choices = SC.next_schedule(trace)
    return n, choices is None


def run_self_race(ctx, racers, choices, rng, bound=None, lines=False):
    """A client is disconnected (namespace level; its transport stays up)
    while another thread adds it to a room.  Whatever the order, once both
    have finished a disconnected client is in no room: rooms() is empty and
    no later emit to any room reaches it."""
    sp = rng.choice([None, 0.05, 0.2]) if rng is not None else None
    sched = SC.ThreadScheduler(choices=choices, rng=rng,
                               preemption_bound=bound, switch_prob=sp)
    w = World(sched)
    for r in racers:
        sched.spawn(r, w.actor(r))
    if lines:
        # every statement of the manager modules is a pre-emption point
        import socketio.base_manager
        import socketio.manager
        SC.enable_lines(sched, [socketio.base_manager.__file__,
                                socketio.manager.__file__])
    try:
        trace = sched.run()
    finally:
        if lines:
            SC.disable_lines()
    ctx.count('self_race_schedules')
    if lines:
        ctx.count('room_table_race_schedules_statement_level')
    wit = {'part': 'self_race', 'racers': racers, 'statement_level': lines,
           'bound': bound, 'choices': [c for _, c in trace],
           'labels': [[a, lbl] for a, lbl in sched.labels][-80:]}
    if sched.aborted:
        SC.report_abort(ctx, sched, wit, 'room-operation race: schedule did '
                        'not complete')
        return trace
    errs = list(sched.errors) + w.d.errors()
    if errs:
        wit['errors'] = [{'actor': e.get('actor'), 'exc': e.get('exc'),
                          'tb': (e.get('tb') or '')[-1500:]}
                         for e in errs[:3]]
        ctx.violation(None, '%s: %s raised in %s' % (
            '+'.join(racers), errs[0].get('exc'),
            errs[0].get('actor') or 'the server'), wit)
        return trace
    sio = w.d.sio
    sid = w.sids[2]
    connected = sio.manager.is_connected(sid, NS)
    for t in w.T:
        t.drain()
    n0 = len(w.T[2].packets)
    # unwrapped from here on: sequential probes
    for room in (ROOM, 'other', None):
        sio.emit('probe', {'r': str(room)}, to=room, namespace=NS)
    w.T[2].drain()
    got = [p for p in w.T[2].packets[n0:] if p['type'] == R.EVENT]
    try:
        rooms = list(sio.rooms(sid, namespace=NS))
    except Exception:
        rooms = []
    wit.update(connected=connected, rooms=[str(r) for r in rooms],
               probes_received=[p['data'] for p in got])
    if not connected and (rooms or got):
        # known finding: the join slipped in after basic_disconnect() had
        # listed the client's rooms and before it left the first of them (the
        # namespace room, whose membership enter_room consults).  A join that
        # succeeds *after* the namespace room was left is something else.
        leaves = 0
        key = None
        for actor, lbl in sched.labels:
            if actor == 0 and lbl == 'mgr.basic_leave_room':
                leaves += 1
            if actor == 1 and lbl == 'mgr.basic_enter_room':
                key = 'room-join-races-disconnect' if leaves <= 1 else None
                break
        wit['leave_calls_begun_before_the_join'] = leaves
        ctx.violation(key, 'a client disconnected while another thread '
                      'added it to a room is still in rooms %r and received '
                      '%d later emits' % (wit['rooms'], len(got)), wit)
        return trace
    ctx.case(('self_race', tuple(racers), connected, len(rooms),
              tuple(c for _, c in trace)[:40]), None)
    return trace


def explore_self(ctx, racers, limit, bound=None, lines=False):
    choices = []
    n = 0
    while choices is not None and n < limit and \
            not ctx.too_many_violations():
        trace = run_self_race(ctx, racers, choices, None, bound, lines)
        n += 1
        choices = SC.next_schedule(trace)
    return n, choices is None


def run_part(ctx, seconds):
    import time
    t_end = time.time() + seconds
    jobs = [[r] for r in RACERS] + [['emit_bin2']] + [
        list(p) for p in itertools.combinations(
            ['leave', 'sdisc', 'lose', 'enter'], 2)]
    summary = ctx.extra.setdefault('emit_race_scenarios', {})
    limit = 150 if ctx.tier == 'quick' else 5000
    k = 0
    # iterative context bounding first (one actor parked at any one of its
    # yield points while the others run on: the atomicity windows), for every
    # scenario; then the deeper searches
    for bound in (1, 2, None):
        for i, racers in enumerate(jobs):
            if ctx.nshards > 1 and i % ctx.nshards != ctx.shard:
                continue
            if time.time() > t_end or ctx.too_many_violations():
                break
            b = bound if bound is not None else (
                None if len(racers) == 1 else 3)
            n, complete = explore(ctx, racers, limit, bound=b)
            summary.setdefault('+'.join(racers), {})[
                'unbounded' if b is None else 'at_most_%d_preemptions' % b] \
                = {'schedules': n, 'complete': complete}
    for racers in (['sdisc', 'enter_self'], ['sdisc', 'enter_self_other']):
        if time.time() > t_end + 5 or ctx.too_many_violations():
            break
        n, complete = explore_self(ctx, racers,
                                   200 if ctx.tier == 'quick' else 5000)
        summary['+'.join(racers)] = {'schedules': n, 'complete': complete}
    # a client is removed while other clients change the namespace's room
    # table (a new room appears, the last member of a room leaves, a client
    # connects): statement-level schedules with at most one pre-emption
    for racers in (['sdisc', 'enter_new'], ['lose', 'leave_last'],
                   ['sdisc', 'connect_new'], ['lose', 'enter_new']):
        if time.time() > t_end + 8 or ctx.too_many_violations():
            break
        n, complete = explore_self(ctx, racers,
                                   250 if ctx.tier == 'quick' else 5000,
                                   bound=1, lines=True)
        summary['+'.join(racers) + ' (statement level, <=1 pre-emption)'] = \
            {'schedules': n, 'complete': complete}
    while time.time() < t_end and not ctx.too_many_violations():
        rng = ctx.case_rng(7 * 10 ** 7 + k)
        racers = list(rng.choice(jobs))
        run_schedule(ctx, racers, [], rng)
        if k % 4 == 0:
            run_self_race(ctx, ['sdisc', rng.choice(SELF_RACERS)], [], rng)
        k += 1


def replay(ctx, w):
    wi = w['witness']
    if wi.get('part') == 'self_race':
        return run_self_race(ctx, wi['racers'], wi['choices'], None,
                             wi.get('bound'), wi.get('statement_level',
                                                     False))
    run_schedule(ctx, wi['racers'], wi['choices'], None)
