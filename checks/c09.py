"""C09 Client events and acknowledgements: one handler, one ACK, callback once.
Mirror image of C05+C06 on the client, with the scripted engine.io client.
"""
import asyncio

from vlib import drive as D
from vlib import eioclient as E
from vlib import gen
from vlib import refcodec as R
from vlib.vtime import settle

LEVEL = 'exploration'
TIERS = {
    'quick': {'budget': 30, 'watchdog': 300, 'shards': 1},
    'thorough': {'budget': 400, 'watchdog': 900, 'shards': 16},
}
NAMESPACES = ['/', '/a', '/b']
EVENTS = ['ev0', 'ev1', 'ev2', 'my event', 'é!', 'unhandled_x', 'ev_g']
HANDLED = ['ev0', 'ev1', 'ev2', 'my event', 'é!']
# a server may name its events as it likes: an EVENT packet called like a
# lifecycle notification goes to the handler registered under that name (and
# is never routed to a catch-all)
RESERVED = ['connect', 'disconnect', 'connect_error']
CLASS_EVENTS = ['ev0', 'ev1', 'ev2']
IDS = [None, None, 0, 0, 1, 1, 2, 7, 10, 10**20]


def classify(w):
    if w.get('after_id0_ack') or (w.get('ack_id') == 0 and
                                  w.get('id0_symptom')):
        return 'ack-id-0-hits-counter'
    return None


def gen_return(rng):
    r = rng.random()
    if r < 0.15:
        return None
    if r < 0.3:
        return rng.choice([0, '', False, [], {}, 0.0, True, 'ok', 42])
    if r < 0.45:
        return tuple(gen.gen_args(rng, True, 2, maxn=3))
    if r < 0.55:
        return gen.gen_bytes(rng)
    if r < 0.6:
        return ()
    return gen.gen_tree(rng, 3, [10], True)


class History:
    def __init__(self, ctx, rng, kind, index):
        import socketio
        self.ctx, self.rng, self.kind, self.index = ctx, rng, kind, index
        self.serializer = rng.choice(['default', 'default', 'msgpack'])
        self.h = E.make_client(kind, serializer=self.serializer,
                               client_kw={'reconnection': False})
        h = self.h
        self.nss = NAMESPACES[:rng.choice([1, 2, 3])]
        self.style = {ns: rng.choice(['func', 'func', 'catchall', 'class',
                                      'none']) for ns in self.nss}
        self.co = rng.random() < 0.6
        self.events = []
        self.returns = {}
        self.ninv = 0
        for ns in self.nss:
            st = self.style[ns]
            if st == 'func':
                for ev in HANDLED + RESERVED:
                    h.on(ev, self.mk(ns, ev, 'func'), ns, self.co)
            elif st == 'catchall':
                h.on('*', self.mk_catchall(ns), ns, self.co)
            elif st == 'class':
                base = socketio.AsyncClientNamespace if h.is_async else \
                    socketio.ClientNamespace
                body = {}
                for ev in CLASS_EVENTS:
                    fn = D.wrap_handler(self.mk(ns, ev, 'class'), h.is_async,
                                        self.co)
                    if h.is_async and self.co:
                        body['on_' + ev] = (lambda fn: (
                            lambda self_, *a: fn(*a)))(fn)

                        async def m(self_, *a, _fn=fn):
                            return await _fn(*a)
                        body['on_' + ev] = m
                    else:
                        def m(self_, *a, _fn=fn):
                            return _fn(*a)
                        body['on_' + ev] = m
                h.c.register_namespace(type('CN', (base,), body)(ns))
        # a function handler registered under the catch-all namespace '*' for
        # one event only: it is the rightful target of that event on every
        # namespace that has no function handler / catch-all of its own
        self.global_ev = rng.random() < 0.4
        if self.global_ev:
            h.on('ev_g', self.mk_global('ev_g'), '*', self.co)
        self.out = {}       # ns -> {id: token}
        self.used = {}      # ns -> set(ids)
        self.fired = set()
        self.id0 = set()
        self.tok = 0
        self.ops = []
        self.failed = False
        self.connected = False

    def mk(self, ns, ev, via):
        def handler(*args):
            self.ninv += 1
            self.events.append(('handler', ns, ev, list(args), via))
            tok = args[0] if args else None
            hook = getattr(self, 'hooks', {}).get(tok) \
                if isinstance(tok, int) else None
            if hook is not None:
                return hook()
            return self.returns.get(tok)
        return handler

    def mk_global(self, ev):
        def handler(ns, *args):
            self.ninv += 1
            self.events.append(('handler', ns, ev, list(args), 'global'))
            tok = args[0] if args else None
            return self.returns.get(tok)
        return handler

    def mk_catchall(self, ns):
        def handler(event, *args):
            self.ninv += 1
            self.events.append(('handler', ns, event, list(args),
                                'catchall'))
            tok = args[0] if args else None
            return self.returns.get(tok)
        return handler

    def responsible(self, ns, ev):
        st = self.style.get(ns, 'none')
        if st == 'func' and ev in HANDLED + RESERVED:
            return 'func'
        if ev in RESERVED:
            return None
        if st == 'catchall':
            return 'catchall'
        if self.global_ev and ev == 'ev_g':
            return 'global'
        if st == 'class' and ev in CLASS_EVENTS:
            return 'class'
        return None

    def witness(self, extra=None):
        w = {'case_index': self.index, 'kind': self.kind,
             'config': {'serializer': self.serializer, 'style': self.style,
                        'global_ev': self.global_ev,
                        'coroutines': self.co},
             'history': self.ops[-25:], 'errors': self.h.all_errors(),
             'outstanding': {ns: dict(v) for ns, v in self.out.items()}}
        if extra:
            w.update(extra)
        return w

    def fail(self, what, extra=None):
        self.failed = True
        w = self.witness(extra)
        self.ctx.violation(classify(w), what, w)

    def connect(self):
        self.h.api('connect', 'http://h', namespaces=list(self.nss),
                   wait=True)
        self.connected = True
        self.mark = len(self.h.sent)

    def new_sent(self):
        out = self.h.sent[self.mark:]
        self.mark = len(self.h.sent)
        return out

    # ------------------------------------------------------------- server
    def server_send(self, ptype, ns, pid, data):
        """Server -> client packet.  A payload without byte strings is
        sometimes sent as the binary twin of the packet type with zero
        attachments ("50-[...]": what Packet(..., binary=True) encodes to,
        and what peers that label every packet of a binary-capable event as
        binary send; msgpack: type 5 / 6, attachments never exist there)."""
        h = self.h
        if not R.has_bytes(data) and self.rng.random() < 0.12:
            btype = R.BINARY_EVENT if ptype == R.EVENT else R.BINARY_ACK
            if self.serializer == 'msgpack':
                frame = R.msgpack_encode(btype, ns, pid, data)
            else:
                text = R.encode(ptype, ns, pid, data)[0]
                frame = '%d0-%s' % (btype, text[1:])
            self.ctx.count('binary_typed_without_attachments')
            h.feed(frame)
            h.pump()
        else:
            h.server_send(ptype, ns, pid, data)

    def do_server_event(self):
        rng, ctx, h = self.rng, self.ctx, self.h
        self.tok += 1
        tok = self.tok
        ns = rng.choice(self.nss)
        ev = rng.choice(EVENTS)
        if rng.random() < 0.08:
            ev = rng.choice(RESERVED)
            ctx.count('events_named_like_lifecycle_notifications')
        args = [tok] + gen.gen_args(rng, True, 3, maxn=3)
        pid = rng.choice(IDS)
        if self.serializer == 'msgpack' and pid is not None and pid >= 2**63:
            pid = 2**62
        ret = gen_return(rng)
        self.returns[tok] = ret
        op = ['server_event', ns, ev, args, pid]
        self.ops.append(op)
        ev0 = len(self.events)
        self.server_send(R.EVENT, ns, pid, [ev] + args)
        errs = h.all_errors()
        extra = {'op': op, 'after_id0_ack': ns in self.id0}
        if errs:
            return self.fail('client raised while handling an event: %s' %
                             errs[0]['exc'], extra)
        who = self.responsible(ns, ev)
        calls = self.events[ev0:]
        want_calls = 1 if who else 0
        ctx.count('events_judged')
        if len(calls) != want_calls:
            return self.fail('event %d: %d handler invocations, expected %d'
                             % (tok, len(calls), want_calls), extra)
        if calls:
            c = calls[0]
            if c[1] != ns or c[2] != ev or not R.deep_eq(c[3], args) or \
                    c[4] != who:
                return self.fail('event %d: handler saw %r, expected '
                                 '(%r, %r, args, %r)' % (tok, c, ns, ev,
                                                         who), extra)
            ctx.count('handler_invocations_checked')
        sent = self.new_sent()
        if pid is None:
            if sent:
                return self.fail('event without id was answered: %r' % sent,
                                 extra)
        else:
            want_data = gen.expected_args(ret if who else None)
            want_type = R.BINARY_ACK if (R.has_bytes(want_data) and
                                         self.serializer == 'default') \
                else R.ACK
            if len(sent) != 1 or sent[0]['type'] != want_type or \
                    sent[0]['id'] != pid or sent[0]['nsp'] != ns or \
                    not R.deep_eq(sent[0]['data'], want_data):
                return self.fail('event %d (id %r): client answered %r, '
                                 'expected one ACK type %d with %r' % (
                                     tok, pid, sent, want_type, want_data),
                                 extra)
            ctx.count('acks_checked')
        ctx.case((self.kind, self.serializer, who, self.co,
                  'N' if pid is None else min(len(str(pid)), 3),
                  R.has_bytes(args), gen.shape(ret) if pid is not None
                  else '-'), {'op': op, 'return': ret, 'responsible': who}
                 if pid is not None else None)

    # ------------------------------------------------------- client emits
    def do_emit(self):
        rng, ctx, h = self.rng, self.ctx, self.h
        self.tok += 1
        tok = self.tok
        ns = rng.choice(self.nss)
        data = gen.gen_payload_arg(rng, True)
        with_cb = rng.random() < 0.7
        cbkind = 'co' if (h.is_async and rng.random() < 0.5) else 'fn'
        kw = {}
        if not (ns == '/' and rng.random() < 0.5):
            kw['namespace'] = ns
        if with_cb:
            if cbkind == 'co':
                async def cb(*a, _t=tok):
                    self.events.append(('callback', _t, list(a)))
            else:
                def cb(*a, _t=tok):
                    self.events.append(('callback', _t, list(a)))
            kw['callback'] = cb
        op = ['emit', tok, ns, data, with_cb and cbkind]
        self.ops.append(op)
        try:
            h.api('emit', 'tok%d' % tok, data, **kw)
        except Exception as e:
            return self.fail('emit raised %r' % e,
                             {'op': op, 'after_id0_ack': ns in self.id0})
        sent = self.new_sent()
        want = ['tok%d' % tok] + gen.expected_args(data)
        if len(sent) != 1 or sent[0]['nsp'] != ns or \
                not R.deep_eq(sent[0]['data'], want) or \
                sent[0]['type'] not in (R.EVENT, R.BINARY_EVENT):
            return self.fail('emit sent %r' % sent, {'op': op})
        pid = sent[0]['id']
        if with_cb:
            ctx.count('ids_checked_unique')
            if not isinstance(pid, int) or isinstance(pid, bool):
                return self.fail('emit with callback carries no id',
                                 {'op': op})
            if pid in self.out.get(ns, {}):
                return self.fail('ack id %r reused while outstanding on %r'
                                 % (pid, ns), {'op': op})
            if pid in self.used.get(ns, ()):
                # (see C06: "repeated ACKs are ignored" needs ids that are
                # never issued twice on one connection and namespace)
                return self.fail('ack id %r was issued again on %r after it '
                                 'had been used on this connection: a '
                                 'repeated acknowledgement of the earlier '
                                 'event would complete this callback'
                                 % (pid, ns), {'op': op})
            self.out.setdefault(ns, {})[pid] = tok
        elif pid is not None:
            return self.fail('emit without callback carries id %r' % pid,
                             {'op': op})

    def pick_ack_id(self, ns):
        rng = self.rng
        mine = self.out.get(ns, {})
        r = rng.random()
        if r > 0.95:
            # an acknowledgement that carries no id at all
            return None, 'noid'
        if mine and r < 0.4:
            return rng.choice(sorted(mine)), 'correct'
        if r < 0.5 and self.used.get(ns):
            return rng.choice(sorted(self.used[ns])), 'duplicate'
        if r < 0.6:
            return 0, 'zero'
        if r < 0.8:
            others = sorted({i for n2, d in self.out.items() if n2 != ns
                             for i in d if i not in mine})
            if others:
                return rng.choice(others), 'foreign'
        top = max(list(mine) + list(self.used.get(ns, [])) + [0])
        return top + rng.choice([1, 5, 1000, 10**15]), 'never_issued'

    def do_server_ack(self):
        rng, ctx, h = self.rng, self.ctx, self.h
        ns = rng.choice(self.nss + ['/zz'] if rng.random() < 0.1
                        else self.nss)
        aid, cls = self.pick_ack_id(ns)
        args = gen.gen_args(rng, True, 3, maxn=3)
        op = ['server_ack', ns, aid, args, cls]
        self.ops.append(op)
        ev0 = len(self.events)
        tok = self.out.get(ns, {}).get(aid)
        extra = {'op': op, 'ack_id': aid,
                 'after_id0_ack': ns in self.id0}
        if aid == 0 and ns in self.out:
            self.id0.add(ns)
        self.server_send(R.ACK, ns, aid, args)
        errs = h.all_errors()
        if errs:
            extra['id0_symptom'] = True
            return self.fail('an ACK (%s id) was not handled without error:'
                             ' %s' % (cls, errs[0]['exc']), extra)
        if self.new_sent():
            return self.fail('an ACK caused the client to send packets',
                             extra)
        cbs = [e for e in self.events[ev0:] if e[0] == 'callback']
        others = [e for e in self.events[ev0:] if e[0] != 'callback']
        if others:
            return self.fail('an ACK invoked an event handler', extra)
        ctx.count('acks_judged')
        ctx.count('acks_' + cls)
        if tok == 'call':
            if cbs:
                return self.fail('late ACK of a timed-out call() invoked a '
                                 'callback', extra)
            del self.out[ns][aid]
            self.used.setdefault(ns, set()).add(aid)
        elif tok is not None:
            if len(cbs) != 1 or cbs[0][1] != tok or \
                    not R.deep_eq(cbs[0][2], args) or tok in self.fired:
                return self.fail('callback for token %r: invocations %r, '
                                 'expected once with %r' % (tok, cbs, args),
                                 extra)
            self.fired.add(tok)
            del self.out[ns][aid]
            self.used.setdefault(ns, set()).add(aid)
            ctx.count('callbacks_checked')
        elif cbs:
            return self.fail('an ACK with a %s id invoked a callback: %r'
                             % (cls, cbs), extra)
        ctx.case((self.kind, self.serializer, 'ack', cls,
                  R.has_bytes(args), min(len(args), 3),
                  len(self.out.get(ns, {}))),
                 {'op': op} if cls != 'correct' else None)

    def do_binary_recovery(self):
        """A binary event whose handler raises, or whose handler is still
        running when the next packet is dispatched (python-engineio runs every
        incoming message on its own task / thread): the packets that follow
        are handled and acknowledged normally."""
        rng, ctx, h = self.rng, self.ctx, self.h
        cand = [ns for ns in self.nss if self.style[ns] == 'func']
        if not cand or self.serializer != 'default':
            return
        ns = rng.choice(cand)
        mode = rng.choice(['raises', 'overlaps'])
        self.tok += 2
        t1, t2 = self.tok - 1, self.tok
        self.hooks = {}
        self.returns[t1] = 'r1'
        self.returns[t2] = {'second': t2}
        if mode == 'raises':
            def boom():
                raise RuntimeError('application handler failed')
            self.hooks[t1] = boom
        elif h.is_async and self.co:
            self.hooks[t1] = lambda: D.Delay('r1', 0.5)
        elif not h.is_async:
            def slow():
                h.pump()        # the other message threads run meanwhile
                return 'r1'
            self.hooks[t1] = slow
        else:
            self.hooks = {}
            return
        op = ['binary_recovery', mode, ns, t1, t2]
        self.ops.append(op)
        ev0 = len(self.events)
        h.clear_errors()
        h.deliver(R.EVENT, ns, 21, ['ev0', t1, b'blob', {'k': [b'']}])
        h.deliver(R.EVENT, ns, 22, ['ev1', t2, 'text'])
        h.pump()
        self.hooks = {}
        errs = [e for e in h.all_errors()
                if 'application handler failed' not in (e.get('msg') or '')
                and 'application handler failed' not in (e.get('tb') or '')]
        h.clear_errors()
        sent = self.new_sent()
        inv = [e for e in self.events[ev0:] if e[0] == 'handler']
        ctx.count('binary_recoveries_' + mode)
        extra = {'op': op, 'invocations': inv,
                 'sent': [[p['type'], p['nsp'], p['id'], p['data']]
                          for p in sent], 'errors': errs[:2]}
        second = [e for e in inv if e[3] and e[3][0] == t2]
        ack2 = [p for p in sent if p['type'] == R.ACK and p['id'] == 22 and
                p['nsp'] == ns]
        if errs or len(second) != 1 or len(ack2) != 1 or \
                not R.deep_eq(ack2[0]['data'], [{'second': t2}]):
            return self.fail('the packet that followed a binary event whose '
                             'handler %s was not handled normally: %d '
                             'invocations, ACKs %r, errors %r' % (
                                 mode, len(second),
                                 [p['data'] for p in ack2],
                                 [e.get('exc') for e in errs[:2]]), extra)
        first = [e for e in inv if e[3] and e[3][0] == t1]
        ack1 = [p for p in sent if p['id'] == 21]
        if len(first) != 1 or (mode == 'raises' and ack1) or (
                mode == 'overlaps' and (len(ack1) != 1 or
                                        ack1[0]['data'] != ['r1'])):
            return self.fail('binary event whose handler %s: %d invocations, '
                             'ACKs %r' % (mode, len(first),
                                          [p['data'] for p in ack1]), extra)
        ctx.case((self.kind, 'binary_recovery', mode), {'op': op})

    def do_dup_ack_race(self):
        """The same ACK arrives twice, the second one while the callback
        started by the first is still running.  python-engineio's clients
        dispatch every incoming message on its own task / thread, so this is
        an ordinary schedule: on asyncio the callback awaits and the second
        message's task runs meanwhile; on the threaded client the blocked
        callback lets the other message threads run (the harness's queued
        background tasks are pumped from inside the callback).  The callback
        must run exactly once."""
        rng, ctx, h = self.rng, self.ctx, self.h
        ns = rng.choice(self.nss)
        self.tok += 1
        tok = self.tok
        calls = []
        if h.is_async:
            async def slow(*args):
                calls.append(list(args))
                await asyncio.sleep(0.5)
        else:
            def slow(*args):
                calls.append(list(args))
                h.pump()
        op = ['dup_ack_race', tok, ns]
        self.ops.append(op)
        extra = {'op': op, 'after_id0_ack': ns in self.id0}
        try:
            h.api('emit', 'tok%d' % tok, {'t': tok}, namespace=ns,
                  callback=slow)
        except Exception as e:
            return self.fail('emit with callback raised %r' % e, extra)
        pk = [p for p in self.new_sent()
              if p['type'] in (R.EVENT, R.BINARY_EVENT)]
        if len(pk) != 1 or pk[0]['id'] is None:
            return self.fail('emit with callback sent %r' % pk, extra)
        aid = pk[0]['id']
        if aid in self.out.get(ns, {}):
            return self.fail('ack id %r reused while outstanding on %r' % (
                aid, ns), extra)
        # both ACK frames are queued before anything is processed
        h.deliver(R.ACK, ns, aid, ['a', tok])
        h.deliver(R.ACK, ns, aid, ['a', tok])
        h.pump()
        errs = h.all_errors()
        ctx.count('duplicate_ack_races')
        if errs:
            return self.fail('duplicate ACK racing with its running callback '
                             'was not handled without error: %s' %
                             errs[0]['exc'], extra)
        if len(calls) != 1 or not R.deep_eq(calls[0], ['a', tok]):
            return self.fail('callback invoked %d times when its ACK arrived '
                             'twice, the second time while the callback was '
                             'still running' % len(calls),
                             dict(extra, invocations=calls))
        self.used.setdefault(ns, set()).add(aid)
        ctx.case((self.kind, 'dup_ack_race', self.serializer),
                 {'op': op, 'invocations': calls})

    def do_call(self):
        rng, ctx, h = self.rng, self.ctx, self.h
        self.tok += 1
        tok = self.tok
        ns = rng.choice(self.nss)
        data = gen.gen_payload_arg(rng, True)
        timeout = rng.choice([1, 5, 60, 0.5])
        script = rng.choice(['ack', 'ack', 'timeout', 'wrongid_then_ack',
                             'foreign_ns_ack_timeout'])
        args = gen.gen_args(rng, True, 3, maxn=3)
        op = ['call', tok, ns, data, timeout, script, args]
        self.ops.append(op)
        state = {}

        def reactions():
            sent = self.new_sent()
            pk = [p for p in sent if p['type'] in (R.EVENT, R.BINARY_EVENT)]
            if len(pk) != 1:
                return None
            state['pkt'] = pk[0]
            cid = pk[0]['id']
            state['id'] = cid
            if script == 'ack':
                return [(ns, cid, args)]
            if script == 'wrongid_then_ack':
                return [(ns, (cid or 0) + 9, ['wrong']), (ns, cid, args)]
            if script == 'foreign_ns_ack_timeout':
                for n2 in self.nss + ['/zz']:
                    if n2 != ns and cid not in self.out.get(n2, {}):
                        return [(n2, cid, args)]
            return []
        if h.is_async:
            loop = h.loop

            async def go():
                task = asyncio.ensure_future(h.c.call(
                    'tok%d' % tok, data, namespace=ns, timeout=timeout))
                await settle(loop, horizon=0)
                rs = reactions()
                if rs is None:
                    task.cancel()
                    return 'noemit', None
                for n2, i2, a2 in rs:
                    h.deliver(R.ACK, n2, i2, a2)
                    await settle(loop, horizon=0)
                if not task.done():
                    await asyncio.sleep(timeout + 0.001)
                    await settle(loop, horizon=0)
                    if not task.done():
                        state['late'] = True
                try:
                    return 'ok', await task
                except BaseException as e:
                    return 'exc', e
            status, val = h.run(go(), horizon=0)
        else:
            def idle(ev, tmo):
                if ev.label != 'call' or state.get('reacted'):
                    return False
                state['reacted'] = True
                state['wait'] = tmo
                rs = reactions()
                if not rs:
                    return False
                for n2, i2, a2 in rs:
                    h.deliver(R.ACK, n2, i2, a2)
                return True
            h.idle_hook = idle
            try:
                try:
                    status, val = 'ok', h.api('call', 'tok%d' % tok, data,
                                              namespace=ns, timeout=timeout)
                except BaseException as e:
                    status, val = 'exc', e
            finally:
                h.idle_hook = None
            if 'pkt' not in state:
                status = 'noemit'
            elif state.get('wait') != timeout:
                return self.fail('call() waited with timeout %r, expected '
                                 '%r' % (state.get('wait'), timeout),
                                 {'op': op})
        extra = {'op': op, 'status': status, 'value': val,
                 'after_id0_ack': ns in self.id0}
        errs = h.all_errors()
        if errs:
            return self.fail('exception escaped during call(): %s' %
                             errs[0]['exc'], extra)
        if status == 'noemit':
            return self.fail('call() did not emit exactly one event', extra)
        if state.get('late'):
            return self.fail('call(timeout=%r) had not timed out in time'
                             % timeout, extra)
        p = state['pkt']
        if p['id'] in self.out.get(ns, {}):
            return self.fail('call() reused an outstanding ack id', extra)
        want = ['tok%d' % tok] + gen.expected_args(data)
        if p['nsp'] != ns or not R.deep_eq(p['data'], want):
            return self.fail('call() emitted a different event', extra)
        ctx.count('calls_judged')
        if script in ('ack', 'wrongid_then_ack'):
            shaped = None if len(args) == 0 else (
                args[0] if len(args) == 1 else tuple(args))
            if status != 'ok' or not R.deep_eq(val, shaped) or (
                    len(args) > 1 and not isinstance(val, tuple)):
                return self.fail('call() returned %r (%s), expected %r' % (
                    val, status, shaped), extra)
            self.used.setdefault(ns, set()).add(p['id'])
        else:
            if status != 'exc' or type(val).__name__ != 'TimeoutError' or \
                    type(val).__module__ != 'socketio.exceptions':
                return self.fail('call() without acknowledgement: %s %r' % (
                    status, val), extra)
            ctx.count('call_timeouts_observed')
            self.out.setdefault(ns, {})[p['id']] = 'call'
        ctx.case((self.kind, 'call', script, min(len(args), 3),
                  self.serializer), {'op': op, 'result': repr(val)[:80]})

    def step(self):
        r = self.rng.random()
        if r < 0.35:
            return self.do_server_event()
        if r < 0.6:
            return self.do_emit()
        if r < 0.7:
            return self.do_call()
        if r < 0.72:
            return self.do_dup_ack_race()
        if r < 0.74:
            return self.do_binary_recovery()
        if r < 0.76:
            return self.do_server_ends_a_namespace()
        return self.do_server_ack()

    def do_server_ends_a_namespace(self):
        """The server disconnects one of several connected namespaces: the
        callbacks outstanding on the others are untouched (their ids stay
        reserved, their acknowledgements still arrive)."""
        if len(self.nss) < 2:
            return self.do_server_ack()
        ns = self.rng.choice(self.nss)
        op = ['server_disconnects_namespace', ns]
        self.ops.append(op)
        self.h.server_send(R.DISCONNECT, ns, None, None)
        errs = self.h.all_errors()
        if errs:
            return self.fail('server DISCONNECT of one namespace: %s' %
                             errs[0]['exc'], {'op': op})
        self.new_sent()
        self.nss = [n for n in self.nss if n != ns]
        # what was outstanding on the ended namespace can no longer be
        # answered; ids used there no longer matter
        self.ended_out = getattr(self, 'ended_out', {})
        self.ended_out[ns] = dict(self.out.pop(ns, {}))
        self.used.pop(ns, None)
        self.ctx.count('namespaces_ended_by_the_server')

    def finale(self):
        """The server disconnects every namespace that is left (the client
        ends the transport itself), the application connects the same client
        object again, and acknowledgements bearing ids of the previous
        connection arrive: nothing of the previous connection is invoked."""
        h, ctx = self.h, self.ctx
        old = {ns: dict(d) for ns, d in self.out.items() if d}
        for ns, d in getattr(self, 'ended_out', {}).items():
            old.setdefault(ns, {}).update(d)
        nss0 = list(self.style)
        for ns in list(self.nss):
            h.server_send(R.DISCONNECT, ns, None, None)
        self.ops.append(['server_disconnects_every_namespace'])
        h.clear_errors()
        try:
            h.api('connect', 'http://h', namespaces=nss0, wait=True)
        except Exception as e:
            return self.fail('connect() after the server had ended every '
                             'namespace raised %r' % e)
        self.mark = len(h.sent)
        ev0 = len(self.events)
        n = 0
        for ns, d in sorted(old.items()):
            for aid, tok in sorted(d.items()):
                h.server_send(R.ACK, ns, aid, ['late', tok])
                n += 1
        ctx.count('stale_acks_on_a_new_connection', n)
        ctx.count('reconnected_histories')
        errs = h.all_errors()
        if errs:
            return self.fail('an ACK bearing an id of the previous connection '
                             'was not ignored quietly: %s' % errs[0]['exc'])
        cbs = [e for e in self.events[ev0:] if e[0] == 'callback']
        if cbs:
            return self.fail('after the server had ended every namespace and '
                             'the client connected again, acknowledgements '
                             'bearing ids of the previous connection invoked '
                             '%r' % (cbs,), {'old_outstanding': {
                                 ns: sorted(d) for ns, d in old.items()}})

    def close(self):
        self.h.close()


def run_case(ctx, k):
    rng = ctx.case_rng(k)
    h = History(ctx, rng, 'sync' if k % 2 == 0 else 'async', k)
    try:
        h.connect()
        for _ in range(rng.choice([20, 40, 80])):
            h.step()
            if h.failed:
                break
        if not h.failed and rng.random() < 0.4:
            h.finale()
    finally:
        h.close()


def run(ctx):
    ctx.rule = ('sequences of EVENT/BINARY_EVENT/ACK/BINARY_ACK packets from '
                'a scripted server on several namespaces (ids None/0/'
                'colliding/huge) interleaved with client emits with and '
                'without callbacks and call(); ACK ids correct, duplicate, '
                'unknown, zero or outstanding on another namespace; '
                'function, catch-all and class-based handlers, sync and '
                'coroutine; distinct = (client kind, serializer, target '
                'kind, id class, binary, return shape) / (ack class, ...) / '
                '(call script, ...)')
    ctx.assumptions = ['events on namespaces that are not connected are not '
                       'generated (the property speaks of connected ones)',
                       'timeouts observed on virtual waits']
    ctx.require('events_judged', 100)
    ctx.require('acks_checked', 30)
    ctx.require('acks_judged', 50)
    ctx.require('duplicate_ack_races', 5)
    ctx.require('binary_recoveries_raises', 3)
    ctx.require('binary_recoveries_overlaps', 3)
    ctx.require('callbacks_checked', 20)
    ctx.require('events_named_like_lifecycle_notifications', 20)
    ctx.require('namespaces_ended_by_the_server', 10)
    ctx.require('reconnected_histories', 10)
    ctx.require('calls_judged', 20)
    ctx.require('call_timeouts_observed', 5)
    for cls in ('correct', 'duplicate', 'zero', 'foreign', 'never_issued',
                'noid'):
        ctx.require('acks_' + cls, 3)
    # two threads emitting with callbacks at the same time (handlers run in
    # a thread each): distinct ids, each callback once with its own ACK
    from checks import ackid_sched
    ctx.require('binary_typed_without_attachments', 20)
    ctx.require('ack_id_race_schedules', 30)
    ackid_sched.run_part(ctx, 'client', (ctx.budget or 30) * 0.12)
    # the same acknowledgement handled by two threads at the same time
    ctx.require('duplicate_ack_schedules', 30)
    ackid_sched.run_dup_ack_part(ctx, 'client', (ctx.budget or 30) * 0.08)
    k = 0
    while not ctx.out_of_time() and not ctx.too_many_violations():
        run_case(ctx, k)
        ctx.count('histories')
        k += 1


def replay(ctx, w):
    if w['witness'].get('part') in ('ack_id_race', 'dup_ack_race'):
        from checks import ackid_sched
        return ackid_sched.replay(ctx, w)
    run_case(ctx, w['witness']['case_index'])
