"""Acknowledgement ids under threads (parts of C06 and C09).

Two application threads emit with a callback to the same peer on the same
namespace at the same time (handlers run in a thread each, so this is ordinary
use of the threaded server and client).  The ids on the two events must
differ, and each callback is invoked once with the arguments of the
acknowledgement of its own event.

Real threads under vlib.sched.ThreadScheduler with every statement start of
the id-generating modules as a yield point (sys.monitoring); all schedules
with at most one pre-emption (DFS), then seeded random ones.
"""
from vlib import drive as D
from vlib import eioclient as E
from vlib import refcodec as R
from vlib import sched as SC


def _files(side):
    import socketio.base_client
    import socketio.base_manager
    import socketio.client
    import socketio.manager
    import socketio.server
    if side == 'client':
        return [socketio.base_client.__file__, socketio.client.__file__]
    return [socketio.base_manager.__file__, socketio.manager.__file__,
            socketio.server.__file__]


def run_schedule(ctx, side, choices, rng, bound):
    sched = SC.ThreadScheduler(
        choices=choices, rng=rng, preemption_bound=bound,
        switch_prob=(rng.choice([0.02, 0.05, 0.15]) if rng is not None
                     else None), max_steps=200000)
    fired = {0: [], 1: []}
    ns = '/a'
    if side == 'client':
        h = E.SyncClientHarness(client_kw={'reconnection': False})
        h.api('connect', 'http://x', namespaces=['/', ns])
        # an id is outstanding on the other namespace as well
        h.c.emit('other', 1, namespace='/', callback=lambda *a: None)
        n0 = len(h.sent)

        def actor(i):
            return lambda: h.c.emit('ev%d' % i, {'i': i}, namespace=ns,
                                    callback=lambda *a: fired[i].append(
                                        list(a)))

        def sent():
            return [p for p in h.sent[n0:] if p['type'] == R.EVENT]

        def ack(pid, args):
            h.server_send(R.ACK, ns, pid, args)

        def errors():
            return h.all_errors()
        close = h.close
    else:
        d = D.SyncDrive(async_handlers=False, namespaces=['/', ns])
        d.on('connect', lambda sid, env, auth=None: None, ns)
        t = d.open()
        t.connect(ns)
        sid = t.sids[ns]
        t.drain()

        def actor(i):
            return lambda: d.sio.emit('ev%d' % i, {'i': i}, to=sid,
                                      namespace=ns,
                                      callback=lambda *a: fired[i].append(
                                          list(a)))

        def sent():
            return [p for p in t.packets if p['type'] == R.EVENT]

        def ack(pid, args):
            t.send_packet(R.ACK, ns, pid, args)

        def errors():
            return d.errors()
        close = d.close
    try:
        sched.spawn('emit0', actor(0))
        sched.spawn('emit1', actor(1))
        SC.enable_lines(sched, _files(side))
        try:
            trace = sched.run()
        finally:
            SC.disable_lines()
        if side == 'server':
            t.drain()
        ctx.count('ack_id_race_schedules')
        ctx.count('ack_id_race_yield_points', len(sched.labels))
        wit = {'part': 'ack_id_race', 'side': side,
               'choices': [c for _, c in trace], 'bound': bound,
               'labels': [[a, lbl] for a, lbl in sched.labels][-60:]}
        errs = list(sched.errors) + errors()
        if sched.aborted:
            SC.report_abort(ctx, sched, wit)
            return trace
        if errs:
            wit['errors'] = [{'exc': e.get('exc'), 'tb': (e.get('tb') or
                                                          '')[-1200:]}
                             for e in errs[:3]]
            ctx.violation(None, 'two threads emitting with callbacks at the '
                          'same time: exception (%s)' % errs[0].get('exc'),
                          wit)
            return trace
        ev = {p['data'][0]: p['id'] for p in sent()}
        wit['ids'] = ev
        if set(ev) != {'ev0', 'ev1'} or None in ev.values():
            ctx.violation(None, 'events sent by the two threads: %r' % ev,
                          wit)
            return trace
        if ev['ev0'] == ev['ev1']:
            ctx.violation(None, 'two emits with callbacks issued by two '
                          'threads at the same time on one namespace carry '
                          'the same acknowledgement id %r' % ev['ev0'], wit)
            return trace
        ack(ev['ev1'], ['for', 1])
        ack(ev['ev0'], ['for', 0])
        wit['callbacks'] = fired
        if fired != {0: [['for', 0]], 1: [['for', 1]]}:
            ctx.violation(None, 'callbacks of two concurrent emits were '
                          'invoked with %r' % fired, wit)
            return trace
        ctx.case(('ack_id_race', side, tuple(c for _, c in trace)[:60]),
                 None)
        return trace
    finally:
        close()


def run_call_schedule(ctx, choices, rng, bound):
    """Threaded server: call() waits in one thread while the client's
    acknowledgement is handled in another.  Whenever the waiter wakes up, the
    acknowledged values are there: call() returns them (never None for an
    acknowledgement that carried a value)."""
    sched = SC.ThreadScheduler(
        choices=choices, rng=rng, preemption_bound=bound,
        switch_prob=(rng.choice([0.02, 0.05, 0.15]) if rng is not None
                     else None), max_steps=200000)
    ns = '/a'
    d = D.SyncDrive(async_handlers=True, autojoin=False,
                    namespaces=['/', ns])
    d.on('connect', lambda sid, env, auth=None: None, ns)
    t = d.open()
    t.connect(ns)
    sid = t.sids[ns]
    t.drain()
    d.eio.create_event = lambda *a, **k: SC.SchedEvent(sched, 'call_event')
    args = rng.choice([['pong'], ['pong', 2], [{'k': 1}]]) \
        if rng is not None else ['pong']
    out = {}

    def caller():
        try:
            out['result'] = ('ok', d.sio.call('q', {'x': 1}, to=sid,
                                              namespace=ns, timeout=5))
        except Exception as e:
            out['result'] = (type(e).__name__, None)

    def sent_id():
        t.drain()
        for p in t.packets:
            if p['type'] == R.EVENT and p['data'][0] == 'q':
                return p['id']
        return None

    def acker():
        sched.block_until(lambda: sent_id() is not None, 'client.got_event')
        t.send_packet(R.ACK, ns, sent_id(), args)
    try:
        sched.spawn('call', caller)
        sched.spawn('ack', acker)
        SC.enable_lines(sched, _files('server'))
        try:
            trace = sched.run()
        finally:
            SC.disable_lines()
        ctx.count('call_wakeup_schedules')
        wit = {'part': 'call_wakeup', 'choices': [c for _, c in trace],
               'bound': bound, 'acknowledged': args,
               'labels': [[a, lbl] for a, lbl in sched.labels][-60:],
               'result': core_jsonable(out.get('result'))}
        if sched.aborted:
            SC.report_abort(ctx, sched, wit)
            return trace
        errs = list(sched.errors) + d.errors()
        if errs:
            wit['errors'] = [{'exc': e.get('exc'), 'tb': (e.get('tb') or
                                                          '')[-1200:]}
                             for e in errs[:3]]
            ctx.violation(None, 'call() racing with its acknowledgement: '
                          'exception (%s)' % errs[0].get('exc'), wit)
            return trace
        want = args[0] if len(args) == 1 else tuple(args)
        got = out.get('result')
        if not got or got[0] != 'ok' or got[1] != want:
            ctx.violation(None, 'call() whose acknowledgement %r was handled '
                          'by another thread returned %r' % (args, got), wit)
            return trace
        ctx.case(('call_wakeup', len(args),
                  tuple(c for _, c in trace)[:60]), None)
        return trace
    finally:
        d.close()


def run_dup_ack_schedule(ctx, side, choices, rng, bound):
    """The same acknowledgement arrives twice and the two copies are handled
    by two threads at the same time (two polling requests in flight; the
    threaded client dispatches every message on its own thread): the callback
    runs exactly once, and the copy that loses is ignored without error."""
    sched = SC.ThreadScheduler(
        choices=choices, rng=rng, preemption_bound=bound,
        switch_prob=(rng.choice([0.02, 0.05, 0.15]) if rng is not None
                     else None), max_steps=200000)
    ns = '/a'
    fired = []
    if side == 'client':
        h = E.SyncClientHarness(client_kw={'reconnection': False})
        h.api('connect', 'http://x', namespaces=['/', ns])
        n0 = len(h.sent)
        h.c.emit('ev', {'i': 1}, namespace=ns,
                 callback=lambda *a: fired.append(list(a)))
        pid = [p for p in h.sent[n0:] if p['type'] == R.EVENT][0]['id']
        frame = R.encode(R.ACK, ns, pid, ['done'])[0]

        def actor():
            return lambda: h.c._handle_eio_message(frame)

        def errors():
            return h.all_errors()
        close = h.close
    else:
        d = D.SyncDrive(async_handlers=False, autojoin=False,
                        namespaces=['/', ns])
        d.on('connect', lambda sid, env, auth=None: None, ns)
        t = d.open()
        t.connect(ns)
        sid = t.sids[ns]
        t.drain()
        d.sio.emit('ev', {'i': 1}, to=sid, namespace=ns,
                   callback=lambda *a: fired.append(list(a)))
        pid = [p for p in t.drain() if p['type'] == R.EVENT][0]['id']
        from engineio import packet as eio_packet
        frame = R.encode(R.ACK, ns, pid, ['done'])[0]

        def actor():
            return lambda: t.socket.receive(eio_packet.Packet(
                eio_packet.MESSAGE, frame))

        def errors():
            return d.errors()
        close = d.close
    try:
        sched.spawn('ack0', actor())
        sched.spawn('ack1', actor())
        SC.enable_lines(sched, _files(side))
        try:
            trace = sched.run()
        finally:
            SC.disable_lines()
        ctx.count('duplicate_ack_schedules')
        wit = {'part': 'dup_ack_race', 'side': side,
               'choices': [c for _, c in trace], 'bound': bound,
               'labels': [[a, lbl] for a, lbl in sched.labels][-60:],
               'callback_invocations': fired}
        if sched.aborted:
            SC.report_abort(ctx, sched, wit)
            return trace
        errs = list(sched.errors) + errors()
        if fired != [['done']]:
            ctx.violation(None, 'the same acknowledgement handled by two '
                          'threads at the same time invoked the callback %d '
                          'times' % len(fired), wit)
            return trace
        if errs:
            wit['errors'] = [{'exc': e.get('exc'), 'tb': (e.get('tb') or
                                                          '')[-1200:]}
                             for e in errs[:3]]
            ctx.violation(None, 'the same acknowledgement handled by two '
                          'threads at the same time: the copy that lost '
                          'was not ignored quietly (%s)' % errs[0].get('exc'),
                          wit)
            return trace
        ctx.case(('dup_ack_race', side, tuple(c for _, c in trace)[:60]),
                 None)
        return trace
    finally:
        close()


def run_dup_ack_part(ctx, side, seconds):
    import time
    t_end = time.time() + seconds
    choices = []
    n = 0
    while choices is not None and time.time() < t_end and \
            not ctx.too_many_violations():
        trace = run_dup_ack_schedule(ctx, side, choices, None, 1)
        n += 1
        choices = SC.next_schedule(trace)
    ctx.extra['dup_ack_race_%s' % side] = {
        'schedules_at_most_1_preemption': n, 'complete': choices is None}
    k = ctx.shard * 10 ** 6
    while time.time() < t_end and not ctx.too_many_violations():
        rng = ctx.case_rng(16 * 10 ** 7 + k)
        run_dup_ack_schedule(ctx, side, [], rng, None)
        k += 1


def core_jsonable(x):
    from vlib import core
    return core.jsonable(x)


def run_call_part(ctx, seconds):
    import time
    t_end = time.time() + seconds
    choices = []
    n = 0
    while choices is not None and time.time() < t_end and \
            not ctx.too_many_violations():
        trace = run_call_schedule(ctx, choices, None, 1)
        n += 1
        choices = SC.next_schedule(trace)
    ctx.extra['call_wakeup'] = {'schedules_at_most_1_preemption': n,
                                'complete': choices is None}
    k = ctx.shard * 10 ** 6
    while time.time() < t_end and not ctx.too_many_violations():
        rng = ctx.case_rng(15 * 10 ** 7 + k)
        run_call_schedule(ctx, [], rng, None)
        k += 1


def run_part(ctx, side, seconds):
    import time
    t_end = time.time() + seconds
    choices = []
    n = 0
    complete = False
    while choices is not None and time.time() < t_end and \
            not ctx.too_many_violations():
        trace = run_schedule(ctx, side, choices, None, 1)
        n += 1
        choices = SC.next_schedule(trace)
    complete = choices is None
    ctx.extra['ack_id_race_%s' % side] = {
        'schedules_at_most_1_preemption': n, 'complete': complete}
    k = ctx.shard * 10 ** 6
    while time.time() < t_end and not ctx.too_many_violations():
        rng = ctx.case_rng(13 * 10 ** 7 + k)
        run_schedule(ctx, side, [], rng, None)
        k += 1


def replay(ctx, w):
    wi = w['witness']
    if wi.get('part') == 'dup_ack_race':
        return run_dup_ack_schedule(ctx, wi['side'], wi['choices'], None,
                                    wi.get('bound'))
    if wi.get('part') == 'call_wakeup':
        return run_call_schedule(ctx, wi['choices'], None, wi.get('bound'))
    run_schedule(ctx, wi['side'], wi['choices'], None, wi.get('bound'))
