"""C02, real transport: an unmodified socketio.Client (python-engineio's real
threaded client with its real read/write loop threads, HTTP long-polling via
`requests`) connected over 127.0.0.1 to an unmodified threaded socketio.Server
behind a wsgiref server.  Fidelity anchor for the bridge: the same argument
rule is judged on real threads and real framing.

Wall clock is never a verdict: a call()/callback that does not complete in
the (generous) time allowed is counted as `tcp_timeouts_skipped`, not judged.
"""
import threading
import time
from socketserver import ThreadingMixIn
from wsgiref.simple_server import (WSGIRequestHandler, WSGIServer,
                                   make_server)

from vlib import gen
from vlib import refcodec as R

NSS = ['/', '/chat']


class _Quiet(WSGIRequestHandler):
    def log_message(self, *a):
        pass


class _TS(ThreadingMixIn, WSGIServer):
    daemon_threads = True


def shape_result(args):
    return None if len(args) == 0 else (args[0] if len(args) == 1
                                        else tuple(args))


class TcpSession:
    def __init__(self, ctx, rng, index):
        import socketio
        self.ctx, self.rng, self.index = ctx, rng, index
        self.serializer = rng.choice(['default', 'default', 'msgpack'])
        self.async_handlers = rng.random() < 0.5
        self.sio = socketio.Server(async_mode='threading',
                                   serializer=self.serializer,
                                   async_handlers=self.async_handlers,
                                   monitor_clients=False)
        self.lock = threading.Lock()
        self.records = []
        self.rets = {}
        self.failed = False
        self.seq = 0
        self.history = []
        for ns in NSS:
            self.sio.on('*', self.mk('server', ns, True), namespace=ns)
        app = socketio.WSGIApp(self.sio)
        self.httpd = make_server('127.0.0.1', 0, app, _TS, _Quiet)
        self.port = self.httpd.server_address[1]
        self.thread = threading.Thread(target=self.httpd.serve_forever,
                                       daemon=True)
        self.thread.start()
        self.c = socketio.Client(reconnection=False,
                                 serializer=self.serializer,
                                 handle_sigint=False)
        for ns in NSS:
            self.c.on('*', self.mk('client', ns, False), namespace=ns)
        self.c.connect('http://127.0.0.1:%d' % self.port,
                       transports=['polling'], namespaces=list(NSS),
                       wait_timeout=20)
        self.sids = {ns: self.c.get_sid(ns) for ns in NSS}

    def mk(self, side, ns, has_sid):
        def handler(event, *args):
            if has_sid:
                sid, args = args[0], args[1:]
            else:
                sid = None
            with self.lock:
                self.records.append((side, ns, event, list(args), sid))
            return self.rets.get(event)
        return handler

    def fail(self, what, extra=None):
        self.failed = True
        w = {'part': 'tcp', 'case_index': self.index,
             'serializer': self.serializer,
             'async_handlers': self.async_handlers,
             'history': self.history[-8:]}
        if extra:
            w.update(extra)
        self.ctx.violation(None, what, w)

    def one(self):
        rng, ctx = self.rng, self.ctx
        direction = rng.choice(['c2s', 's2c'])
        mode = rng.choice(['emit_cb', 'call', 'call'])
        if mode == 'call' and direction == 's2c' and not self.async_handlers:
            mode = 'emit_cb'
        ns = rng.choice(NSS)
        data = gen.gen_payload_arg(rng, True, 64)
        ret = gen.gen_payload_arg(rng, True, 64)
        self.seq += 1
        name = '%d|%s' % (self.seq, gen.gen_event_name(rng))
        self.rets[name] = ret
        msg = {'dir': direction, 'mode': mode, 'ns': ns, 'name': name,
               'data': data, 'ret': ret}
        self.history.append(msg)
        n0 = len(self.records)
        done = threading.Event()
        cb = []

        def callback(*a):
            cb.append(a)
            done.set()
        result = None
        try:
            if direction == 'c2s':
                if mode == 'emit_cb':
                    self.c.emit(name, data, namespace=ns, callback=callback)
                else:
                    result = self.c.call(name, data, namespace=ns,
                                         timeout=15)
            else:
                if mode == 'emit_cb':
                    self.sio.emit(name, data, to=self.sids[ns], namespace=ns,
                                  callback=callback)
                else:
                    result = self.sio.call(name, data, to=self.sids[ns],
                                           namespace=ns, timeout=15)
            if mode == 'emit_cb' and not done.wait(15):
                ctx.count('tcp_timeouts_skipped')
                return
        except Exception as e:
            if type(e).__name__ == 'TimeoutError':
                ctx.count('tcp_timeouts_skipped')
                return
            return self.fail('%s %s over TCP raised %r' % (direction, mode,
                                                           e),
                             {'message': msg})
        with self.lock:
            new = self.records[n0:]
        want_side = 'server' if direction == 'c2s' else 'client'
        want_args = gen.expected_args(data)
        ctx.count('tcp_messages_judged')
        if len(new) != 1:
            return self.fail('%d handler invocations for one message over '
                             'TCP' % len(new), {'message': msg,
                                                'records': new})
        side, rns, event, args, sid = new[0]
        if side != want_side or rns != ns or event != name or \
                not R.deep_eq(args, want_args) or (
                    want_side == 'server' and sid != self.sids[ns]):
            return self.fail('message over TCP arrived as (%s, %r, %r, %r), '
                             'sent as (%s, %r, %r, %r)' % (
                                 side, rns, event, args, want_side, ns, name,
                                 want_args), {'message': msg})
        if mode == 'emit_cb':
            want_cb = gen.expected_args(ret)
            if len(cb) != 1 or not R.deep_eq(list(cb[0]), want_cb):
                return self.fail('callback over TCP got %r, the handler '
                                 'returned %r' % (cb, ret), {'message': msg})
        else:
            want = shape_result(gen.expected_args(ret))
            if not R.deep_eq(result, want) or (
                    isinstance(want, tuple) and
                    not isinstance(result, tuple)):
                return self.fail('call() over TCP returned %r, the handler '
                                 'returned %r' % (result, ret),
                                 {'message': msg})
        ctx.case(('tcp', self.serializer, self.async_handlers, direction,
                  mode, gen.shape(data), gen.shape(ret)), None)

    def close(self):
        try:
            self.c.disconnect()
        except Exception:
            pass
        try:
            self.sio.shutdown()
        except Exception:
            pass
        self.httpd.shutdown()
        self.httpd.server_close()
        self.thread.join(10)


def run_part(ctx, seconds, k0=0, min_messages=30):
    """Runs for `seconds`, and longer (up to 4x) on a loaded machine until
    `min_messages` messages have been judged."""
    t0 = time.time()
    t_end = t0 + seconds
    k = k0
    while not ctx.too_many_violations():
        now = time.time()
        if now >= t_end and (
                ctx.counters.get('tcp_messages_judged', 0) >= min_messages
                or now >= t0 + 2.5 * seconds):
            break
        rng = ctx.case_rng(5 * 10 ** 7 + k)
        try:
            s = TcpSession(ctx, rng, k)
        except Exception as e:
            # no loop-back networking here: the anchor cannot run
            ctx.count('tcp_sessions_unavailable')
            ctx.notes['tcp'] = 'unavailable: %r' % (e,)
            return
        try:
            t_before = ctx.counters.get('tcp_timeouts_skipped', 0)
            for _ in range(rng.choice([10, 25])):
                s.one()
                if s.failed or time.time() > t0 + 2.5 * seconds + 20 or \
                        ctx.counters.get('tcp_timeouts_skipped', 0) > \
                        t_before:
                    break
            ctx.count('tcp_sessions')
        finally:
            s.close()
        k += 1


def replay(ctx, w):
    run_part(ctx, 5, w['witness']['case_index'])
