"""C19 SimpleClient: events are received once each, in arrival order.

Threaded SimpleClient: real SimpleClient over a real Client over the scripted
engine.io; its two Events and the input buffer are replaced (harness side) by
scheduler-aware equivalents so that every append/set/wait/clear/pop/emptiness
test is a yield point; producer (handler thread), consumer (application
thread), network and emitter actors run under vlib.sched.ThreadScheduler -
all interleavings (DFS) for the small scenarios, seeded random for larger.
Timeouts fire only at quiescence.  AsyncSimpleClient: tasks on a virtual-time
loop with a gate at the wake-up points.
"""
import asyncio

from vlib import eioclient as E
from vlib.core import jsonable
from vlib import refcodec as R
from vlib import sched as SC

LEVEL = 'exploration'
TIERS = {
    'quick': {'budget': 50, 'watchdog': 400, 'shards': 1},
    'thorough': {'budget': 420, 'watchdog': 900, 'shards': 16},
}

# (producers: events per producer, receives: timeouts, network, emitter)
SMALL = [
    {'prod': [1], 'recv': [5, 5], 'net': None, 'emit': False},
    {'prod': [2], 'recv': [5, 5, 5], 'net': None, 'emit': False},
    {'prod': [1, 1], 'recv': [5, 5, 5], 'net': None, 'emit': False},
    {'prod': [2], 'recv': [None, 5, 5], 'net': None, 'emit': False},
    {'prod': [3], 'recv': [5, None, 5, 5], 'net': None, 'emit': False},
    {'prod': [1], 'recv': [5, 5], 'net': 'final', 'emit': False},
    {'prod': [2], 'recv': [5, 5, 5], 'net': 'final', 'emit': False},
    {'prod': [1], 'recv': [5, 5], 'net': 'reconnect', 'emit': False},
    {'prod': [0], 'recv': [5], 'net': 'reconnect', 'emit': True},
    {'prod': [0], 'recv': [5], 'net': 'final', 'emit': True},
    {'prod': [1], 'recv': [5, 5], 'net': None, 'emit': True},
]


# ends for good: loss of the transport with reconnection disabled ('final'),
# the server disconnecting the client's namespace ('final_sd')
FINAL = ('final', 'final_sd')
SMALL += [
    {'prod': [1], 'recv': [5, 5], 'net': 'final_sd', 'emit': False},
    {'prod': [0], 'recv': [5], 'net': 'final_sd', 'emit': True},
    # the application waits without a timeout when the connection ends
    {'prod': [0], 'recv': [None], 'net': 'final', 'emit': False},
    {'prod': [1], 'recv': [None, None], 'net': 'final_sd', 'emit': False},
]

# reconnections that need several attempts: 'fails' attempts are refused by
# the transport, then 'rej' attempts get their namespace rejected, then one
# succeeds
SMALL += [
    {'prod': [0], 'recv': [5], 'net': 'reconnect', 'emit': True, 'fails': 1},
    {'prod': [0], 'recv': [5], 'net': 'reconnect', 'emit': True, 'rej': 1},
    {'prod': [1], 'recv': [5, 5], 'net': 'reconnect', 'emit': False,
     'fails': 1, 'rej': 1},
]


class FlakyServer(E.ServerScript):
    """Accepts every CONNECT except on the attempts listed in `reject`."""

    def __init__(self):
        super().__init__()
        self.reject = set()

    def on_packet(self, h, pkt):
        if pkt['type'] == R.CONNECT and len(h.attempts) in self.reject:
            h.deliver(R.CONNECT_ERROR, pkt['nsp'], None,
                      {'message': 'not now'})
            return
        super().on_packet(h, pkt)


def plan_attempts(h, spec):
    """To be called right before the loss."""
    fails, rej = spec.get('fails', 0), spec.get('rej', 0)
    if fails or rej:
        h.plan = [('fail', 'refused')] * fails + ['ok'] * (rej + 1)
        first = len(h.attempts) + 1 + fails
        h.script.reject = set(range(first, first + rej))


TOOL = 4


def enable_lines(sched):
    import sys
    import socketio.simple_client
    mon = sys.monitoring
    files = {socketio.simple_client.__file__}

    def on_line(code, line):
        if code.co_filename not in files:
            return mon.DISABLE
        if sched.me() is None:
            return None
        sched.yield_point('L%d' % line)
        return None
    try:
        mon.use_tool_id(TOOL, 'verif-c19')
    except ValueError:
        pass
    mon.register_callback(TOOL, mon.events.LINE, on_line)
    mon.set_events(TOOL, mon.events.LINE)


def disable_lines():
    import sys
    mon = sys.monitoring
    try:
        mon.set_events(TOOL, 0)
        mon.register_callback(TOOL, mon.events.LINE, None)
        mon.free_tool_id(TOOL)
    except Exception:
        pass


def frame(tok):
    return R.encode(R.EVENT, '/', None, ['ev', tok])[0]


class SyncScenario:
    def __init__(self, ctx, spec, choices, rng, bound=None):
        import socketio
        self.ctx, self.spec = ctx, spec
        # random schedules also pre-empt between the statements of
        # simple_client.py (sys.monitoring LINE events)
        self.lines = rng is not None and rng.random() < 0.6
        self.sched = SC.ThreadScheduler(choices=choices, rng=rng,
                                        preemption_bound=bound,
                                        switch_prob=(rng.choice(
                                            [None, 0.05, 0.2])
                                            if rng is not None else None))
        sched = self.sched
        self.h = E.SyncClientHarness(script=FlakyServer(), client_kw={
            'reconnection': spec['net'] == 'reconnect',
            'reconnection_delay': 1, 'randomization_factor': 0})
        h = self.h

        scen = self

        class SCli(socketio.SimpleClient):
            client_class = staticmethod(lambda *a, **k: h.c)
            _c = False

            @property
            def connected(self_):
                return self_._c

            @connected.setter
            def connected(self_, v):
                # (the assignment is a step of its own: another thread may
                # run between the statement before it and the store)
                if sched.me() is not None:
                    sched.yield_point('connected.assign')
                self_._c = v
                if v is False and scen.armed:
                    # the exact moment the connection ended for good
                    scen.final_at = len(scen.appended())
        self.armed = False
        self.log = []
        self.final_at = None
        self.sc = SCli()
        self.sc.connected_event = SC.SchedEvent(sched, 'conn')
        self.sc.input_event = SC.SchedEvent(sched, 'inp')
        self.sc.connect('http://x')
        self.sc.input_buffer = SC.SchedList(sched, [], self.log)
        # the reconnect thread's back-off / connect waits are yield points too
        h.wait_enter_hook = lambda ev, tmo: sched.yield_point(
            'client.' + ev.label + '.wait')
        self.armed = True
        self.results = []
        self.emit_result = None
        self.lost = False
        tok = 0
        for i, n in enumerate(spec['prod']):
            toks = list(range(tok + 1, tok + n + 1))
            tok += n
            if toks:
                sched.spawn('producer%d' % i, self.producer(toks))
        self.total = tok
        sched.spawn('consumer', self.consumer)
        if spec['net']:
            sched.spawn('network', self.network)
        if spec['emit']:
            sched.spawn('emitter', self.emitter)

    def producer(self, toks):
        def run():
            for t in toks:
                # what the engine.io handler thread does for one message;
                # nothing arrives once the transport is gone
                self.sched.yield_point('deliver')
                if self.h.eio.state != 'connected' or self.lost:
                    return
                self.h.c._handle_eio_message(frame(t))
        return run

    def consumer(self):
        for tmo in self.spec['recv']:
            try:
                r = self.sc.receive(timeout=tmo)
                self.results.append(('event', r, len(self.appended())))
            except Exception as e:
                self.results.append((type(e).__name__, None,
                                     len(self.appended()),
                                     self.popped_count()))

    def appended(self):
        return [x for k, x in self.log if k == 'append']

    def popped_count(self):
        return len([1 for k, x in self.log if k == 'pop'])

    def network(self):
        h = self.h
        self.lost = True
        if self.spec['net'] == 'final_sd':
            # the server ends the client's namespace: a DISCONNECT packet,
            # handled by the client's message thread (this one)
            h.c._handle_eio_message(R.encode(R.DISCONNECT, '/', None,
                                             None)[0])
            return
        plan_attempts(h, self.spec)
        h.lose(pump=False)
        if self.spec['net'] == 'reconnect':
            h.pump()          # the reconnect task, in this (its) thread

    def emitter(self):
        try:
            self.sc.emit('out', {'n': 1})
            self.emit_result = 'ok'
        except Exception as e:
            self.emit_result = type(e).__name__

    def run(self):
        if self.lines:
            enable_lines(self.sched)
        try:
            trace = self.sched.run()
        finally:
            if self.lines:
                disable_lines()
        return trace

    def judge(self):
        ctx, spec = self.ctx, self.spec
        w = {'scenario': spec, 'choices': [c for _, c in self.sched.trace],
             'statement_level': self.lines,
             'labels': [[a, lbl] for a, lbl in self.sched.labels][-120:],
             'results': self.results, 'buffer_log': self.log,
             'emit_result': self.emit_result}
        ctx.count('schedules_run')
        if self.lines:
            ctx.count('statement_level_schedules')
        if self.sched.aborted:
            ctx.violation(None, 'schedule did not complete (%s): an actor '
                          'is blocked forever' % self.sched.aborted, w)
            return 'aborted'
        errs = self.sched.errors + self.h.all_errors()
        if errs:
            w['errors'] = errs[:3]
            ctx.violation(None, 'an actor raised: %s' % errs[0]['exc'], w)
            return 'error'
        arrival = self.appended()
        returned = [r[1] for r in self.results if r[0] == 'event']
        ctx.count('receive_calls', len(self.results))
        if returned != arrival[:len(returned)]:
            ctx.violation(None, 'receive() returned %r, arrival order was %r'
                          % (returned, arrival), w)
            return 'order'
        nret = 0
        for r in self.results:
            if r[0] == 'event':
                nret += 1
                if r[1] != ['ev', r[1][1]] or not isinstance(r[1], list):
                    ctx.violation(None, 'malformed receive() value %r' % (
                        r[1],), w)
                    return 'shape'
                continue
            appended_then = r[2]
            if r[0] == 'TimeoutError':
                ctx.count('timeouts_judged')
                if appended_then > nret:
                    ctx.violation(
                        None, 'receive() raised TimeoutError although %d '
                        'event(s) had arrived and were not yet returned' % (
                            appended_then - nret), w)
                    return 'lost_wakeup'
            elif r[0] == 'DisconnectedError':
                ctx.count('disconnected_judged')
                if spec['net'] not in FINAL:
                    ctx.violation(None, 'DisconnectedError although the '
                                  'connection did not end for good', w)
                    return 'spurious_disconnected'
                if self.final_at is None or nret < self.final_at:
                    w['arrived_before_the_end'] = self.final_at
                    ctx.violation(None, 'DisconnectedError before the '
                                  'events that arrived before the end were '
                                  'returned (%s arrived, %d returned)' % (
                                      self.final_at, nret), w)
                    return 'disconnected_early'
            else:
                ctx.violation(None, 'receive() raised %s' % r[0], w)
                return 'other_exc'
        # (completeness is implied by the per-call checks above: a call
        # that ends with an exception must have had nothing unreturned at
        # that moment; events appended by a slow handler thread after the
        # consumer's last call are not owed to anybody)
        if spec['emit']:
            ctx.count('emits_judged')
            if self.emit_result not in ('ok', 'DisconnectedError'):
                ctx.violation(None, 'emit() raised %s' % self.emit_result, w)
                return 'emit_exc'
            if self.emit_result == 'DisconnectedError' and \
                    spec['net'] not in FINAL:
                ctx.violation(None, 'emit() raised DisconnectedError '
                              'although the connection was not ended for '
                              'good', w)
                return 'emit_disc'
            if spec['net'] is None:
                outs = [p for p in self.h.sent if p['type'] == R.EVENT and
                        p['data'][0] == 'out']
                if len(outs) != 1:
                    ctx.violation(None, 'emit() delivered %d events' %
                                  len(outs), w)
                    return 'emit_count'
        return 'ok'

    def close(self):
        self.h.close()


def explore_sync(ctx, spec, limit, rng=None, bound=None):
    choices = []
    n = 0
    complete = False
    while n < limit and not ctx.out_of_time() and \
            not ctx.too_many_violations():
        sc = SyncScenario(ctx, spec, choices if rng is None else [], rng,
                          bound)
        try:
            trace = sc.run()
            res = sc.judge()
        finally:
            sc.close()
        n += 1
        outcome = tuple(r[0] if r[0] != 'event' else r[1][1]
                        for r in sc.results)
        ctx.case(('sync', str(spec), res, outcome,
                  tuple(c for _, c in trace)[:60]),
                 {'scenario': spec, 'results': sc.results,
                  'schedule_length': len(sc.sched.labels)}
                 if n <= 1 else None)
        ctx.extra.setdefault('distinct_outcomes', [])
        o = [str(spec['prod']), str(spec['net']), list(outcome)]
        if o not in ctx.extra['distinct_outcomes'] and \
                len(ctx.extra['distinct_outcomes']) < 300:
            ctx.extra['distinct_outcomes'].append(o)
        if rng is not None:
            continue
        choices = SC.next_schedule(trace)
        if choices is None:
            complete = True
            break
    return n, complete


# ------------------------------------------------------------------ async
class AsyncScenario:
    def __init__(self, ctx, spec, choices, rng):
        import socketio
        self.ctx, self.spec = ctx, spec
        self.h = E.AsyncClientHarness(script=FlakyServer(), client_kw={
            'reconnection': spec['net'] == 'reconnect',
            'reconnection_delay': 1, 'randomization_factor': 0})
        h = self.h
        self.gate = SC.AsyncGate(choices=choices, rng=rng)
        gate = self.gate

        class GateEvent(asyncio.Event):
            async def wait(self_):
                r = await asyncio.Event.wait(self_)
                # the gap between set() and the waiter actually resuming
                await gate.pause('woken')
                return r

        class SCli(socketio.AsyncSimpleClient):
            client_class = staticmethod(lambda *a, **k: h.c)
        self.log = []
        self.results = []
        self.emit_result = None
        self.lost = False

        async def setup():
            self.sc = SCli()
            self.sc.connected_event = GateEvent()
            self.sc.input_event = GateEvent()
            self.gate.active = False
            await self.sc.connect('http://x')
            self.gate.active = True
            scen = self

            class LogList(list):
                def append(self_, x):
                    list.append(self_, x)
                    scen.log.append(('append', x))

                def pop(self_, i=-1):
                    x = list.pop(self_, i)
                    scen.log.append(('pop', x))
                    return x
            self.sc.input_buffer = LogList()
        h.run(setup())

    def appended(self):
        return [x for k, x in self.log if k == 'append']

    async def producer(self, toks):
        for t in toks:
            await self.gate.pause('deliver')
            if self.h.eio.state != 'connected' or self.lost:
                return
            await self.h.c._handle_eio_message(frame(t))

    async def consumer(self):
        for tmo in self.spec['recv']:
            await self.gate.pause('before-receive')
            try:
                r = await self.sc.receive(timeout=tmo)
                self.results.append(('event', r, len(self.appended())))
            except Exception as e:
                self.results.append((type(e).__name__, None,
                                     len(self.appended())))

    async def network(self):
        await self.gate.pause('loss')
        self.lost = True
        if self.spec['net'] == 'final_sd':
            await self.h.c._handle_eio_message(R.encode(
                R.DISCONNECT, '/', None, None)[0])
            return
        plan_attempts(self.h, self.spec)
        await self.h.a_lose()

    async def emitter(self):
        await self.gate.pause('emit')
        try:
            await self.sc.emit('out', {'n': 1})
            self.emit_result = 'ok'
        except Exception as e:
            self.emit_result = type(e).__name__

    def run(self):
        h, spec, gate = self.h, self.spec, self.gate

        async def go():
            tasks = []
            tok = 0
            for i, n in enumerate(spec['prod']):
                toks = list(range(tok + 1, tok + n + 1))
                tok += n
                if toks:
                    tasks.append(gate.spawn('producer%d' % i,
                                            self.producer(toks)))
            tasks.append(gate.spawn('consumer', self.consumer()))
            if spec['net']:
                tasks.append(gate.spawn('network', self.network()))
            if spec['emit']:
                tasks.append(gate.spawn('emitter', self.emitter()))
            loop = h.loop

            async def quiesce():
                for _ in range(200):
                    await asyncio.sleep(0)
                    if not loop._ready:
                        return
            for _ in range(400):
                done = await gate.drive(tasks, quiesce)
                if done:
                    return True
                # nothing parked, tasks still pending: only time can help
                # (a receive timeout, the reconnection back-off)
                await asyncio.sleep(2)
                await quiesce()
            return False
        self.completed = h.run(go(), horizon=0)
        return self.gate.trace

    def judge(self):
        ctx, spec = self.ctx, self.spec
        w = {'scenario': spec, 'choices': [c for _, c in self.gate.trace],
             'labels': self.gate.labels[-80:], 'results': self.results,
             'buffer_log': self.log, 'emit_result': self.emit_result,
             'kind': 'async'}
        ctx.count('async_schedules_run')
        if not self.completed:
            ctx.violation(None, 'asyncio scenario did not complete: a task '
                          'is blocked forever', w)
            return 'aborted'
        errs = self.h.all_errors()
        if errs:
            w['errors'] = errs[:3]
            ctx.violation(None, 'a task raised: %s' % errs[0]['exc'], w)
            return 'error'
        arrival = self.appended()
        returned = [r[1] for r in self.results if r[0] == 'event']
        ctx.count('receive_calls', len(self.results))
        if returned != arrival[:len(returned)]:
            ctx.violation(None, 'receive() returned %r, arrival order was %r'
                          % (returned, arrival), w)
            return 'order'
        nret = 0
        for r in self.results:
            if r[0] == 'event':
                nret += 1
                continue
            if r[0] == 'TimeoutError':
                ctx.count('timeouts_judged')
                if r[2] > nret:
                    ctx.violation(None, 'receive() raised TimeoutError '
                                  'although %d event(s) had arrived and were '
                                  'not yet returned' % (r[2] - nret), w)
                    return 'lost_wakeup'
            elif r[0] == 'DisconnectedError':
                ctx.count('disconnected_judged')
                if spec['net'] not in FINAL or r[2] > nret:
                    ctx.violation(None, 'DisconnectedError too early / '
                                  'without a final end', w)
                    return 'disconnected'
            else:
                ctx.violation(None, 'receive() raised %s' % r[0], w)
                return 'other_exc'
        if spec['emit']:
            ctx.count('emits_judged')
            if self.emit_result not in ('ok', 'DisconnectedError') or (
                    self.emit_result == 'DisconnectedError' and
                    spec['net'] not in FINAL):
                ctx.violation(None, 'emit() ended with %s' %
                              self.emit_result, w)
                return 'emit'
        return 'ok'

    def close(self):
        self.h.close()


def explore_async(ctx, spec, limit, rng=None):
    choices = []
    n = 0
    complete = False
    while n < limit and not ctx.out_of_time() and \
            not ctx.too_many_violations():
        sc = AsyncScenario(ctx, spec, choices if rng is None else [], rng)
        try:
            trace = sc.run()
            res = sc.judge()
        finally:
            sc.close()
        n += 1
        outcome = tuple(r[0] if r[0] != 'event' else r[1][1]
                        for r in sc.results)
        ctx.case(('async', str(spec), res, outcome,
                  tuple(c for _, c in trace)[:60]),
                 {'scenario': spec, 'results': sc.results, 'kind': 'async'}
                 if n <= 1 else None)
        if rng is not None:
            continue
        choices = SC.next_schedule(trace)
        if choices is None:
            complete = True
            break
    return n, complete


def run(ctx):
    ctx.rule = ('scenarios = (events per producer thread, receive() calls '
                'with/without timeout, network actor: none / final loss / '
                'loss with successful reconnection, emitter actor); threaded '
                'SimpleClient: every interleaving (DFS) at the granularity of '
                'the client\'s Event and buffer operations for the small '
                'scenarios (cap per scenario reported), seeded random for '
                'larger ones; AsyncSimpleClient: every order of releasing '
                'the parked tasks at delivery / wake-up points; distinct = '
                '(client kind, scenario, verdict, outcome sequence, '
                'schedule)')
    ctx.assumptions = [
        'timeouts fire only at quiescence (no other actor runnable), so a '
        'TimeoutError with an unreturned event in the buffer is a lost '
        'wake-up and never "the timer won the race"',
        'arrival order = order of the appends to the input buffer']
    ctx.require('schedules_run', 200)
    ctx.require('async_schedules_run', 50)
    ctx.require('timeouts_judged', 20)
    ctx.require('disconnected_judged', 5)
    ctx.require('emits_judged', 5)
    ctx.require('connect_time_arrival_scenarios', 10)
    ctx.require('loss_mid_message_scenarios', 10)
    ctx.require('application_disconnect_scenarios', 10)
    ctx.require('non_blocking_poll_scenarios', 10)
    ctx.require('non_blocking_polls_after_the_end', 10)
    ctx.require('server_disconnect_scenarios', 10)
    ctx.require('calls_across_a_reconnection', 10)
    ctx.require('reconnections_needing_several_attempts', 10)
    ctx.extra['scenarios'] = {}
    limit = 1200 if ctx.tier == 'quick' else 40000
    order = [0, 5, 8, 11, 13, 16, 1, 6, 9, 12, 14, 17, 2, 7, 10, 15, 3, 4]
    k = ctx.shard * 10**6
    # breadth first: a few schedules of every small scenario (both
    # implementations) before the deep searches, so that a slow machine does
    # not leave a whole class of scenario unvisited
    for i in order:
        explore_sync(ctx, SMALL[i], 25, bound=1)
        explore_async(ctx, SMALL[i], 10)
    for pos, i in enumerate(order):
        spec = SMALL[i]
        if ctx.nshards > 1 and pos % ctx.nshards != ctx.shard:
            continue
        if ctx.time_left() < ctx.budget * 0.4:
            limit = min(limit, 300)
        # iterative context bounding first: every schedule with at most
        # one, then at most two pre-emptions (the lost-wake-up windows)
        nb = {}
        for b in (1, 2):
            nb[b] = explore_sync(ctx, spec, 300 if ctx.tier == 'quick'
                                 else 20000, bound=b)
        n, complete = explore_sync(ctx, spec, limit, bound=None)
        na, acomplete = explore_async(ctx, spec, 300)
        ctx.extra['scenarios'][str(i)] = {
            'spec': spec, 'sync_schedules': n, 'sync_complete': complete,
            'sync_at_most_1_preemption': list(nb[1]),
            'sync_at_most_2_preemptions': list(nb[2]),
            'async_schedules': na, 'async_complete': acomplete}
        k = random_batch(ctx, k, 150)
    while not ctx.out_of_time() and not ctx.too_many_violations():
        k = random_batch(ctx, k, 200)


def connect_arrivals(ctx, k):
    """Events that arrive while the application is still inside connect()
    (the server emits from its connect handler; the reader thread / task
    dispatches them before connect() returns) are events like any other:
    receive() must return them, in arrival order."""
    import socketio
    from vlib import refcodec as RR
    rng = ctx.case_rng(3 * 10 ** 7 + k)
    kind = 'sync' if k % 2 == 0 else 'async'
    n_after = rng.randint(1, 3)
    pre = rng.random() < 0.3
    ns = rng.choice(['/', '/a'])

    class Srv:
        def on_packet(self, h, pkt):
            if pkt['type'] != RR.CONNECT:
                return
            if pre:
                h.deliver(RR.EVENT, pkt['nsp'], None, ['ev', 'pre'])
            h.deliver(RR.CONNECT, pkt['nsp'], None, {'sid': 's1'})
            for i in range(n_after):
                h.deliver(RR.EVENT, pkt['nsp'], None, ['ev', i])
    h = E.make_client(kind, script=Srv(), client_kw={'reconnection': False})
    eager = False
    results = []
    try:
        if kind == 'async':
            class SCli(socketio.AsyncSimpleClient):
                client_class = staticmethod(lambda *a, **kw: h.c)

            async def go():
                sc = SCli()
                await sc.connect('http://x', namespace=ns)
                for _ in range(n_after + 2):
                    try:
                        results.append(await sc.receive(timeout=1))
                    except Exception as e:
                        results.append(type(e).__name__)
                        break
            h.run(go(), horizon=20)
        else:
            class SCli(socketio.SimpleClient):
                client_class = staticmethod(lambda *a, **kw: h.c)
            sc = SCli()
            sc.connected_event = E.HEvent(h, 'connected_event')
            sc.input_event = E.HEvent(h, 'input_event')
            eager = rng.random() < 0.7
            h.eager_after_connect = eager
            h.call(sc.connect, 'http://x', namespace=ns)
            h.eager_after_connect = False
            for _ in range(n_after + 2):
                try:
                    results.append(h.call(sc.receive, timeout=1))
                except Exception as e:
                    results.append(type(e).__name__)
                    break
    finally:
        h.close()
    ctx.count('connect_time_arrival_scenarios')
    got = [r[1] for r in results if isinstance(r, list)]
    want = list(range(n_after))
    w = {'part': 'connect_arrivals', 'case_index': k, 'kind': kind,
         'namespace': ns, 'event_before_ack': pre, 'events_after_ack': want,
         'read_loop_before_connect_returns': eager, 'results': results,
         'errors': h.all_errors()[:3]}
    if h.all_errors():
        ctx.violation(None, 'connect-time arrivals: error escaped (%s)' %
                      h.all_errors()[0]['exc'], w)
    elif [g for g in got if g != 'pre'] != want or (
            'pre' in got and got[0] != 'pre'):
        ctx.violation(None, 'events that arrived while connect() was in '
                      'progress: receive() returned %r, arrival order was '
                      '%s%r' % (got, "'pre', " if pre else '', want), w)
    elif results[-1] != 'TimeoutError':
        ctx.violation(None, 'receive() after the last event ended with %r'
                      % (results[-1],), w)
    else:
        ctx.case(('connect_arrivals', kind, ns, pre, n_after, eager),
                 {'part': 'connect_arrivals', 'results': results})


def loss_mid_message(ctx, k):
    """The connection is lost while an event of several frames is arriving
    and the reconnection succeeds: receive() returns exactly the events that
    arrived completely, before and after, in order - never the torn one."""
    import socketio
    from vlib import refcodec as RR
    rng = ctx.case_rng(5 * 10 ** 7 + k)
    kind = rng.choice(['sync', 'async'])
    ns = rng.choice(['/', '/a'])
    n_before = rng.randint(0, 2)
    n_after = rng.randint(1, 3)
    natt = rng.choice([1, 2, 3])
    keep = rng.randint(1, natt)
    blob = ['blob'] + [bytes([65 + i]) * 3 for i in range(natt)]
    h = E.make_client(kind, client_kw={
        'reconnection': True, 'reconnection_delay': 1,
        'randomization_factor': 0})
    results = []
    try:
        if kind == 'async':
            class SCli(socketio.AsyncSimpleClient):
                client_class = staticmethod(lambda *a, **kw: h.c)

            async def go():
                sc = SCli()
                await sc.connect('http://x', namespace=ns)
                for i in range(n_before):
                    h.deliver(RR.EVENT, ns, None, ['ev', 'b%d' % i])
                h.deliver(RR.EVENT, ns, None, blob, partial=keep)
                await asyncio.sleep(0.01)
                await h.a_lose()
                await asyncio.sleep(30)
                for i in range(n_after):
                    h.deliver(RR.EVENT, ns, None, ['ev', 'a%d' % i])
                for _ in range(n_before + n_after + 2):
                    try:
                        results.append(await sc.receive(timeout=1))
                    except Exception as e:
                        results.append(type(e).__name__)
                        break
            h.run(go(), horizon=60)
        else:
            class SCli(socketio.SimpleClient):
                client_class = staticmethod(lambda *a, **kw: h.c)
            sc = SCli()
            sc.connected_event = E.HEvent(h, 'connected_event')
            sc.input_event = E.HEvent(h, 'input_event')
            h.call(sc.connect, 'http://x', namespace=ns)
            for i in range(n_before):
                h.deliver(RR.EVENT, ns, None, ['ev', 'b%d' % i])
            h.deliver(RR.EVENT, ns, None, blob, partial=keep)
            h.pump()
            h.lose()
            for i in range(n_after):
                h.deliver(RR.EVENT, ns, None, ['ev', 'a%d' % i])
            for _ in range(n_before + n_after + 2):
                try:
                    results.append(h.call(sc.receive, timeout=1))
                except Exception as e:
                    results.append(type(e).__name__)
                    break
    finally:
        h.close()
    ctx.count('loss_mid_message_scenarios')
    got = [r for r in results if isinstance(r, list)]
    want = [['ev', 'b%d' % i] for i in range(n_before)] + \
        [['ev', 'a%d' % i] for i in range(n_after)]
    w = {'part': 'loss_mid_message', 'case_index': k, 'kind': kind,
         'namespace': ns, 'attachments': natt, 'frames_arrived': keep,
         'results': jsonable(results), 'attempts': len(h.attempts),
         'errors': h.all_errors()[:3]}
    if h.all_errors():
        ctx.violation(None, 'loss in the middle of an event: error escaped '
                      '(%s)' % h.all_errors()[0]['exc'], w)
    elif got != want:
        ctx.violation(None, 'connection lost in the middle of an event and '
                      're-established: receive() returned %r, the events '
                      'that arrived are %r' % (got, want), w)
    elif results[-1] != 'TimeoutError':
        ctx.violation(None, 'receive() after the last event ended with %r'
                      % (results[-1],), w)
    else:
        ctx.case(('loss_mid_message', kind, ns, n_before, n_after, natt,
                  keep), None)


class _Blocked(Exception):
    pass


def after_disconnect_and_polls(ctx, k):
    """(a) The application ends the connection itself with disconnect(): that
    is an end for good - the events still buffered are returned, then
    receive() raises DisconnectedError (never TimeoutError, never a wait
    without end), and emit() / call() raise DisconnectedError.
    (b) Non-blocking polls: receive(timeout=0) returns an event that is
    already buffered and raises TimeoutError only when none is."""
    import socketio
    from vlib import refcodec as RR
    rng = ctx.case_rng(6 * 10 ** 7 + k)
    kind = rng.choice(['sync', 'async'])
    ns = rng.choice(['/', '/a'])
    n_ev = rng.randint(0, 3)
    n_read = rng.randint(0, n_ev)
    polls = rng.random() < 0.5
    # after the end the application goes on reading with blocking calls or
    # with non-blocking polls
    t_after = rng.choice([1, 1, 0])
    # what ends the connection for good: the application's disconnect(), or
    # the server disconnecting the client's namespace
    ender = rng.choice(['application', 'application', 'server'])
    h = E.make_client(kind, client_kw={'reconnection': rng.random() < 0.5})
    results = []
    after = []

    def rec(dst, f):
        try:
            dst.append(('ok', f()))
        except _Blocked:
            dst.append(('blocks for ever', None))
        except Exception as e:
            dst.append((type(e).__name__, None))
    try:
        if kind == 'async':
            class SCli(socketio.AsyncSimpleClient):
                client_class = staticmethod(lambda *a, **kw: h.c)

            async def arec(dst, coro, bound=50):
                try:
                    dst.append(('ok', await asyncio.wait_for(coro, bound)))
                except asyncio.TimeoutError:
                    # (python 3.11+: the same class as TimeoutError; told
                    # apart by the virtual time that has passed)
                    dst.append(('TimeoutError', None))
                except Exception as e:
                    dst.append((type(e).__name__, None))

            async def go():
                sc = SCli()
                await sc.connect('http://x', namespace=ns)
                for i in range(n_ev):
                    h.deliver(RR.EVENT, ns, None, ['ev', i])
                await asyncio.sleep(0.01)
                loop = asyncio.get_running_loop()
                for _ in range(n_read):
                    await arec(results, sc.receive(
                        timeout=0 if polls else 1))
                if polls:
                    # drain with non-blocking polls, then one more
                    for _ in range(n_ev - n_read + 1):
                        await arec(results, sc.receive(timeout=0))
                    return
                if ender == 'application':
                    await sc.disconnect()
                else:
                    h.deliver(RR.DISCONNECT, ns, None, None)
                    await asyncio.sleep(0.01)
                for _ in range(n_ev - n_read + 1):
                    t0 = loop.time()
                    await arec(after, sc.receive(timeout=t_after))
                    if after[-1][0] == 'TimeoutError' and \
                            loop.time() - t0 > 40:
                        after[-1] = ('blocks for ever', None)
                for call in (lambda: sc.emit('x', 1),
                             lambda: sc.call('x', 1, timeout=1)):
                    t0 = loop.time()
                    await arec(after, call())
                    if after[-1][0] == 'TimeoutError' and \
                            loop.time() - t0 > 40:
                        after[-1] = ('blocks for ever', None)
            h.run(go(), horizon=400)
        else:
            class SCli(socketio.SimpleClient):
                client_class = staticmethod(lambda *a, **kw: h.c)
            sc = SCli()
            sc.connected_event = E.HEvent(h, 'connected_event')
            sc.input_event = E.HEvent(h, 'input_event')
            h.call(sc.connect, 'http://x', namespace=ns)
            for i in range(n_ev):
                h.deliver(RR.EVENT, ns, None, ['ev', i])
            h.pump()

            def idle(ev, tmo):
                # a wait without timeout on which nothing can ever happen
                if tmo is None:
                    raise _Blocked()
                return False
            for _ in range(n_read):
                rec(results, lambda: h.call(sc.receive,
                                            timeout=0 if polls else 1))
            if polls:
                for _ in range(n_ev - n_read + 1):
                    rec(results, lambda: h.call(sc.receive, timeout=0))
            else:
                if ender == 'application':
                    h.call(sc.disconnect)
                else:
                    h.deliver(RR.DISCONNECT, ns, None, None)
                    h.pump()
                h.idle_hook = idle
                for _ in range(n_ev - n_read + 1):
                    rec(after, lambda: h.call(sc.receive, timeout=t_after))
                rec(after, lambda: h.call(sc.emit, 'x', 1))
                rec(after, lambda: h.call(sc.call, 'x', 1, timeout=1))
    finally:
        h.close()
    w = {'part': 'after_disconnect_and_polls', 'case_index': k,
         'kind': kind, 'namespace': ns, 'events': n_ev,
         'read_before': n_read, 'non_blocking_polls': polls,
         'receive_timeout_after_the_end': t_after, 'ended_by': ender,
         'results': jsonable(results), 'after_disconnect': jsonable(after),
         'errors': h.all_errors()[:3]}
    evs = [('ok', ['ev', i]) for i in range(n_ev)]
    if h.all_errors():
        ctx.violation(None, 'error escaped (%s)' % h.all_errors()[0]['exc'],
                      w)
        return
    if polls:
        ctx.count('non_blocking_poll_scenarios')
        want = evs + [('TimeoutError', None)]
        if results != want:
            ctx.violation(None, 'non-blocking polls (receive(timeout=0)) '
                          'with %d event(s) buffered gave %r' % (
                              n_ev, [r[0] if r[0] != 'ok' else r[1]
                                     for r in results]), w)
            return
    else:
        ctx.count('application_disconnect_scenarios')
        if ender == 'server':
            ctx.count('server_disconnect_scenarios')
        if t_after == 0:
            ctx.count('non_blocking_polls_after_the_end')
        want_after = evs[n_read:] + [('DisconnectedError', None)] * 3
        if results != evs[:n_read] or after != want_after:
            key = None
            if kind == 'async' and t_after == 0 and results == evs[:n_read] \
                    and after[:-3] == evs[n_read:] and \
                    after[-3:] == [('TimeoutError', None)] + \
                    [('DisconnectedError', None)] * 2:
                key = 'async-poll-after-the-end-times-out'
            ctx.violation(key, 'after %s with %d event(s) still buffered: '
                          'receive'
                          '(timeout=%r) x%d, emit, call gave %r' % (
                              'the application called disconnect()'
                              if ender == 'application' else
                              'the server disconnected the namespace',
                              n_ev - n_read, t_after, n_ev - n_read + 1,
                              [r[0] if r[0] != 'ok' else r[1]
                               for r in after]), w)
            return
    ctx.case(('after_disconnect_and_polls', kind, ns, n_ev, n_read, polls),
             None)


def call_across_reconnect(ctx, k):
    """call() is in flight when the connection is lost; the reconnection
    succeeds before the call's own timeout.  call() waits the reconnection
    out: the event is sent again on the new connection and its
    acknowledgement is returned (not TimeoutError, not DisconnectedError)."""
    import socketio
    from vlib import refcodec as RR
    rng = ctx.case_rng(8 * 10 ** 7 + k)
    kind = rng.choice(['sync', 'async'])
    ns = rng.choice(['/', '/a'])
    answer = rng.choice([['pong'], [1, 'two'], [{'k': [1]}]])

    class Srv(E.ServerScript):
        """Accepts every CONNECT; acknowledges 'q' events only on the
        second and later connections."""

        def on_packet(self, h, pkt):
            if pkt['type'] == RR.CONNECT:
                super().on_packet(h, pkt)
            elif pkt['type'] == RR.EVENT and pkt['data'][0] == 'q' and \
                    pkt.get('epoch', len(h.attempts)) >= 2:
                h.deliver(RR.ACK, pkt['nsp'], pkt['id'], answer)
    h = E.make_client(kind, script=Srv(), client_kw={
        'reconnection': True, 'reconnection_delay': 1,
        'randomization_factor': 0})
    out = {}
    try:
        if kind == 'async':
            class SCli(socketio.AsyncSimpleClient):
                client_class = staticmethod(lambda *a, **kw: h.c)

            async def go():
                sc = SCli()
                await sc.connect('http://x', namespace=ns)
                task = asyncio.ensure_future(sc.call('q', {'n': 1},
                                                     timeout=5))
                await asyncio.sleep(0.5)
                await h.a_lose()
                try:
                    out['result'] = ('ok', await asyncio.wait_for(task, 60))
                except Exception as e:
                    out['result'] = (type(e).__name__, None)
            h.run(go(), horizon=120)
        else:
            class SCli(socketio.SimpleClient):
                client_class = staticmethod(lambda *a, **kw: h.c)
            sc = SCli()
            sc.connected_event = E.HEvent(h, 'connected_event')
            sc.input_event = E.HEvent(h, 'input_event')
            h.call(sc.connect, 'http://x', namespace=ns)
            state = {'lost': False}

            def idle(ev, tmo):
                # the first time the call waits for its acknowledgement and
                # nothing else can happen: the connection is lost (and the
                # reconnect task runs)
                if not state['lost']:
                    state['lost'] = True
                    h.lose()
                    return True
                return False
            h.idle_hook = idle
            try:
                out['result'] = ('ok', h.call(sc.call, 'q', {'n': 1},
                                              timeout=5))
            except Exception as e:
                out['result'] = (type(e).__name__, None)
    finally:
        h.close()
    ctx.count('calls_across_a_reconnection')
    want = answer[0] if len(answer) == 1 else answer
    sent = [p for p in h.sent if p['type'] == RR.EVENT and
            p['data'][0] == 'q']
    w = {'part': 'call_across_reconnect', 'case_index': k, 'kind': kind,
         'namespace': ns, 'acknowledged': answer,
         'result': jsonable(out.get('result')),
         'attempts': len(h.attempts), 'q_events_sent': len(sent),
         'errors': h.all_errors()[:3]}
    got = out.get('result')
    if h.all_errors():
        ctx.violation(None, 'error escaped (%s)' % h.all_errors()[0]['exc'],
                      w)
    elif not got or got[0] != 'ok' or not R.deep_eq(
            list(got[1]) if isinstance(got[1], (list, tuple)) else got[1],
            want):
        ctx.violation(None, 'call() in flight across a loss and a successful '
                      'reconnection ended with %r; the server acknowledged '
                      '%r on the new connection' % (got, answer), w)
    else:
        ctx.case(('call_across_reconnect', kind, ns, len(answer)), None)


def random_batch(ctx, k, n):
    for _ in range(n):
        if ctx.out_of_time() or ctx.too_many_violations():
            break
        rng = ctx.case_rng(k)
        spec = {'prod': [rng.randint(0, 3) for _ in range(rng.choice(
            [1, 2]))], 'net': rng.choice([None, None, 'final', 'reconnect',
                                          'final_sd']),
            'emit': rng.random() < 0.3}
        if spec['net'] == 'reconnect' and rng.random() < 0.5:
            spec['fails'] = rng.choice([0, 1, 2])
            spec['rej'] = rng.choice([0, 1]) if spec['fails'] else 1
            ctx.count('reconnections_needing_several_attempts')
        total = sum(spec['prod'])
        spec['recv'] = [rng.choice([5, 5, None]) if j < total and
                        spec['net'] is None else 5
                        for j in range(total + rng.choice([0, 1, 2]))] or [5]
        explore_sync(ctx, spec, 1, rng=rng)
        if k % 3 == 0:
            explore_async(ctx, spec, 1, rng=rng)
        ctx.count('random_scenarios')
        if k % 5 == 0:
            connect_arrivals(ctx, k)
        if k % 7 == 0:
            loss_mid_message(ctx, k)
        if k % 6 == 0:
            after_disconnect_and_polls(ctx, k)
        if k % 9 == 0:
            call_across_reconnect(ctx, k)
        k += 1
    return k


def replay(ctx, w):
    wi = w['witness']
    if wi.get('part') == 'connect_arrivals':
        return connect_arrivals(ctx, wi['case_index'])
    if wi.get('part') == 'loss_mid_message':
        return loss_mid_message(ctx, wi['case_index'])
    if wi.get('part') == 'call_across_reconnect':
        return call_across_reconnect(ctx, wi['case_index'])
    if wi.get('part') == 'after_disconnect_and_polls':
        return after_disconnect_and_polls(ctx, wi['case_index'])
    spec, choices = wi['scenario'], wi.get('choices') or []
    if wi.get('kind') == 'async':
        sc = AsyncScenario(ctx, spec, choices, None)
    else:
        sc = SyncScenario(ctx, spec, choices, None, None)
    try:
        sc.run()
        sc.judge()
    finally:
        sc.close()
