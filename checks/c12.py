"""C12 Hostile input from one client cannot touch other clients or stop the
server.  Grammar-based mutation of valid frames + random frames from one
offender, interleaved with well-formed traffic of bystanders; monitors:
bystander handler invocations / frames / state, decodability of what reaches
handlers, post-attack probes, allocation bound per frame (tracemalloc).
"""
import base64
import copy
import json
import resource
import time
import tracemalloc

from vlib import core
from vlib import gen
from vlib import refcodec as R
from vlib import scenario as S

LEVEL = 'exploration'
TIERS = {
    'quick': {'budget': 55, 'watchdog': 400, 'shards': 1},
    'thorough': {'budget': 420, 'watchdog': 900, 'shards': 16},
}
POOL = ['/', '/a', '/b']
MAIN_THREAD = True          # CPU-time budgets use signals
CPU_BUDGET = 3.0            # seconds of process CPU time for ONE frame


class FrameStall(BaseException):
    """Raised by the CPU-time budget (ITIMER_VIRTUAL) around one offender
    frame: BaseException so that no catch-all of the code under test can
    swallow it."""


class cpu_budget:
    def __init__(self, seconds):
        self.seconds = seconds

    def __enter__(self):
        import signal

        def on_timer(signum, frame):
            raise FrameStall()
        self.old = signal.signal(signal.SIGVTALRM, on_timer)
        signal.setitimer(signal.ITIMER_VIRTUAL, self.seconds)
        return self

    def __exit__(self, *exc):
        import signal
        signal.setitimer(signal.ITIMER_VIRTUAL, 0)
        signal.signal(signal.SIGVTALRM, self.old)
        return False


def long_run_frames(rng):
    """Frames whose header fields contain a long run of one character class
    followed by a character that breaks it - the shape that makes a
    backtracking scanner explode.  Graded lengths, so that a super-linear
    cost shows up as a measurable stall before it becomes a hang."""
    n = rng.choice([16, 18, 20, 22, 24, 26, 28, 40, 200])
    ch = rng.choice('a1-._~%+:@/ A')
    run = ch * n
    breaker = rng.choice(['["x"]', '!', ',', ' ', '\x00', '?', '[', '"', ''])
    return rng.choice([
        '2/' + run + breaker,
        '2/' + run + breaker + ',["ev"]',
        '0/' + run + breaker,
        '2' + run + breaker,
        '2/a,' + run + breaker,
        '2["' + run + breaker,
        '5' + run + '-/a,["ev"]',
        '2/' + (ch + '/') * (n // 2) + breaker,
    ])


UNIDIGITS = '٣७５²'


def valid_frames(rng, serializer):
    ptype = rng.choice([0, 1, 2, 2, 2, 3, 3, 4, 5, 6])
    ns = rng.choice(POOL + ['/nope', None])
    pid = rng.choice([None, 0, 1, 7, 10**9])
    if ptype in (2, 5):
        data = [rng.choice(S.EVENT_POOL + ['connect', 'disconnect'])] + \
            gen.gen_args(rng, True, 3, maxn=3)
    elif ptype in (3, 6):
        data = gen.gen_args(rng, True, 3, maxn=3)
    elif ptype == 0:
        data = rng.choice([None, {'k': 'v'}])
    else:
        data = rng.choice([None, 'x', {'m': 1}])
    if ptype not in (2, 3, 5, 6) and R.has_bytes(data):
        data = None
    if serializer == 'msgpack':
        return [R.msgpack_encode(ptype, ns, pid, data)]
    if ptype in (5, 6) and not R.has_bytes(data):
        text, atts = R.encode(ptype, ns, pid, data)
        return [text]
    text, atts = R.encode(ptype, ns, pid, data)
    return [text] + atts


def mutate_text(rng, s):
    k = rng.randrange(14)
    if not s:
        return rng.choice(['', ' ', '\x00'])
    i = rng.randrange(len(s) + 1)
    j = min(len(s), i + rng.randint(0, 8))
    if k == 0:
        return s[:i] + s[j:]
    if k == 1:
        return s[:i] + s[i:j] * rng.randint(2, 4) + s[j:]
    if k == 2:
        return s[:i] + ''.join(rng.choice('0123456789') for _ in range(
            rng.choice([1, 3, 10, 11, 50, 100, 101, 200]))) + s[i:]
    if k == 3:
        return s[:i] + rng.choice(UNIDIGITS) * rng.randint(1, 3) + s[i:]
    if k == 4:
        return s[:i] + rng.choice('-,/?') + s[i:]
    if k == 5:
        return s[:i]
    if k == 6:
        return rng.choice('0123456789abx~ ') + s[1:]
    if k == 7:
        n = rng.choice([10, 500, 2000, 100000])
        head, js = R.split_header(s) if s[0] in '0123456' else (s[:1], s[1:])
        return head + '[' * n + rng.choice(['', ']' * n])
    if k == 8:
        head, js = R.split_header(s) if s[0] in '0123456' else (s[:1], s[1:])
        return head + rng.choice(['{}', '"str"', '5', 'null', 'true', '[]',
                                  '[5]', '[null,1]', '[["x"]]', '[{}]',
                                  '{"a":1}', '[true]', 'NaN', '[1e999]',
                                  '1' * 150, '[' + '9' * 150 + ']'])
    if k == 9:
        return s.replace('"num":', '"num":' + rng.choice(
            ['9', '-', '"x",', '1e3,', 'null,', '[],']), 1)
    if k == 10:
        return '5' + rng.choice(['1', '3', '9' * 5, '9' * 10, '9' * 11,
                                 '0', '00']) + '-' + s[1:]
    if k == 11:
        return s + rng.choice([',', ']', '}', '\x00', ' ', '\n', s])
    if k == 12:
        return ''.join(rng.choice(s) for _ in range(rng.randint(0, 30)))
    return ''.join(chr(rng.randint(0, 0x2fff)) for _ in range(
        rng.randint(0, 30)))


def mutate_msgpack(rng, b):
    import msgpack
    k = rng.randrange(8)
    try:
        d = msgpack.unpackb(b, raw=False)
    except Exception:
        d = {}
    if k == 0 and isinstance(d, dict) and d:
        d.pop(rng.choice(sorted(d)), None)
    elif k == 1 and isinstance(d, dict):
        d[rng.choice(['type', 'nsp', 'id', 'data'])] = rng.choice(
            [None, 'x', '2', 2.5, [1], {'a': 1}, b'b', True, -1, 99,
             2**63 - 1, [], {}])
    elif k == 2:
        d = rng.choice([None, 5, 'str', [1, 2], [], True, b'xx'])
    elif k == 3:
        return b[:rng.randrange(len(b) + 1)]
    elif k == 4:
        return rng.randbytes(rng.randint(0, 40))
    elif k == 5 and isinstance(d, dict):
        d['extra'] = 'field'
    elif k == 6:
        return b + b
    else:
        return bytes(rng.choice(b) if b else 0
                     for _ in range(rng.randint(0, 30)))
    try:
        return msgpack.packb(d, use_bin_type=True)
    except Exception:
        return b'\xc1'


class Attack:
    def __init__(self, ctx, rng, kind, index):
        self.ctx, self.rng, self.kind, self.index = ctx, rng, kind, index
        served = POOL[:rng.choice([1, 2, 3])]
        self.served = served
        self.cfg = S.default_config(
            kind=kind, served=served,
            style={ns: rng.choice(['func', 'func', 'catchall', 'class'])
                   for ns in served},
            global_catchall=rng.random() < 0.2,
            global_class=rng.random() < 0.25,
            # (a quarter of the servers accept whatever namespace a client
            # names)
            namespaces_opt='*' if rng.random() < 0.25 else None,
            serializer=rng.choice(['default', 'default', 'msgpack']),
            async_handlers=rng.random() < 0.3,
            coroutines=rng.random() < 0.7, returns={})
        self.r = S.Runner(self.cfg)
        self.failed = False
        self.ops = []
        self.tok = 0
        self.by = {}            # (T, ns) -> sid for bystanders
        self.sessions = {}
        self.rooms = {}
        self.out_cb = {}        # (T, ns) -> (id, token)
        self.cb_seen = []
        self.undecodable_seq = False
        self.off_tokens = set()   # callbacks outstanding for the offender

    def witness(self, extra=None):
        w = {'case_index': self.index, 'kind': self.kind,
             'config': {k: self.cfg[k] for k in (
                 'serializer', 'served', 'style', 'async_handlers',
                 'global_catchall', 'global_class', 'coroutines',
                 'namespaces_opt')},
             'last_offender_frames': self.ops[-8:]}
        if extra:
            w.update(extra)
        return w

    def fail(self, what, extra=None):
        self.failed = True
        self.ctx.violation(None, what, self.witness(extra))

    def setup(self):
        r, rng = self.r, self.rng
        nby = rng.choice([1, 2, 3])
        T = 0
        for _ in range(nby):
            T += 1
            r.step(['open', T])
            for ns in self.served:
                if rng.random() < 0.8 or not any(k[0] == T for k in self.by):
                    res = r.step(['connect', T, ns, None])
                    acc = [p for p in res['sent'].get(T, [])
                           if p['type'] == R.CONNECT]
                    if acc:
                        self.by[(T, ns)] = acc[0]['data']['sid']
        for (T, ns), sid in self.by.items():
            rooms = {'lobby'} if rng.random() < 0.7 else set()
            for room in rooms:
                r.step(['enter', sid, room, ns])
            self.rooms[(T, ns)] = rooms | {sid}
            sess = {'owner': [T, ns], 'v': rng.randint(0, 10**6)}
            r.step(['save_session', sid, ns, dict(sess)])
            self.sessions[(T, ns)] = sess
            if rng.random() < 0.6:
                self.tok += 1
                res = r.step(['emit', self.tok, sid, None, ns, 'fn'])
                pk = [p for p in res['sent'].get(T, [])]
                if pk and pk[0]['id'] is not None:
                    self.out_cb[(T, ns)] = (pk[0]['id'], self.tok)
        self.OT = T + 1
        r.step(['open', self.OT])
        for ns in self.served:
            if rng.random() < 0.7:
                r.step(['connect', self.OT, ns, None])
        if rng.random() < 0.5:
            for (t, ns), lst in list(r.issued.items()):
                if t == self.OT:
                    r.step(['enter', lst[-1], 'lobby', ns])
        if rng.random() < 0.6:
            # the offender, too, has an acknowledgement outstanding
            for (t, ns), lst in list(r.issued.items()):
                if t == self.OT:
                    self.tok += 1
                    self.off_tokens.add(self.tok)
                    r.step(['emit', self.tok, lst[-1], None, ns, 'fn'])
            r.T[self.OT].drain()
        r.d.clear_errors()
        self.by_sids = set(self.by.values())
        self.by_T = {k[0] for k in self.by}

    # ------------------------------------------------------------ offender
    def offender_frame(self, traced):
        rng, r, ctx = self.rng, self.r, self.ctx
        ser = self.cfg['serializer']
        frames = valid_frames(rng, ser)
        mode = rng.random()
        if getattr(self, 'force_mode', None):
            mode = self.force_mode.pop(0)
        if 0.58 <= mode < 0.6 and ser == 'default':
            # an id (or attachment count) field of several hundred thousand
            # digits: rejected - or parsed - in time proportional to its
            # length, not to its square
            n = rng.choice([3 * 10 ** 5, 6 * 10 ** 5])
            digits = rng.choice('1279') * n
            sendf = [rng.choice(['2' + digits + '["ev0",1]',
                                 '2/a,' + digits + '["ev0",1]',
                                 '3' + digits + '[1]',
                                 '5' + digits + '-["ev0",1]',
                                 '2' + digits])]
            ctx.count('digit_runs_of_several_hundred_thousand')
        elif 0.6 <= mode < 0.63 and ser == 'msgpack':
            # CONNECT packets whose namespace field is not a string
            sendf = [R.msgpack_encode(R.CONNECT, nsv, None, None)
                     for nsv in rng.sample([7, 2.5, b'/raw', True, -1,
                                            0, 10 ** 12], 2)]
            ctx.count('connects_with_non_string_namespace')
        elif 0.55 <= mode < 0.58:
            # well-formed acknowledgements nobody asked for, on every
            # namespace the offender is connected to (and one it is not)
            mine = [ns for (T, ns) in r.issued if T == self.OT] or ['/']
            sendf = []
            for ns in mine + ['/nope']:
                pid = rng.choice([0, 1, 1, 2, 5, 10 ** 6])
                args = rng.choice([[], ['x'], [{'a': 1}, 2]])
                if ser == 'msgpack':
                    sendf.append(R.msgpack_encode(R.ACK, ns, pid, args))
                else:
                    sendf.append(R.encode(R.ACK, ns, pid, args)[0])
            ctx.count('unsolicited_ack_frames', len(sendf))
        elif mode < 0.12:
            sendf = frames            # perfectly valid
        elif mode < 0.2:
            sendf = [rng.choice(['', 'x', ' ', '\x00', '{"a":1}', '[1]',
                                 'true', '"s"', '7', '-1', '4', '2',
                                 '2"xy"', '2"ev0"', '21"ev1"', '2/a,"ev0"',
                                 '2/a,3"ev2"', '50-"ev0"', '2[]', '2{}',
                                 '2[5]', '2[null,1]', '2[["ev0"]]',
                                 '3"x"', '31"x"', '2"connect"'])]
        elif mode < 0.27:
            sendf = [rng.randbytes(rng.randint(0, 50))]
        elif mode < 0.33 and ser == 'default':
            sendf = [long_run_frames(rng)]
            ctx.count('long_run_frames')
        elif 0.43 <= mode < 0.47 and ser == 'msgpack':
            # truncated frames whose container headers declare far more
            # elements / bytes than follow (array32, map32, str32, bin32),
            # alone and nested: nothing may be reserved for the declaration
            import struct
            n = rng.choice([2 ** 20, 2 ** 24, 2 ** 27 - 1, 2 ** 31 - 1])
            hdr = rng.choice([b'\xdd', b'\xdf', b'\xdb', b'\xc6'])
            big = hdr + struct.pack('>I', n)
            depth = rng.choice([1, 1, 2, 4])
            body = b''.join([b'\xdd' + struct.pack('>I', n)] * (depth - 1)) \
                + big
            sendf = [b'\x82\xa4type\x02\xa4data' + body,
                     b'\x83\xa4type\x02\xa3nsp\xa1/\xa4data' + body,
                     body][rng.randrange(3):][:1]
            ctx.count('msgpack_declared_size_frames')
        elif 0.51 <= mode < 0.55 and ser == 'default':
            # valid JSON, pure ASCII on the wire: a string with an unpaired
            # surrogate escape (what a handler then holds cannot be encoded
            # as UTF-8 unless it is escaped again on the way out)
            mine = [ns for (T, ns) in r.issued if T == self.OT] or ['/']
            text = R.encode(R.EVENT, rng.choice(mine), None,
                            [rng.choice(S.EVENT_POOL), 'XSURX'])[0]
            sendf = [text.replace('XSURX', rng.choice(
                ['look \\ud83d', '\\udfff', 'a\\ud800b\\ud800']))]
            ctx.count('lone_surrogate_texts')
        elif 0.47 <= mode < 0.51 and ser == 'default':
            # a stray binary frame (no attachment is owed) whose bytes spell a
            # valid text packet for a handled event: binary frames carry
            # attachments, nothing else
            mine = [ns for (T, ns) in r.issued if T == self.OT] or ['/']
            text = R.encode(R.EVENT, rng.choice(mine), rng.choice([None, 6]),
                            [rng.choice(S.EVENT_POOL), 'smuggled'])[0]
            sendf = [text.encode('utf-8')]
            ctx.count('binary_frames_spelling_text_packets')
        elif 0.39 <= mode < 0.43:
            # names that collide with the registry's catch-all key: an event
            # called "*" (any serializer) and - msgpack only, the text format
            # cannot express it - the namespace "*"; the first argument is
            # a bystander's session id
            mine = [ns for (T, ns) in r.issued if T == self.OT] or ['/']
            victim = rng.choice(sorted(self.by_sids)) if self.by_sids \
                else 'nosuchsid'
            ns = rng.choice(mine)
            pid = rng.choice([None, 5])
            if ser == 'msgpack':
                if rng.random() < 0.5:
                    sendf = [R.msgpack_encode(R.CONNECT, '*', None, None),
                             R.msgpack_encode(R.EVENT, '*', pid,
                                              [rng.choice(S.EVENT_POOL),
                                               victim, 'x'])]
                else:
                    sendf = [R.msgpack_encode(R.EVENT, ns, pid,
                                              ['*', victim, 'x'])]
            else:
                sendf = [R.encode(R.EVENT, ns, pid, ['*', victim, 'x'])[0]]
            ctx.count('catch_all_key_collision_frames')
        elif mode < 0.39 and ser == 'default':
            # a binary event, complete with all the attachments it declares,
            # in which one placeholder refers to an attachment that does not
            # exist: it cannot be decoded, no handler may see it
            mine = [ns for (T, ns) in r.issued if T == self.OT] or ['/']
            natt = rng.choice([1, 1, 2, 3])
            blobs = [bytes([97 + i]) * 4 for i in range(natt)]
            data = [rng.choice(S.EVENT_POOL), {'a': blobs[0]}] + blobs[1:]
            text, atts = R.encode(R.EVENT, rng.choice(mine),
                                  rng.choice([None, 3]), data)
            victim = rng.randrange(natt)
            bad = rng.choice([natt, natt + 1, 10 ** 6, -natt - 1, -10 ** 6])
            text = text.replace('"num":%d' % victim, '"num":%d' % bad, 1)
            sendf = [text] + atts
            self.undecodable_seq = r.T[self.OT].eio_sid not in \
                r.sio._binary_packet
            ctx.count('bad_placeholder_index_packets')
        else:
            sendf = []
            for f in frames:
                if isinstance(f, str):
                    for _ in range(rng.choice([1, 1, 2])):
                        f = mutate_text(rng, f)
                    sendf.append(f)
                elif ser == 'msgpack':
                    sendf.append(mutate_msgpack(rng, f))
                else:
                    if rng.random() < 0.5:
                        sendf.append(f)
                    if rng.random() < 0.2:
                        sendf.append(rng.randbytes(3))
        for f in sendf:
            enc = rng.random() < 0.25
            op = ['raw_encoded' if enc else 'raw', self.OT, None]
            if enc:
                if isinstance(f, str):
                    op[2] = '4' + f
                else:
                    op[2] = 'b' + base64.b64encode(f).decode() \
                        if rng.random() < 0.5 else f
            else:
                op[2] = f
            self.ops.append(op)
            size = len(op[2]) if isinstance(op[2], (str, bytes)) else 0
            if traced:
                tracemalloc.clear_traces()
                tracemalloc.reset_peak()
                base = tracemalloc.get_traced_memory()[0]
            self.was_reassembling = \
                r.T[self.OT].eio_sid in r.sio._binary_packet
            stalled = False
            cpu0 = time.process_time()
            try:
                with cpu_budget(CPU_BUDGET):
                    res = r.step(op)
            except FrameStall:
                stalled = True
            # (engine.io's catch-all is a bare "except:": the budget's
            # exception may have been swallowed and logged there)
            if not stalled:
                stalled = any(e.get('exc') == 'FrameStall'
                              for e in res.get('errors') or []) or \
                    time.process_time() - cpu0 > CPU_BUDGET
            if stalled:
                return self.fail(
                    'a single %d-byte frame kept the server busy for more '
                    'than %.0f s of CPU time: no other client is served '
                    'meanwhile' % (size, CPU_BUDGET),
                    {'frame': repr(op[2])[:300]})
            ctx.count('frames_cpu_budget_checked')
            if traced:
                peak = tracemalloc.get_traced_memory()[1] - base
                ctx.count('frames_allocation_checked')
                bound = 400 * max(size, 1) + 600000
                at = len(self.ops)
                if peak > bound and at not in getattr(self, 'confirm_at', ()):
                    # tracemalloc sees the whole process: one-time lazies
                    # (source lines cached for a first traceback or warning,
                    # codec and regex caches) land in whichever frame comes
                    # first.  The attack is deterministic: run it once more,
                    # warm; only a peak at the *same* frame of the attack
                    # counts.
                    raise AllocRetry(at)
                if peak > bound:
                    return self.fail(
                        'processing a %d-byte frame allocated %d bytes '
                        '(bound %d)' % (size, peak, bound),
                        {'frame': repr(op[2])[:300]})
            ctx.count('offender_frames')
            if self.judge_offender(res, op) is False:
                return
            # an application that relays what its clients say: whatever text
            # the offender got past the decoder, the relayed event reaches
            # the bystanders in the room (their transports can serialise it)
            relay = [e for e in res.get('events', [])
                     if e[0] == 'handler' and e[1] == 'event' and
                     any(isinstance(a, str) for a in e[5])]
            if relay and rng.random() < 0.5:
                e = relay[0]
                self.tok += 1
                ns = e[2]
                rr = r.step(['emit', self.tok, 'lobby', None, ns, None,
                             {'said': [a for a in e[5]
                                       if isinstance(a, str)]}])
                ctx.count('offender_text_relayed')
                if rr.get('exc') or rr.get('decode_errors'):
                    return self.fail(
                        'relaying text received from the offender to the '
                        'room failed: %s' % (rr.get('exc') or
                                             rr['decode_errors'][0][1]),
                        {'frame': repr(op[2])[:400],
                         'text': core.jsonable(e[5])})
                got = sorted(t for t, pk in rr['sent'].items() for p in pk
                             if t in self.by_T)
                want = sorted(t for (t, n2), rooms in self.rooms.items()
                              if n2 == ns and 'lobby' in rooms)
                if got != want:
                    return self.fail(
                        'text received from the offender and relayed to the '
                        'room reached bystanders %r, expected %r' % (
                            got, want), {'frame': repr(op[2])[:400]})
        self.undecodable_seq = False

    def judge_offender(self, res, op):
        ctx = self.ctx
        # no handler on behalf of a bystander
        for e in res.get('events', []):
            if e[0] == 'handler':
                ctx.count('handler_invocations_during_attack')
                if not isinstance(e[4], str):
                    self.fail('offender frame invoked %s handler with %r in '
                              'the place of the session id' % (
                                  e[1], type(e[4]).__name__),
                              {'frame': repr(op[2])[:400],
                               'event': core.jsonable(e)})
                    return False
                if e[4] in self.by_sids:
                    self.fail('offender frame invoked %s handler on behalf '
                              'of bystander %r' % (e[1], e[4]),
                              {'frame': repr(op[2])[:400], 'event': e})
                    return False
                mine = {s for (T, ns), lst in self.r.issued.items()
                        if T == self.OT for s in lst}
                if e[1] == 'event' and e[4] not in mine:
                    # an application handler may only ever run on behalf of
                    # the session the frame came from
                    self.fail('offender frame invoked an event handler with '
                              'session id %r, which is not a session of the '
                              'offender (namespace %r)' % (e[4], e[2]),
                              {'frame': repr(op[2])[:400], 'event': e})
                    return False
                if e[1] == 'event' and getattr(self, 'undecodable_seq',
                                               False):
                    self.fail('a handler was invoked for a binary event in '
                              'which a placeholder refers to an attachment '
                              'that does not exist (handler saw %r)' % (
                                  e[5],),
                              {'frame': repr(op[2])[:400], 'event': e})
                    return False
                if e[1] == 'event' and self.cfg['serializer'] == 'default' \
                        and not self.was_reassembling and (
                            isinstance(op[2], (bytes, bytearray)) or (
                                op[0] == 'raw_encoded' and
                                isinstance(op[2], str) and
                                op[2][:1] == 'b')):
                    self.fail('a binary frame that arrived while no '
                              'attachment was owed reached an application '
                              'handler', {'frame': repr(op[2])[:400],
                                          'event': core.jsonable(e)})
                    return False
                if e[1] == 'event' and isinstance(op[2], str) and \
                        not self.was_reassembling and \
                        self.cfg['serializer'] == 'default' and \
                        not (op[0] == 'raw_encoded' and op[2][:1] == 'b'):
                    if not self.derivable(op[2], e):
                        self.fail('a handler was invoked with data that is '
                                  'not decodable from the offending frame',
                                  {'frame': repr(op[2])[:400], 'event': e})
                        return False
            if e[0] == 'callback' and e[1] not in self.off_tokens:
                self.fail('offender frame completed a callback that was '
                          'registered for another client (token %r)'
                          % e[1], {'frame': repr(op[2])[:400]})
                return False
        for T, pkts in res.get('sent', {}).items():
            if T in self.by_T:
                self.fail('offender frame caused %r to be sent to bystander '
                          'transport %s' % (pkts, T),
                          {'frame': repr(op[2])[:400]})
                return False
        return True

    def derivable(self, frame, e):
        """The event name and arguments a handler received must be present
        in the frame's JSON payload."""
        if frame[:1] == '4' and self.ops[-1][0] == 'raw_encoded':
            frame = frame[1:]
        # (the payload is the JSON text that ends the frame; a namespace may
        # itself contain '[': every '[' is tried as its start)
        self.ctx.count('derivability_checks')

        def fits(i):
            try:
                data = json.loads(frame[i:])
            except ValueError:
                return False
            return isinstance(data, list) and bool(data) and \
                data[0] == e[3] and R.deep_eq(data[1:], e[5])
        # a namespace ends at the first ',' (it cannot contain one); the
        # payload follows the optional id
        j = frame.find(',')
        if j > 0 and '/' in frame[:j]:
            k = j + 1
            while k < len(frame) and frame[k].isdigit():
                k += 1
            if fits(k):
                return True
        i = frame.find('[')
        tried = 0
        while i >= 0 and tried < 200:
            tried += 1
            if fits(i):
                return True
            i = frame.find('[', i + 1)
        # (a namespace of hundreds of '[': from the end of the frame too)
        i = frame.rfind('[')
        tried = 0
        while i >= 0 and tried < 300:
            tried += 1
            if fits(i):
                return True
            i = frame.rfind('[', 0, i)
        return False

    # ---------------------------------------------------------- bystanders
    def bystander_state_ok(self, where):
        r, ctx = self.r, self.ctx
        for (T, ns), sid in self.by.items():
            ctx.count('bystander_state_checks')
            rooms = set(r.d.api('rooms', sid, namespace=ns))
            if rooms != self.rooms[(T, ns)]:
                self.fail('%s: bystander rooms changed to %r (were %r)' % (
                    where, rooms, self.rooms[(T, ns)]))
                return False
            sess = r.d.api('get_session', sid, namespace=ns)
            if sess != self.sessions[(T, ns)]:
                self.fail('%s: bystander session changed to %r' % (where,
                                                                   sess))
                return False
            if not r.sio.manager.is_connected(sid, ns):
                self.fail('%s: bystander was disconnected' % where)
                return False
        return True

    def bystander_traffic(self, force_cb=False):
        """Well-formed event with ack from a bystander, and a room broadcast;
        both must work exactly."""
        r, rng, ctx = self.r, self.rng, self.ctx
        (T, ns), sid = rng.choice(sorted(self.by.items()))
        self.tok += 1
        tok = self.tok
        ev = rng.choice(['ev0', 'ev1'])
        ret = rng.choice([None, 'ok', ('a', 1), {'k': [1]}])
        self.cfg['returns'][tok] = ret
        res = r.step(['event', T, ns, ev, [tok, 'payload'], 5])
        ctx.count('bystander_events')
        hc = [e for e in res['events'] if e[0] == 'handler']
        style = self.cfg['style'][ns]
        want_h = 1
        if len(hc) != want_h or hc[0][4] != sid or hc[0][5][0] != tok:
            return self.fail('bystander event was not handled normally '
                             'during the attack: %r (errors %r)' % (
                                 hc, res.get('errors')))
        acks = res['sent'].get(T, [])
        if len(acks) != 1 or acks[0]['type'] != R.ACK or \
                acks[0]['id'] != 5 or acks[0]['nsp'] != ns or \
                not R.deep_eq(acks[0]['data'], gen.expected_args(ret)):
            return self.fail('bystander event was not acknowledged '
                             'normally: %r' % (res['sent'],))
        del style
        if any(t in self.by_T and t != T for t in res['sent']):
            return self.fail('bystander ACK leaked to another bystander')
        # broadcast to the room
        self.tok += 1
        # (sometimes the application passes a callback along: whatever that
        # means for several recipients, the emit itself must go through)
        cb = 'fn' if rng.random() < 0.4 or force_cb else None
        if cb:
            # (registered once per recipient, the offender included when it
            # is in the room: its own acknowledgement may complete its copy)
            self.off_tokens.add(self.tok)
        res = r.step(['emit', self.tok, 'lobby', None, ns, cb])
        if res.get('exc'):
            return self.fail('room broadcast%s raised %s during the attack'
                             % (' with a callback' if cb else '',
                                res['exc']),
                             {'exc_tb': res.get('exc_tb')})
        got = sorted(t for t, pk in res['sent'].items() for p in pk
                     if t in self.by_T)
        want = sorted(t for (t, n2), rooms in self.rooms.items()
                      if n2 == ns and 'lobby' in rooms)
        ctx.count('bystander_broadcasts')
        if got != want:
            return self.fail('room broadcast reached bystanders %r, expected'
                             ' %r' % (got, want))

    def shared_payload_probe(self):
        """An application that keeps what its clients send: the handler of
        'keep' stores its argument in the sender's session, the handler of
        'edit' edits the stored object in place.  A bystander and the
        offender send textually identical 'keep' frames; the offender then
        edits its own copy.  The bystander's session is untouched."""
        r, rng, ctx = self.r, self.rng, self.ctx
        cand = [(k, sid) for k, sid in sorted(self.by.items())
                if (self.OT, k[1]) in r.issued]
        if not cand:
            return
        (T, ns), sid = rng.choice(cand)
        sio = r.sio
        if not getattr(self, '_keep_registered', None):
            self._keep_registered = set()
        if ns not in self._keep_registered:
            self._keep_registered.add(ns)
            is_async = r.d.is_async

            def keep(s, arg):
                def go():
                    return sio.save_session(s, {'kept': arg}, namespace=ns)
                return go()

            def edit(s, mark):
                async def ago():
                    sess = await sio.get_session(s, namespace=ns)
                    touch(sess, mark)

                def touch(sess, mark):
                    kept = sess.get('kept')
                    if isinstance(kept, dict):
                        kept.setdefault('prefs', {})['n'] = mark
                        kept.setdefault('log', []).append(mark)
                if is_async:
                    return ago()
                touch(sio.get_session(s, namespace=ns), mark)
            if is_async:
                async def akeep(s, arg):
                    await keep(s, arg)

                async def aedit(s, mark):
                    await edit(s, mark)
                sio.on('keep', akeep, namespace=ns)
                sio.on('edit', aedit, namespace=ns)
            else:
                sio.on('keep', keep, namespace=ns)
                sio.on('edit', edit, namespace=ns)
        self.tok += 1
        payload = {'prefs': {'n': 1, 'tag': 'p%d' % self.tok}, 'log': []}
        res = r.step(['event', T, ns, 'keep', [copy.deepcopy(payload)], None])
        if res.get('errors'):
            return self.fail('bystander event raised: %s' %
                             res['errors'][0]['exc'])
        self.sessions[(T, ns)] = {'kept': copy.deepcopy(payload)}
        for _ in range(rng.choice([1, 2])):
            r.step(['event', self.OT, ns, 'keep', [copy.deepcopy(payload)],
                    None])
        r.step(['event', self.OT, ns, 'edit', ['edited by the offender'],
                None])
        r.d.clear_errors()
        ctx.count('identical_payloads_kept_by_two_clients')
        self.bystander_state_ok('after the offender edited its own copy of '
                                'a payload that a bystander had sent too')

    def final_probes(self):
        r, ctx = self.r, self.ctx
        if not self.bystander_state_ok('after the attack'):
            return
        # outstanding server callbacks of bystanders still work
        for (T, ns), (pid, tok) in sorted(self.out_cb.items()):
            res = r.step(['ack', T, ns, pid, ['late-but-valid']])
            cbs = [e for e in res['events'] if e[0] == 'callback']
            ctx.count('bystander_callback_probes')
            if len(cbs) != 1 or cbs[0][1] != tok or \
                    cbs[0][2] != ['late-but-valid']:
                return self.fail('a bystander\'s outstanding callback did '
                                 'not complete after the attack: %r' % cbs)
        # a fresh client can connect and is served
        T = self.OT + 1
        r.step(['open', T])
        ns = self.served[0]
        res = r.step(['connect', T, ns, None])
        acc = [p for p in res['sent'].get(T, []) if p['type'] == R.CONNECT]
        ctx.count('fresh_connect_probes')
        if len(acc) != 1:
            return self.fail('a fresh client cannot connect after the '
                             'attack: %r' % (res['sent'],))
        self.tok += 1
        res = r.step(['event', T, ns, 'ev0', [self.tok], 1])
        if [p['type'] for p in res['sent'].get(T, [])] != [R.ACK]:
            return self.fail('a fresh client is not served after the '
                             'attack')
        self.bystander_traffic()
        if self.failed:
            return
        # a bystander can leave: its disconnect handler runs once and the
        # server forgets it
        (bT, bns), bsid = self.rng.choice(sorted(self.by.items()))
        gone = {k2: v for k2, v in self.by.items() if k2[0] == bT}
        res = r.step(['lose', bT])
        ctx.count('bystander_departure_probes')
        dh = [(e[2], e[4]) for e in res.get('events', [])
              if e[0] == 'handler' and e[1] == 'disconnect']
        want = sorted((k2[1], v) for k2, v in gone.items())
        if res.get('errors') or sorted(dh) != want:
            return self.fail('a bystander that leaves after the attack: '
                             'disconnect handlers ran for %r, expected %r '
                             '(errors %r)' % (sorted(dh), want, [
                                 e.get('exc') for e in
                                 res.get('errors') or []]))
        for (k2, v) in gone.items():
            if r.sio.manager.is_connected(v, k2[1]) or any(
                    v in members for members in
                    r.sio.manager.rooms.get(k2[1], {}).values()):
                return self.fail('a bystander that left after the attack is '
                                 'still known to the server')
            self.by.pop(k2, None)
            self.rooms.pop(k2, None)
            self.sessions.pop(k2, None)

    def run(self, traced):
        rng = self.rng
        self.setup()
        if not self.by:
            return
        n = rng.choice([30, 60, 120])
        if rng.random() < 0.3:
            # the offender opens with acknowledgements nobody asked for,
            # before the application has ever emitted to it with a callback;
            # then the application does (a room broadcast with a callback)
            self.force_mode = [0.56]
            self.offender_frame(traced)
            for _ in range(2):
                if not self.failed:
                    self.bystander_traffic(force_cb=True)
            if self.failed:
                return
        for i in range(n):
            self.offender_frame(traced)
            if self.failed:
                return
            if rng.random() < 0.15:
                self.bystander_traffic()
                if self.failed:
                    return
            if rng.random() < 0.03:
                self.shared_payload_probe()
                if self.failed:
                    return
            if rng.random() < 0.1:
                if not self.bystander_state_ok('during the attack'):
                    return
        self.final_probes()
        if not self.failed:
            self.ctx.case((self.kind, self.cfg['serializer'],
                           self.cfg['async_handlers'],
                           tuple(sorted(self.cfg['style'].items())),
                           self.cfg['global_catchall'], len(self.by), n),
                          {'config': self.witness()['config'],
                           'sample_frames': [repr(o[2])[:120]
                                             for o in self.ops[:12]]})

    def close(self):
        self.r.close()


class AllocRetry(Exception):
    pass


def run_case(ctx, k, traced=False):
    seen = set()
    for _ in range(5):
        rng = ctx.case_rng(k)
        a = Attack(ctx, rng, 'sync' if k % 2 == 0 else 'async', k)
        a.confirm_at = set(seen)
        try:
            a.run(traced)
            return
        except AllocRetry as e:
            ctx.count('allocation_peaks_measured_again')
            seen.add(e.args[0])
        finally:
            a.close()
    # peaks kept turning up at other frames of the same attack: nothing of
    # the attack's own making; no verdict on allocation for this case
    ctx.count('allocation_peaks_unsettled')


def run(ctx):
    ctx.rule = ('attacks: one offender sends 30-120 frames (grammar-based '
                'mutations of valid packets: deletion/duplication, digit '
                'runs up to 200, unicode digits, misplaced - , / ?, '
                'truncation, 10^5-deep JSON, non-list payloads, bad '
                'placeholder indices, wrong types, stray binary frames; raw '
                'random text/bytes; mutated msgpack maps; a quarter through '
                'engine.io\'s own packet decoding) interleaved with '
                'well-formed bystander events, broadcasts and callbacks; '
                'one case = one attack; distinct = server configuration x '
                'bystander count x length')
    ctx.assumptions = [
        'engine.io contains exceptions raised by the message callback '
        '(trusted dependency)',
        'the offender\'s own connection may become unusable',
        'allocation bound per frame: 400 bytes per input byte + 600 kB, '
        'measured with tracemalloc on every third attack']
    try:
        resource.setrlimit(resource.RLIMIT_AS, (6 << 30, 6 << 30))
    except Exception:
        pass
    ctx.require('frames_cpu_budget_checked', 100)
    ctx.require('offender_frames', 2000)
    ctx.require('bystander_events', 100)
    ctx.require('bystander_broadcasts', 100)
    ctx.require('bystander_state_checks', 100)
    ctx.require('bystander_callback_probes', 10)
    ctx.require('fresh_connect_probes', 20)
    ctx.require('frames_allocation_checked', 300)
    ctx.require('derivability_checks', 20)
    ctx.require('bad_placeholder_index_packets', 20)
    ctx.require('catch_all_key_collision_frames', 20)
    ctx.require('msgpack_declared_size_frames', 10)
    ctx.require('binary_frames_spelling_text_packets', 10)
    ctx.require('lone_surrogate_texts', 10)
    ctx.require('offender_text_relayed', 10)
    ctx.require('unsolicited_ack_frames', 20)
    ctx.require('digit_runs_of_several_hundred_thousand', 5)
    ctx.require('connects_with_non_string_namespace', 5)
    ctx.require('bystander_departure_probes', 20)
    ctx.require('identical_payloads_kept_by_two_clients', 10)
    # the offender's well-formed churn handled by one thread while another
    # thread serves a bystander (controlled scheduler, statement level)
    from checks import c12_sched
    ctx.require('churn_race_schedules', 200)
    ctx.require('bystander_probes_checked', 500)
    c12_sched.run_part(ctx, (ctx.budget or 45) * 0.22)
    k = 0
    while not ctx.out_of_time() and not ctx.too_many_violations():
        traced = k % 3 == 0
        if traced:
            tracemalloc.start()
        try:
            run_case(ctx, k, traced)
        finally:
            if traced:
                tracemalloc.stop()
        ctx.count('attacks')
        k += 1


def replay(ctx, w):
    if w['witness'].get('part') == 'churn_race':
        from checks import c12_sched
        return c12_sched.replay(ctx, w)
    run_case(ctx, w['witness']['case_index'])
