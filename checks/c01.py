"""C01 Packet codec: round trip and v5 wire conformance (DESIGN 3/C01).

Monitor: every packet produced by the generators goes through the real
socketio.packet.Packet encode/decode; the oracle is vlib.refcodec (written from
the protocol text) plus structural equality.
"""
import itertools

from vlib import gen
from vlib import refcodec as R
from vlib.core import jsonable

LEVEL = 'exploration'
TIERS = {
    'quick': {'budget': 25, 'watchdog': 300, 'shards': 1},
    'thorough': {'budget': 420, 'watchdog': 900, 'shards': 16},
}

HEADS = [
    None, [], {}, '', 'x', '0', '12', '-', '1-', ',', '/', '/a,', '?', True,
    False, ['ev'], ['ev', 1], ['1'], ['-'], [0], [[]], [{}], {'a': 1},
    {'sid': 'abc'}, {'0': 0}, ['ev', None], ['ev', '', 0, False, [], {}],
    ['ev', b'x'], ['ev', b''], [b'a', b'b'], ['ev', {'a': b'1', 'b': [b'2']}],
    {'k': b'v'}, b'raw', ['é😀'], ['ev', 1.5, -0.0, 1e300],
]
GRID_NS = [None, '/', '/a', '/a-b', '/1', '/12', '/-', '/1-', '/a/b', '/é',
           '/a?x=1', '/?q', '/a-1?b=2-3']
GRID_IDS = [None, 0, 1, 9, 10, 11, 100, 10**9, 10**99, 10**100 - 1]


def classify(w):
    what = w.get('kind', '')
    if what == 'ctor_rejects_binary_type_with_bytes':
        return 'binary-type-with-bytes-rejected-by-constructor'
    if what == 'attachment_count_parsed_for_text_type':
        return 'attachment-count-parsed-for-text-types'
    return None


def expected_view(ptype, nsp, pid, data):
    ens = '/' if nsp is None else nsp
    q = ens.find('?')
    if q != -1:
        ens = ens[:q]
    return {'type': R.promoted_type(ptype, data), 'nsp': ens, 'id': pid,
            'data': data}


def view_eq(a, b):
    return a['type'] == b['type'] and a['nsp'] == b['nsp'] and \
        a['id'] == b['id'] and type(a['id']) is type(b['id']) and \
        R.deep_eq(a['data'], b['data'])


def real_decode(P, text, atts, ctx, w):
    """Decode with the code under test, handing attachments back one by one;
    checks the completion protocol.  Returns a view or None (violation
    reported)."""
    q = P.Packet(encoded_packet=text)
    n = q.attachment_count
    if n != len(atts):
        ctx.violation(None, 'decoder expects %d attachments, frame declares '
                      '%d' % (n, len(atts)), w)
        return None
    for k, a in enumerate(atts):
        done = q.add_attachment(a)
        ctx.count('add_attachment_calls')
        if done is not (k == len(atts) - 1):
            ctx.violation(None, 'add_attachment #%d of %d returned %r' % (
                k + 1, len(atts), done), w)
            return None
    if q.packet_type in (5, 6) or atts:
        try:
            q.add_attachment(b'extra')
        except ValueError:
            ctx.count('extra_attachment_rejected')
        else:
            ctx.violation(None, 'one attachment too many was accepted', w)
            return None
    return {'type': q.packet_type,
            'nsp': '/' if q.namespace is None else q.namespace,
            'id': q.id, 'data': q.data}


def check_packet(ctx, P, ptype, nsp, pid, data, rng, cls):
    w = {'type': ptype, 'namespace': nsp, 'id': pid, 'data': jsonable(data),
         'class': cls}
    ctx.count('packets')
    hb = R.has_bytes(data)
    # --- bytes only in events and acks ---------------------------------
    if hb and ptype not in (R.EVENT, R.ACK, R.BINARY_EVENT, R.BINARY_ACK):
        try:
            P.Packet(ptype, data=data, namespace=nsp, id=pid)
        except ValueError:
            ctx.count('bytes_rejected_for_non_event')
            ctx.case(('reject', ptype, gen.shape(data)), None)
        else:
            ctx.violation(None, 'bytes payload accepted for packet type %d'
                          % ptype, w)
        return
    try:
        p = P.Packet(ptype, data=data, namespace=nsp, id=pid)
    except ValueError as e:
        if hb and ptype in (R.BINARY_EVENT, R.BINARY_ACK):
            w['kind'] = 'ctor_rejects_binary_type_with_bytes'
            ctx.violation(classify(w), 'Packet(%s, data with bytes) raises %r'
                          % (R.NAMES[ptype], str(e)), w)
            return
        raise
    import copy
    before = copy.deepcopy(data)
    try:
        enc = p.encode()
        # encoding is an observation: the same packet encodes to the same
        # frames again, and the caller's payload object is left as it was
        # (the same object may be emitted again, or to several clients)
        enc2 = p.encode()
    except Exception as e:
        # every payload the generators build is JSON-compatible apart from
        # its byte strings, so a well-formed packet always has a frame
        ctx.violation(None, 'encode() raised %r for a well-formed %s packet'
                      % (e, R.NAMES[ptype]), w)
        return
    if enc2 != enc:
        ctx.violation(None, 'encoding the same packet twice gives different '
                      'frames: %r then %r' % (enc, enc2), w)
        return
    if not R.deep_eq(data, before):
        ctx.violation(None, 'encode() modified the payload object it was '
                      'given: %r' % (data,), w)
        return
    ctx.count('encode_purity_checks')
    if isinstance(enc, list):
        text, atts = enc[0], enc[1:]
    else:
        text, atts = enc, []
    w['frame'] = text
    want = expected_view(ptype, nsp, pid, data)
    # --- wire conformance against the reference encoder ------------------
    import json
    rhead, rjs, rtree, ratts = R.encode_parts(ptype, nsp, pid, data)
    rtext = rhead + rjs
    w['ref_frame'] = rtext
    if not isinstance(text, str):
        ctx.violation(None, 'encode() did not produce a text frame', w)
        return
    ctx.count('frames_compared_with_reference')
    if not text.startswith(rhead):
        ctx.violation(None, 'frame header differs from the prescribed %r'
                      % rhead, w)
        return
    j1 = text[len(rhead):]
    if list(atts) != list(ratts) or any(
            not isinstance(a, bytes) for a in atts):
        ctx.violation(None, 'attachment list differs from the prescribed one'
                      ' (order/numbering)', w)
        return
    if (j1 == '') != (rjs == ''):
        ctx.violation(None, 'payload presence differs from the prescribed '
                      'frame (%r vs %r)' % (j1[:40], rjs[:40]), w)
        return
    if j1:
        if not R.json_is_compact(j1):
            ctx.violation(None, 'JSON part is not compact', w)
            return
        try:
            same = R.deep_eq(json.loads(j1), rtree)
        except ValueError:
            same = False
        if not same:
            ctx.violation(None, 'JSON part differs from the prescribed one '
                          '(placeholder numbering / values)', w)
            return
    # --- is the packet representable by the prescribed format at all? ----
    try:
        rv = R.decode(rtext, ratts)
        representable = view_eq(rv, want)
    except R.RefError:
        representable = False
    if not representable:
        ctx.count('skipped_unrepresentable')
        if len(ctx.extra.setdefault('unrepresentable_samples', [])) < 5:
            ctx.extra['unrepresentable_samples'].append(
                {'packet': jsonable(w), 'frame': rtext})
        return
    # --- round trip through the real decoder (own frame) ------------------
    try:
        got = real_decode(P, text, atts, ctx, w)
    except Exception as e:
        got = None
        w['decode_exception'] = repr(e)
        if ptype not in (5, 6) and pid is not None and j1.startswith('-'):
            w['kind'] = 'attachment_count_parsed_for_text_type'
        ctx.violation(classify(w), 'decoder rejects the frame the encoder '
                      'produced: %r' % e, w)
        return
    if got is None:
        return
    ctx.count('round_trips')
    if not view_eq(got, want):
        w['decoded'] = jsonable(got)
        if ptype not in (5, 6) and pid is not None and j1.startswith('-'):
            w['kind'] = 'attachment_count_parsed_for_text_type'
        ctx.violation(classify(w), 'decode(encode(p)) != p', w)
        return
    # --- reference-produced frames into the real decoder -------------------
    for variant, fr in (('ref', rtext), ('js', R.encode(
            ptype, nsp, pid, data, num_first=True)[0])):
        try:
            got2 = real_decode(P, fr, ratts, ctx, dict(w, variant=variant,
                                                        fed=fr))
        except Exception as e:
            ctx.violation(None, 'decoder rejects a reference-produced frame '
                          '(%s): %r' % (variant, e), dict(w, fed=fr))
            return
        if got2 is None:
            return
        ctx.count('reference_frames_decoded')
        if not view_eq(got2, want):
            ctx.violation(None, 'decoder misreads a reference-produced frame '
                          '(%s)' % variant,
                          dict(w, fed=fr, decoded=jsonable(got2)))
            return
    sig = (ptype, 'N' if nsp is None else ('/' if nsp == '/' else (
        'q' if '?' in nsp else ('d' if any(c.isdigit() or c == '-'
                                            for c in nsp) else 'p'))),
        'N' if pid is None else len(str(pid)), gen.shape(data))
    ctx.case(sig, {'packet': w, 'attachments': len(atts)})


def gen_data_for(rng, ptype, big):
    """Random payload appropriate for the type (EVENT/ACK: lists)."""
    if ptype in (R.EVENT, R.BINARY_EVENT):
        args = gen.gen_args(rng, True, 5, bits=400, maxn=6)
        if big and rng.random() < 0.02:
            args.append(gen.gen_bytes(rng, big=True))
        if rng.random() < 0.03:
            # byte strings at any nesting depth
            args.append(gen.gen_deep(rng))
        return [gen.gen_event_name(rng)] + args
    if ptype in (R.ACK, R.BINARY_ACK):
        args = gen.gen_args(rng, True, 5, bits=400, maxn=6)
        if rng.random() < 0.03:
            args.append(gen.gen_deep(rng))
        return args
    r = rng.random()
    if r < 0.2:
        return None
    return gen.gen_tree(rng, 5, [40], with_bytes=rng.random() < 0.15,
                        bits=400)


def strip_placeholder_keys(d):
    if isinstance(d, list):
        return [strip_placeholder_keys(i) for i in d]
    if isinstance(d, dict):
        return {k: strip_placeholder_keys(v) for k, v in d.items()
                if k != '_placeholder'}
    return d


def interleaved_reassembly(ctx, P, rng):
    """Several binary packets are being reassembled at the same time (one per
    connection in a server): the attachments of each are handed back in their
    own order but interleaved with those of the others, and one of them may be
    abandoned half-way (its connection was lost).  Every packet still
    completes on its own last attachment with its own payload."""
    from vlib import refcodec as RR
    packs = []
    for _ in range(rng.randint(2, 4)):
        ptype = rng.choice([2, 3])
        data = strip_placeholder_keys(gen_data_for(rng, ptype, False))
        if not RR.has_bytes(data):
            data = (data if isinstance(data, list) else ['ev']) + \
                [gen.gen_bytes(rng), {'k': [gen.gen_bytes(rng)]}]
        nsp = gen.gen_namespace(rng, allow_none=True, simple=True)
        pid = rng.choice([None, 0, 7, 123])
        text, atts = RR.encode(ptype, nsp, pid, data)
        packs.append({'q': P.Packet(encoded_packet=text), 'atts': list(atts),
                      'given': 0, 'want': expected_view(ptype, nsp, pid,
                                                        data),
                      'frame': text[:80], 'done': False})
    abandoned = rng.randrange(len(packs)) if rng.random() < 0.4 else None
    w = {'part': 'interleaved_reassembly',
         'frames': [p['frame'] for p in packs], 'abandoned': abandoned}
    live = list(range(len(packs)))
    while live:
        i = rng.choice(live)
        pk = packs[i]
        if i == abandoned and pk['given'] >= max(0, len(pk['atts']) - 1):
            live.remove(i)          # never completed: the connection is gone
            continue
        if not pk['atts'][pk['given']:]:
            live.remove(i)
            continue
        a = pk['atts'][pk['given']]
        pk['given'] += 1
        try:
            done = pk['q'].add_attachment(a)
        except Exception as e:
            ctx.violation(None, 'interleaved reassembly: add_attachment '
                          'raised %r' % e, dict(w, packet=i))
            return
        ctx.count('interleaved_attachments')
        last = pk['given'] == len(pk['atts'])
        if done is not last:
            ctx.violation(None, 'interleaved reassembly: packet %d reported '
                          'completion=%r on attachment %d of %d' % (
                              i, done, pk['given'], len(pk['atts'])),
                          dict(w, packet=i))
            return
        if last:
            q = pk['q']
            got = {'type': q.packet_type,
                   'nsp': '/' if q.namespace is None else q.namespace,
                   'id': q.id, 'data': q.data}
            if not view_eq(got, pk['want']):
                ctx.violation(None, 'interleaved reassembly: packet %d was '
                              'reconstructed with a different payload' % i,
                              dict(w, packet=i, got=got, want=pk['want']))
                return
            live.remove(i)
    ctx.count('interleaved_reassemblies')
    ctx.case(('interleaved', len(packs), abandoned is not None), None)


def run(ctx):
    from socketio import packet as P
    rng = ctx.rng
    ctx.rule = ('packets (type, namespace, id, data) from an exhaustive '
                'header grid (7 types x %d namespaces x %d ids x %d payload '
                'heads) plus seeded random trees; a case is non-trivial when '
                'it was encoded, compared with the reference frame, decoded '
                'from both the real and the reference frame and compared; '
                'distinct = (type, namespace class, id digit count, payload '
                'shape)' % (len(GRID_NS), len(GRID_IDS), len(HEADS)))
    ctx.assumptions = [
        'reference codec vlib/refcodec.py is a faithful reading of the '
        'Socket.IO v5 protocol text',
        'packets whose prescribed frame the reference decoder itself cannot '
        'read back (bare top-level numbers after the id position) are '
        'counted as skipped_unrepresentable, not judged',
        'payload integers |n| < 10**100 (decoder guard), no lone surrogates',
    ]
    ctx.require('round_trips', 100)
    ctx.require('frames_compared_with_reference', 100)
    ctx.require('reference_frames_decoded', 100)
    ctx.require('add_attachment_calls', 10)
    ctx.require('interleaved_reassemblies', 10)
    ctx.require('bytes_rejected_for_non_event', 1)
    # (a) exhaustive header grid (shard 0 only; thorough shards>0 go random)
    if ctx.shard == 0:
        for ptype, nsp, pid, head in itertools.product(
                range(7), GRID_NS, GRID_IDS, HEADS):
            if ptype in (2, 5) and not (isinstance(head, list) and head and
                                        isinstance(head[0], str)):
                continue
            if ptype in (3, 6) and not isinstance(head, list):
                continue
            check_packet(ctx, P, ptype, nsp, pid, head, rng, 'grid')
            if ctx.too_many_violations():
                return
        ctx.extra['grid_exhaustive'] = True
    # (b) random
    n = 0
    while not ctx.out_of_time() and not ctx.too_many_violations():
        ptype = rng.randrange(7)
        nsp = gen.gen_namespace(rng, allow_none=True)
        if rng.random() < 0.1:
            nsp = nsp or '/'
            nsp += '?' + gen.gen_str(rng, 5).replace(',', '')
        pid = gen.gen_id(rng)
        data = strip_placeholder_keys(gen_data_for(rng, ptype, True))
        check_packet(ctx, P, ptype, nsp, pid, data, rng, 'random')
        n += 1
        if n % 20 == 0:
            interleaved_reassembly(ctx, P, rng)
    ctx.extra['random_packets'] = n
