"""C14 part P: PubSubManager vs AsyncPubSubManager.

One host with the in-memory backend; the rest of the cluster is played by
the script (injected channel messages from host 'REMOTE', own-host echoes,
malformed messages).  Compared: messages published on the channel (host id
renamed), frames to local clients, handler/callback invocations, API results.
"""
import asyncio
import copy
import json
import pickle

from vlib import core
from vlib import gen
from vlib import pubsub_mem as PM
from vlib import refcodec as R
from vlib import scenario as S
from vlib.vtime import VirtualLoop, settle

NAMESPACES = ['/', '/a']
ROOMS = ['r1', 'r2', 'lobby', 7]


def stable(x):
    return json.dumps(core.jsonable(x), sort_keys=True, default=repr)


def untuple(x):
    if isinstance(x, list) and x and x[0] == '$tuple':
        return tuple(x[1:])
    return x


class PubSubRun:
    def __init__(self, kind, cfg):
        self.kind = kind
        self.chan = PM.Channel()
        self.loop = None
        if kind == 'async':
            self.loop = VirtualLoop()
            asyncio.set_event_loop(self.loop)
            self.m = PM.make_async_manager(self.chan)
        else:
            self.m = PM.make_sync_manager(self.chan)
        dkw = {'client_manager': self.m}
        if self.loop is not None:
            dkw['loop'] = self.loop
        scfg = S.default_config(kind=kind, served=NAMESPACES,
                                async_handlers=False,
                                coroutines=cfg['coroutines'],
                                style=cfg['style'])
        self.r = S.Runner(scfg, drive_kw=dkw)
        self.mark = 0

    def subst(self, x):
        """Resolve symbolic sids / host ids inside an injected message."""
        if isinstance(x, list) and x and x[0] == 'sid':
            return self.r.sid_of(x)
        if isinstance(x, list) and x and x[0] == '$tuple':
            return tuple(self.subst(i) for i in x[1:])
        if isinstance(x, list):
            return [self.subst(i) for i in x]
        if isinstance(x, dict):
            return {k: self.subst(v) for k, v in x.items()}
        if x == '$SELF':
            return self.m.host_id
        return x

    def deliver_raw(self, raw):
        if self.kind == 'async':
            async def go():
                await self.m.a_inject(raw)
                await settle(self.loop)
            self.r.d.run(go())
        else:
            try:
                self.m.inject(raw)
            except TimeoutError:
                pass         # listener gone: reported through 'listener'

    def listener_alive(self):
        t = getattr(self.m, 'thread', None)
        if t is None:
            return None
        if self.kind == 'async':
            return not t.done()
        return t.is_alive()

    def drain(self):
        n = 0
        while self.m.pending and n < 1000:
            n += 1
            if self.kind == 'async':
                async def go():
                    await self.m.a_release_one()
                    await settle(self.loop)
                self.r.d.run(go())
            else:
                try:
                    self.m.release_one()
                except TimeoutError:
                    return

    def step(self, op):
        kind = op[0]
        if kind == 'inject':
            msg = self.subst(op[1])
            enc = op[2]
            if enc == 'pickle':
                raw = pickle.dumps(msg)
            elif enc == 'json':
                raw = json.dumps(msg)
            elif enc == 'jsonbytes':
                raw = json.dumps(msg).encode()
            elif enc == 'dict':
                raw = msg
            else:
                raw = op[1]
            res = {'op': op, '_ev0': len(self.r.events)}
            try:
                self.deliver_raw(raw)
            except Exception as e:
                if not core.exc_in_repo(e):
                    raise
                res['exc'] = type(e).__name__
            self.r._collect(res)
        elif kind == 'drain':
            res = {'op': op, '_ev0': len(self.r.events)}
            self.drain()
            self.r._collect(res)
        elif kind == 'emit_fault':
            # ['emit_fault', token, to, ns, fault]: an emit one half of which
            # fails - the local delivery (payload that cannot be encoded) or
            # the publication (backend unreachable)
            _, token, to, ns, fault = op
            res = {'op': op, '_ev0': len(self.r.events)}
            data = {'t': token}
            if fault == 'unserialisable':
                data = {'t': token, 'bad': {1, 2}}
            else:
                self.m.fail_next_publish = True
            try:
                self.r.d.api('emit', 'tok%s' % token, data,
                             to=self.r.resolve(to), namespace=ns)
            except Exception as e:
                res['exc'] = type(e).__name__
            self.m.fail_next_publish = False
            self.r._collect(res)
        else:
            res = self.r.step(op)
        pub = []
        for raw in self.chan.log[self.mark:]:
            try:
                pub.append(pickle.loads(raw))
            except Exception:
                pub.append({'undecodable': repr(raw)[:60]})
        self.mark = len(self.chan.log)
        res['published'] = pub
        res['listener'] = self.listener_alive()
        return res

    def close(self):
        try:
            if self.kind == 'sync':
                self.m.stop()
        except Exception:
            pass
        self.r.close()
        if self.loop is not None:
            try:
                for task in asyncio.all_tasks(self.loop):
                    task.cancel()
                self.loop.run_until_complete(asyncio.sleep(0))
                self.loop.run_until_complete(asyncio.sleep(0))
            except Exception:
                pass
            self.loop.close()


def normalise(results, run):
    base = S.normalise(results, run.r)
    names = {}
    for s in run.r.all_sids:
        names.setdefault(s, 'S%d' % (len(names) + 1))
    host = run.m.host_id

    def walk(x):
        if isinstance(x, str):
            if x == host:
                return '$SELF'
            return names.get(x, x)
        if isinstance(x, tuple):
            return {'$tuple': [walk(i) for i in x]}
        if isinstance(x, list):
            return [walk(i) for i in x]
        if isinstance(x, dict):
            return {walk(k) if isinstance(k, str) else k: walk(v)
                    for k, v in x.items()}
        return x
    for b, r in zip(base, results):
        b['published'] = [walk(m) for m in r['published']]
        b['listener'] = r['listener']
        b['events'] = [x for x in b['events'] if x[0] != 'send']
        if b['op'][0] == 'rooms' and isinstance(b.get('ret'), list):
            b['ret'] = sorted(b['ret'], key=stable)
    return base


# ------------------------------------------------------------- generation
def gen_pubsub_script(rng):
    cfg = {'coroutines': rng.random() < 0.7,
           'style': {ns: rng.choice(['func', 'class']) for ns in NAMESPACES}}
    ops = []
    tok = [0]
    nT = rng.randint(1, 3)
    hinted = []
    for t in range(1, nT + 1):
        ops.append(['open', t])
        for ns in NAMESPACES:
            if rng.random() < 0.7:
                ops.append(['connect', t, ns, None])
                hinted.append((t, ns))
    if not hinted:
        ops.append(['connect', 1, '/', None])
        hinted.append((1, '/'))

    def sid(remote_ok=True):
        if remote_ok and rng.random() < 0.3:
            return rng.choice(['remote-sid-1', 'remote-sid-2'])
        t, ns = rng.choice(hinted)
        return ['sid', t, ns]

    def ns_of(s):
        if isinstance(s, list):
            return s[2] if rng.random() < 0.9 else rng.choice(NAMESPACES)
        return rng.choice(NAMESPACES)

    def target():
        k = rng.random()
        if k < 0.25:
            return None
        if k < 0.55:
            return rng.choice(ROOMS)
        if k < 0.9:
            return sid()
        return ['list'] + [rng.choice(ROOMS + [sid()]) for _ in range(2)]

    def data():
        if rng.random() < 0.5:
            return rng.choice([None, 'd', ['$tuple', 1, 'two'], [1, 2], 0])
        return gen.gen_tree(rng, 2, [6], True)

    def host():
        return rng.choice(['REMOTE', 'REMOTE', 'REMOTE', '$SELF'])

    n = rng.choice([15, 30, 50])
    for _ in range(n):
        r = rng.random()
        if r < 0.20:
            tok[0] += 1
            to = target()
            cb = None
            if to is not None and not (isinstance(to, list) and
                                       to[0] == 'list') and \
                    rng.random() < 0.5:
                cb = rng.choice([True, 'co'])
            skip = sid() if rng.random() < 0.25 else None
            s_ns = to[2] if isinstance(to, list) and to[0] == 'sid' \
                else rng.choice(NAMESPACES + [None])
            ops.append(['emit', tok[0], to, skip, s_ns, cb, data()])
        elif r < 0.24:
            tok[0] += 1
            to = sid(False) if rng.random() < 0.7 else rng.choice(ROOMS)
            ops.append(['emit_fault', tok[0], to,
                        to[2] if isinstance(to, list) else
                        rng.choice(NAMESPACES),
                        rng.choice(['unserialisable', 'publish_fails'])])
        elif r < 0.32:
            s = sid()
            ops.append([rng.choice(['enter', 'leave']), s, rng.choice(ROOMS),
                        ns_of(s)])
        elif r < 0.36:
            ops.append(['close_room', rng.choice(ROOMS),
                        rng.choice(NAMESPACES)])
        elif r < 0.41:
            s = sid()
            ops.append(['sdisc', s, ns_of(s)])
        elif r < 0.44:
            t, ns = rng.choice(hinted)
            ops.append(['connect', t, ns, None])
        elif r < 0.50:
            t, ns = rng.choice(hinted)
            ops.append(['ack', t, ns, rng.choice([0, 1, 1, 2, 3]),
                        gen.gen_args(rng, True, 2, maxn=2)])
        elif r < 0.55:
            s = sid(False)
            ops.append(['rooms', s, s[2]])
        elif r < 0.60:
            ops.append(['drain'])
        elif r < 0.90:
            # a message from the rest of the cluster
            tok[0] += 1
            k = rng.random()
            enc = rng.choice(['pickle', 'pickle', 'pickle', 'json',
                              'jsonbytes', 'dict'])
            if k < 0.4:
                to = target()
                cb = None
                if rng.random() < 0.4:
                    cb = ['$tuple', to if to is not None else 'r1',
                          rng.choice(NAMESPACES), rng.choice([1, 2, 5])]
                msg = {'method': 'emit', 'event': 'tok%d' % tok[0],
                       'data': data(), 'namespace': rng.choice(
                           NAMESPACES + [None]),
                       'room': to if not (isinstance(to, list) and
                                          to[0] == 'list') else to[1:],
                       'skip_sid': sid() if rng.random() < 0.2 else None,
                       'callback': cb, 'host_id': host()}
            elif k < 0.52:
                msg = {'method': 'callback', 'host_id': host(),
                       'sid': sid(), 'namespace': rng.choice(NAMESPACES),
                       'id': rng.choice([0, 1, 1, 2, 3]),
                       'args': gen.gen_args(rng, True, 2, maxn=2)}
            elif k < 0.62:
                s = sid()
                msg = {'method': 'disconnect', 'sid': s,
                       'namespace': ns_of(s), 'host_id': host()}
            elif k < 0.78:
                s = sid()
                msg = {'method': rng.choice(['enter_room', 'leave_room']),
                       'sid': s, 'room': rng.choice(ROOMS),
                       'namespace': ns_of(s), 'host_id': host()}
            elif k < 0.84:
                msg = {'method': 'close_room', 'room': rng.choice(ROOMS),
                       'namespace': rng.choice(NAMESPACES),
                       'host_id': host()}
            else:
                msg = rng.choice([
                    {'method': 'nope', 'host_id': 'REMOTE'}, {}, [1, 2],
                    'method', {'method': 'emit'}, {'method': 'callback',
                                                  'host_id': '$SELF'},
                    {'method': 'enter_room', 'host_id': 'REMOTE'}, 5, None])
            if enc in ('json', 'jsonbytes'):
                # JSON cannot carry bytes / tuples: keep such messages pickled
                try:
                    json.dumps(msg)
                    if R.has_bytes(msg) or '$tuple' in json.dumps(msg):
                        enc = 'pickle'
                except Exception:
                    enc = 'pickle'
            ops.append(['inject', msg, enc])
        else:
            ops.append(['inject', rng.choice([b'\x00garbage', b'', 'text',
                                              '{"method":', b'\xff\xfe']),
                        'raw'])
    ops.append(['drain'])
    return cfg, ops


def materialise(ops):
    out = []
    for op in ops:
        op = copy.deepcopy(op)
        if op[0] == 'emit' and len(op) > 6:
            op[6] = untuple(op[6])
        out.append(op)
    return out


def run_side(kind, cfg, ops):
    run = PubSubRun(kind, cfg)
    try:
        res = [run.step(op) for op in materialise(ops)]
        return normalise(res, run), res
    finally:
        run.close()


def part_pubsub(ctx, k):
    rng = ctx.case_rng(k)
    cfg, ops = gen_pubsub_script(rng)
    ta, ra = run_side('sync', cfg, ops)
    tb, rb = run_side('async', cfg, ops)
    ctx.count('pubsub_scripts')
    ctx.count('pubsub_ops_compared', len(ops))
    ctx.count('pubsub_messages_compared',
              sum(len(e['published']) for e in ta))
    ctx.count('pubsub_faulted_emits',
              sum(1 for op in ops if op[0] == 'emit_fault'))
    ctx.count('pubsub_injected_messages',
              sum(1 for op in ops if op[0] == 'inject'))
    ctx.count('pubsub_frames_compared',
              sum(len(v) for e in ta for v in e['sent'].values()))
    ctx.count('pubsub_handler_events_compared',
              sum(len(e['events']) for e in ta))
    for i, (x, y) in enumerate(zip(ta, tb)):
        if stable(x) != stable(y):
            keys = sorted(kk for kk in set(x) | set(y)
                          if stable(x.get(kk)) != stable(y.get(kk)))
            ctx.violation(None, 'PubSubManager vs AsyncPubSubManager: traces '
                          'differ at operation %d (%r) in %s' % (
                              i, ops[i][:2], keys),
                          {'part': 'pubsub', 'case_index': k, 'config': cfg,
                           'ops': ops[:i + 1], 'threaded': x, 'asyncio': y,
                           'threaded_raw_errors': ra[i].get('errors') or
                           ra[i].get('exc_tb'),
                           'asyncio_raw_errors': rb[i].get('errors') or
                           rb[i].get('exc_tb')})
            return
    methods = sorted({op[1].get('method') if isinstance(op[1], dict)
                      else 'malformed' for op in ops if op[0] == 'inject'},
                     key=str)
    ctx.case(('P', tuple(sorted({op[0] for op in ops})), tuple(methods)),
             {'part': 'pubsub', 'ops': ops[:6],
              'published_head': [e['published'] for e in ta[:8]
                                 if e['published']][:2]})
