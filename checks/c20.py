"""C20 Threaded server: concurrent terminations of one client are safe.

Real threads under vlib.sched.ThreadScheduler: one runs at a time, pre-emption
at every call the server makes into the client manager and the transport
layer (quick: DFS over all schedules of every pair of causes and
pre-emption-bounded triples; thorough: additionally statement-level yield
points through sys.monitoring with seeded random schedules).
"""
import sys
import threading

from engineio import packet as eio_packet

from vlib import drive as D
from vlib import graphsize as G
from vlib import sched as SC

LEVEL = 'exploration'
TIERS = {
    'quick': {'budget': 50, 'watchdog': 400, 'shards': 1},
    'thorough': {'budget': 420, 'watchdog': 900, 'shards': 16},
}
CAUSES = ['server_disconnect', 'client_disconnect', 'transport_loss',
          'sibling_disconnect']
MGR_METHODS = ['is_connected', 'can_disconnect', 'pre_disconnect',
               'disconnect', 'sid_from_eio_sid', 'eio_sid_from_sid',
               'get_namespaces', 'basic_leave_room', 'get_rooms']
TOOL = 3


def classify(w):
    if w.get('gate_passed_by', 0) >= 2:
        return 'disconnect-gate-not-atomic'
    return None


SchedLock = SC.SchedLock
_last_undo = []


def _patch_locks(sched):
    import socketio.base_manager
    import socketio.base_server
    import socketio.manager
    import socketio.server
    return SC.patch_module_locks(sched, [
        socketio.base_manager, socketio.manager, socketio.server,
        socketio.base_server])


class SchedDict(dict):
    """A per-transport table of the server (half-received binary packets,
    environ): every access is a pre-emption point."""

    def __init__(self, sched, init, label):
        super().__init__(init)
        self._sched, self._label = sched, label

    def _y(self, what):
        self._sched.yield_point('%s.%s' % (self._label, what))

    def get(self, *a):
        self._y('get')
        return super().get(*a)

    def pop(self, *a):
        self._y('pop')
        return super().pop(*a)

    def __contains__(self, k):
        self._y('in')
        return super().__contains__(k)

    def __getitem__(self, k):
        self._y('getitem')
        return super().__getitem__(k)

    def __setitem__(self, k, v):
        self._y('setitem')
        return super().__setitem__(k, v)

    def __delitem__(self, k):
        self._y('delitem')
        return super().__delitem__(k)


class World:
    """A fresh threaded server with one client connected to '/' and '/b'."""

    def __init__(self, sched, pending_binary=False, bystander=True):
        self.sched = sched
        self.pending_binary = pending_binary
        self.bystander = bystander
        # (a lock patch left over by an earlier world must not leak into the
        # objects of this one)
        while _last_undo:
            _last_undo.pop()()
        self.d = D.SyncDrive(async_handlers=False, autojoin=False,
                             namespaces=['/', '/b'])
        d = self.d
        self.handler_calls = []
        self.gate = []            # (actor, method, result) for our sid
        d.on('connect', lambda sid, env, auth=None: None, '/')
        d.on('connect', lambda sid, env, auth=None: None, '/b')

        def on_disc(ns):
            def h(sid, reason):
                self.handler_calls.append((ns, sid, reason,
                                           sched.me() if sched else None))
                if sched:
                    sched.yield_point('handler:' + ns)
            return h
        d.on('disconnect', on_disc('/'), '/')
        d.on('disconnect', on_disc('/b'), '/b')
        self.t = d.open()
        self.t.connect('/')
        self.t.connect('/b')
        self.sid = self.t.sids['/']
        self.sid_b = self.t.sids['/b']
        # a bystander on the same namespace (it keeps the namespace's tables
        # alive while the client is being terminated); without one the
        # namespace's tables disappear with the client - both situations
        # hide defects the other shows
        self.t2 = None
        if bystander:
            self.t2 = d.open()
            self.t2.connect('/')
            self.t2.drain()
        if pending_binary:
            # the client has sent the header of a binary event but not all
            # of its attachments when the terminations begin
            from vlib import refcodec as RR
            self.t.send_packet(RR.EVENT, '/', None, ['ev', b'a', b'b'],
                               partial=2)
        if sched is not None:
            self.wrap()

    def wrap(self):
        sched = self.sched
        m = self.d.sio.manager
        world = self
        for name in MGR_METHODS:
            orig = getattr(m, name)

            def w(*a, _o=orig, _n=name, **k):
                sched.yield_point('mgr.' + _n)
                r = _o(*a, **k)
                if _n in ('is_connected', 'can_disconnect') and a and \
                        a[0] == world.sid and r:
                    world.gate.append((sched.me(), _n))
                return r
            setattr(m, name, w)
        # a lock held by a descheduled actor must not block the running one
        # outside the scheduler's control
        for attr, val in list(m.__dict__.items()):
            if isinstance(val, type(threading.RLock())) or (
                    isinstance(val, SchedLock) and val.reentrant):
                setattr(m, attr, SchedLock(sched, reentrant=True))
            elif isinstance(val, (type(threading.Lock()), SchedLock)):
                setattr(m, attr, SchedLock(sched))
        eio = self.d.eio
        orig_send = eio.send_packet

        def send_packet(sid, pkt):
            sched.yield_point('eio.send_packet')
            return orig_send(sid, pkt)
        eio.send_packet = send_packet
        # locks the code under test creates from now on are scheduler-aware
        self.undo_locks = _patch_locks(sched)
        _last_undo.append(self.undo_locks)
        sio = self.d.sio
        sio._binary_packet = SchedDict(sched, sio._binary_packet,
                                       'binary_packet')
        sio.environ = SchedDict(sched, sio.environ, 'environ')

    def actor(self, cause):
        d, t = self.d, self.t
        if cause == 'server_disconnect':
            return lambda: d.sio.disconnect(self.sid, namespace='/')
        if cause == 'client_disconnect':
            return lambda: t.socket.receive(eio_packet.Packet(
                eio_packet.MESSAGE, '1'))
        if cause == 'transport_loss':
            return lambda: t.socket.close(
                wait=False, abort=True,
                reason=d.eio.reason.TRANSPORT_ERROR)
        if cause == 'sibling_disconnect':
            return lambda: t.socket.receive(eio_packet.Packet(
                eio_packet.MESSAGE, '1/b,'))
        raise ValueError(cause)


class NoSched:
    def me(self):
        return None

    def yield_point(self, label=''):
        pass


def unwrap(w):
    undo = getattr(w, 'undo_locks', None)
    if undo:
        undo()
        w.undo_locks = None
        if undo in _last_undo:
            _last_undo.remove(undo)
    sio = w.d.sio
    if isinstance(sio._binary_packet, SchedDict):
        sio._binary_packet = dict(sio._binary_packet)
    if isinstance(sio.environ, SchedDict):
        sio.environ = dict(sio.environ)
    m = w.d.sio.manager
    for name in MGR_METHODS:
        if name in m.__dict__:
            delattr(m, name)
    if 'send_packet' in w.d.eio.__dict__:
        del w.d.eio.__dict__['send_packet']
    for attr, val in list(m.__dict__.items()):
        if isinstance(val, SchedLock):
            setattr(m, attr, threading.Lock())


def baseline_size():
    w = World(NoSched())
    w.t.lose()
    if w.t2 is not None:
        w.t2.lose()
    w.d.transports.clear()
    unwrap(w)
    return G.measure(w.d.sio)


def run_schedule(ctx, causes, choices, rng, bound, line_level, base,
                 pending_binary=False, bystander=None):
    sp = None
    if bystander is None:
        bystander = rng.random() < 0.6 if rng is not None else True
    if rng is not None:
        sp = rng.choice([None, 0.02, 0.05, 0.1, 0.25])
        # (only with actors that feed no client frames: a frame sent while
        # attachments are owed would be taken for the attachment)
        pending_binary = pending_binary or (
            rng.random() < 0.3 and
            set(causes) <= {'server_disconnect', 'transport_loss'})
    sched = SC.ThreadScheduler(choices=choices, rng=rng,
                               preemption_bound=bound, switch_prob=sp)
    w = World(sched, pending_binary, bystander)
    ctx.count('schedules_with_a_bystander' if bystander else
              'schedules_without_a_bystander')
    if pending_binary:
        ctx.count('schedules_with_partial_binary_packet')
    for c in causes:
        sched.spawn(c, w.actor(c))
    if line_level:
        enable_lines(sched)
    try:
        trace = sched.run()
    finally:
        if line_level:
            disable_lines()
    ctx.count('schedules_run')
    ctx.count('yield_points', len(sched.labels))
    wit = {'causes': causes, 'choices': [c for _, c in trace],
           'labels': [[a, lbl] for a, lbl in sched.labels][-80:],
           'handler_calls': [list(h) for h in w.handler_calls],
           'gate_passed_by': len({a for a, _ in w.gate}),
           'line_level': line_level, 'partial_binary_packet': pending_binary,
           'bystander': bystander}
    if sched.aborted:
        SC.report_abort(ctx, sched, wit)
        unwrap(w)
        return trace, 'aborted'
    outcome = []
    errs = list(sched.errors) + w.d.errors()
    mine = [h for h in w.handler_calls if h[0] == '/']
    if len(mine) != 1:
        outcome.append('handler_x%d' % len(mine))
    if errs:
        outcome.append('exception')
        wit['errors'] = [{'exc': e.get('exc'), 'tb': (e.get('tb') or '')[
            -1200:]} for e in errs[:3]]
    w.d.clear_errors()
    # end the transport (sequentially) and look for residue
    if not w.t.socket.closed:
        w.t.lose()
    elif w.t.eio_sid in w.d.eio.sockets:
        del w.d.eio.sockets[w.t.eio_sid]
    w.d.clear_errors()
    sio = w.d.sio
    m = sio.manager
    residue = []
    # the bystander is still served, then leaves too
    if w.t2 is not None:
        by_sid = w.t2.sids.get('/')
        if not m.is_connected(by_sid, '/') or \
                set(sio.rooms(by_sid, '/')) != {by_sid}:
            residue.append('bystander')
        w.t2.lose()
    w.d.clear_errors()
    if list(sio.rooms(w.sid, '/')):
        residue.append('rooms')
    if m.is_connected(w.sid, '/') or m.is_connected(w.sid_b, '/b'):
        residue.append('connected')
    if list(m.get_namespaces()):
        residue.append('namespaces')
    w.d.transports.clear()
    unwrap(w)
    size, types_ = G.measure(sio)
    if size != base[0]:
        residue.append('graph')
        wit['graph_growth'] = G.diff(base[1], types_)
    if residue:
        outcome.append('residue:' + '+'.join(residue))
        wit['internals'] = {
            'pending_disconnect': {k: list(v) for k, v in
                                   m.pending_disconnect.items()},
            'rooms': {str(ns): {str(r): list(b) for r, b in rs.items()}
                      for ns, rs in m.rooms.items()}}
    res = ','.join(outcome) or 'clean'
    ctx.count('outcome_' + res.split(':')[0].split(',')[0])
    ctx.extra.setdefault('outcome_classes', [])
    if res not in ctx.extra['outcome_classes']:
        ctx.extra['outcome_classes'].append(res)
    winner = mine[0][2] if mine else None
    if res != 'clean':
        wit['outcome'] = res
        ctx.violation(classify(wit), 'concurrent %s: %s' % (
            ' || '.join(causes), res), wit)
    ctx.case((tuple(causes), res, winner, line_level,
              tuple(c for _, c in trace)[:40]),
             wit if res == 'clean' and len(trace) > 3 and
             len(ctx.samples) < 3 else None)
    return trace, res


# ------------------------------------------------- racing re-connection
def run_recon_schedule(ctx, causes, choices, rng, bound=None):
    """A terminating cause races with the client's own DISCONNECT followed
    by a fresh CONNECT of the same namespace (and with a client event).  Per
    session id: disconnect handler at most once and exactly once iff the id
    is no longer connected; `server disconnect` only for the id passed to
    disconnect(); `client disconnect` only for an id that was the client's
    session when it sent DISCONNECT; a transport reason only after a loss."""
    from vlib import refcodec as R
    sp = rng.choice([None, 0.05, 0.2]) if rng is not None else None
    sched = SC.ThreadScheduler(choices=choices, rng=rng,
                               preemption_bound=bound, switch_prob=sp)
    w = World(sched)
    d, t = w.d, w.t
    m = d.sio.manager
    client_disc = set()
    if 'client_disconnect' in causes:
        client_disc.add(w.sid)
    if 'sibling_disconnect' in causes:
        client_disc.add(w.sid_b)
    lost = []
    fed_events = []
    ev_log = []
    d.on('ev', lambda sid, tok: ev_log.append((sid, tok)) or 'r', '/')

    def recon():
        sid = m.sid_from_eio_sid(t.eio_sid, '/')
        if sid is not None:
            client_disc.add(sid)
        t.socket.receive(eio_packet.Packet(eio_packet.MESSAGE, '1'))
        sched.yield_point('client:between')
        if not t.socket.closed:
            t.socket.receive(eio_packet.Packet(eio_packet.MESSAGE, '0'))

    def event():
        # sampled without yield points (the unwrapped methods), i.e.
        # atomically with respect to the other actors
        M = type(m)
        sid = M.sid_from_eio_sid(m, t.eio_sid, '/')
        conn = bool(sid is not None and M.is_connected(m, sid, '/'))
        fed_events.append((sid, conn))
        if not t.socket.closed:
            t.socket.receive(eio_packet.Packet(eio_packet.MESSAGE,
                                               '27["ev",1]'))

    def loss():
        lost.append(1)
        t.socket.close(wait=False, abort=True,
                       reason=d.eio.reason.TRANSPORT_ERROR)
    for c in causes:
        if c == 'recon':
            sched.spawn(c, recon)
        elif c == 'event':
            sched.spawn(c, event)
        elif c == 'transport_loss':
            sched.spawn(c, loss)
        else:
            sched.spawn(c, w.actor(c))
    trace = sched.run()
    ctx.count('recon_schedules_run')
    t.drain()
    wit = {'part': 'recon', 'causes': causes,
           'choices': [c for _, c in trace],
           'labels': [[a, lbl] for a, lbl in sched.labels][-80:],
           'handler_calls': [list(h) for h in w.handler_calls],
           'frames_to_client': [[p['type'], p['nsp'], p['id'], p['data']]
                                for p in t.packets]}
    if sched.aborted:
        SC.report_abort(ctx, sched, wit)
        unwrap(w)
        return trace, 'aborted'
    errs = list(sched.errors) + d.errors()
    if errs:
        wit['errors'] = [{'exc': e.get('exc'), 'tb': (e.get('tb') or '')[
            -1200:]} for e in errs[:3]]
        # the re-CONNECT processed while the transport is being torn down
        # (known mechanism): when the teardown has already dropped the
        # transport's environ the session is registered and then abandoned
        # with a KeyError instead of being accepted
        key = None
        if lost and 'recon' in causes and all(
                e.get('exc') == 'KeyError' and
                '_handle_connect' in (e.get('tb') or '') and
                'self.environ[eio_sid]' in (e.get('tb') or '')
                for e in errs):
            key = 'session-accepted-during-transport-teardown'
        ctx.violation(key, 'concurrent %s: exception escaped (%s)' % (
            ' || '.join(causes), errs[0].get('exc')), wit)
        return trace, 'exception'
    sids = [(p['data']['sid'], p['nsp']) for p in t.packets
            if p['type'] == R.CONNECT and isinstance(p['data'], dict)]
    res = 'clean'
    for sid, ns in sids:
        calls = [h for h in w.handler_calls if h[1] == sid]
        conn = m.is_connected(sid, ns)
        causes_for = set()
        if lost:
            causes_for.add('transport error')
        if sid in client_disc:
            causes_for.add('client disconnect')
        if sid == w.sid and 'server_disconnect' in causes:
            causes_for.add('server disconnect')
        if len(calls) > 1 or (not conn) != (len(calls) == 1):
            res = 'handler_x%d connected=%s' % (len(calls), conn)
        elif calls and calls[0][2] not in causes_for:
            res = 'reason %r not among %s' % (calls[0][2],
                                              sorted(causes_for))
        elif conn and t.socket.closed:
            res = 'session alive on a closed transport'
        if res != 'clean':
            wit['sid'] = sid
            break
    if res == 'clean':
        for sid, conn in fed_events:
            inv = [e for e in ev_log if e[1] == 1]
            acks = [p for p in t.packets if p['type'] == R.ACK and
                    p['id'] == 7]
            ctx.count('racing_events_judged')
            # threads: between the instant the frame is fed and the server's
            # own test other actors run, so "connected when fed" only bounds
            # the outcome from one side: a session that was already not
            # connected (and ids only ever go from connected to ended) must
            # not have its event handled; never more than one invocation /
            # ACK; no ACK without an invocation
            if len(inv) > 1 or len(acks) > len(inv) or \
                    (inv and not conn and inv[0][0] == sid):
                res = 'event fed while connected=%s: %d invocations, %d ' \
                    'ACKs' % (conn, len(inv), len(acks))
    key = None
    if res == 'session alive on a closed transport':
        key = 'session-accepted-during-transport-teardown'
    ctx.count('outcome_clean' if res == 'clean' else 'outcome_bad')
    if res != 'clean':
        ctx.violation(key, 'concurrent %s: %s' % (' || '.join(causes), res),
                      wit)
    ctx.case((tuple(causes), res, tuple(c for _, c in trace)[:40]),
             wit if len(ctx.samples) < 3 else None)
    return trace, res


def explore_recon(ctx, causes, bound, limit):
    choices = []
    n = 0
    while choices is not None and n < limit and not ctx.out_of_time() \
            and not ctx.too_many_violations():
        trace, res = run_recon_schedule(ctx, causes, choices, None, bound)
        n += 1
        choices = SC.next_schedule(trace)
    return n, choices is None


RECON_JOBS = [(['server_disconnect', 'recon'], None),
              (['transport_loss', 'recon'], None),
              (['server_disconnect', 'event'], None),
              (['client_disconnect', 'event'], None),
              (['server_disconnect', 'recon', 'event'], 3),
              (['sibling_disconnect', 'recon'], 3)]


# ---------------------------------------------------------- line level
_line_state = {}


def enable_lines(sched):
    mon = sys.monitoring
    import socketio.server
    import socketio.base_manager
    import socketio.manager
    files = {socketio.server.__file__, socketio.base_manager.__file__,
             socketio.manager.__file__}

    def on_line(code, line):
        if code.co_filename not in files:
            return mon.DISABLE
        if sched.me() is None:
            return None
        sched.yield_point('L%d' % line)
        return None
    try:
        mon.use_tool_id(TOOL, 'verif-c20')
    except ValueError:
        pass
    mon.register_callback(TOOL, mon.events.LINE, on_line)
    mon.set_events(TOOL, mon.events.LINE)
    _line_state['on'] = True


def disable_lines():
    mon = sys.monitoring
    try:
        mon.set_events(TOOL, 0)
        mon.register_callback(TOOL, mon.events.LINE, None)
        mon.free_tool_id(TOOL)
    except Exception:
        pass
    _line_state['on'] = False


def explore_dfs(ctx, causes, bound, base, limit, pending_binary=False,
                line_level=False, bystander=True):
    choices = []
    n = 0
    while choices is not None and n < limit and not ctx.out_of_time() \
            and not ctx.too_many_violations():
        trace, res = run_schedule(ctx, causes, choices, None, bound,
                                  line_level, base, pending_binary,
                                  bystander)
        n += 1
        choices = SC.next_schedule(trace)
    return n, choices is None


def run(ctx):
    import itertools
    ctx.rule = ('every schedule (DFS, pre-emption at each manager / engine.io'
                ' call and inside the disconnect handler) of each pair of '
                'the four terminating causes {server.disconnect(), client '
                'DISCONNECT, transport loss, DISCONNECT of a sibling '
                'namespace}; triples with a pre-emption bound; thorough: '
                'seeded random schedules with statement-level yield points '
                '(sys.monitoring LINE in server.py, base_manager.py, '
                'manager.py); distinct = (causes, outcome, winning reason, '
                'schedule)')
    ctx.assumptions = ['one actor thread runs at a time (serialised real '
                       'threads); data races inside a single bytecode are '
                       'not explored']
    ctx.require('schedules_run', 100)
    ctx.require('outcome_clean', 10)
    ctx.require('line_level_schedules', 50)
    ctx.require('context_bounded_schedules', 50)
    ctx.require('schedules_with_a_bystander', 50)
    ctx.require('schedules_without_a_bystander', 50)
    base = baseline_size()
    pairs = list(itertools.combinations(CAUSES, 2))
    triples = list(itertools.combinations(CAUSES, 3))
    jobs = [(list(p), None) for p in pairs] + [(list(t), 2) for t in triples]
    ctx.extra['exhaustive_pairs'] = {}
    # terminations racing with the client's own re-connection / events
    ctx.require('recon_schedules_run', 50)
    if ctx.shard == 0:
        ctx.require('schedules_with_partial_binary_packet', 20)
    ctx.extra['recon_scenarios'] = {}
    for i, (causes, bound) in enumerate(RECON_JOBS):
        if i % ctx.nshards != ctx.shard and ctx.nshards > 1:
            continue
        n, complete = explore_recon(ctx, causes, bound,
                                    120 if ctx.tier == 'quick' else 8000)
        ctx.extra['recon_scenarios']['+'.join(causes)] = {
            'schedules': n, 'complete': complete}
    # iterative context bounding: first every schedule with at most one,
    # then at most two pre-emptions (one actor parked at any of its yield
    # points while another runs to completion: the classic atomicity
    # windows), for every pair and triple, with and without a half-received
    # binary packet; the unbounded searches follow
    ctx.extra['context_bounded'] = {}

    def context_bounded(bound):
        for i, (causes, _) in enumerate(jobs):
            if i % ctx.nshards != ctx.shard and ctx.nshards > 1:
                continue
            for pb, by in ((False, True), (False, False), (True, True)):
                if pb and not set(causes) <= {'server_disconnect',
                                              'transport_loss'}:
                    continue
                if ctx.out_of_time():
                    break
                n, complete = explore_dfs(
                    ctx, causes, bound, base,
                    (400 if bound == 1 else 250) if ctx.tier == 'quick'
                    else 20000, pending_binary=pb, bystander=by)
                ctx.count('context_bounded_schedules', n)
                ctx.extra['context_bounded'][
                    '+'.join(causes) + (' (partial binary packet)' if pb
                                        else '') + ('' if by else
                                                    ' (no bystander)') +
                    ' <=%d' % bound] = {
                    'schedules': n, 'complete': complete}
    context_bounded(1)
    if ctx.tier != 'quick':
        context_bounded(2)
    # (quick tier: the statement-level pass comes before the two-pre-emption
    # pass, so that a loaded machine cuts the deeper search short, not this
    # one)
    # statement level (every statement start of server.py, base_manager.py,
    # manager.py is a pre-emption point): all schedules with at most one
    # pre-emption for every pair - windows inside a single manager method
    ctx.extra['statement_level_bounded'] = {}
    for i, causes in enumerate(pairs):
        if i % ctx.nshards != ctx.shard and ctx.nshards > 1:
            continue
        if ctx.out_of_time() or ctx.time_left() < ctx.budget * 0.3:
            break
        n, complete = explore_dfs(ctx, list(causes), 1, base,
                                  350 if ctx.tier == 'quick' else 20000,
                                  line_level=True)
        ctx.count('statement_level_bounded_schedules', n)
        ctx.count('line_level_schedules', n)
        ctx.extra['statement_level_bounded']['+'.join(causes)] = {
            'schedules': n, 'complete': complete}
    if ctx.tier != 'quick':
        # thorough: statement level with at most two pre-emptions, without a
        # bystander (two threads inside one manager method at once)
        ctx.extra['statement_level_bounded_2'] = {}
        for i, causes in enumerate(pairs):
            if i % ctx.nshards != ctx.shard and ctx.nshards > 1:
                continue
            if ctx.out_of_time() or ctx.time_left() < ctx.budget * 0.5:
                break
            n, complete = explore_dfs(ctx, list(causes), 2, base, 6000,
                                      line_level=True, bystander=False)
            ctx.count('statement_level_bounded_schedules', n)
            ctx.count('line_level_schedules', n)
            ctx.extra['statement_level_bounded_2']['+'.join(causes)] = {
                'schedules': n, 'complete': complete}
    # a first batch of seeded random statement-level schedules (windows that
    # need two threads inside one manager method at once, i.e. two or more
    # pre-emptions at statement level)
    kline = line_batch(ctx, pairs, triples, base, ctx.shard * 10**6, 700)
    if ctx.tier == 'quick':
        context_bounded(2)
    # a half-received binary packet is pending while the client is terminated
    for causes in (['server_disconnect', 'transport_loss'],):
        if ctx.shard == 0 and not ctx.out_of_time():
            n, complete = explore_dfs(ctx, causes, None, base,
                                      150 if ctx.tier == 'quick' else 5000,
                                      pending_binary=True)
            ctx.extra['exhaustive_pairs']['+'.join(causes) +
                                          ' (partial binary packet)'] = \
                {'schedules': n, 'complete': complete}
    for i, (causes, bound) in enumerate(jobs):
        if i % ctx.nshards != ctx.shard and ctx.nshards > 1:
            continue
        if ctx.out_of_time():
            break
        limit = 1200 if ctx.tier == 'quick' else 20000
        if ctx.time_left() < ctx.budget * 0.35:
            limit = min(limit, 300)
        n, complete = explore_dfs(ctx, causes, bound, base, limit,
                                  bystander=i % 2 == 0)
        ctx.extra['exhaustive_pairs']['+'.join(causes) + (
            '' if bound is None else ' (preemption bound %d)' % bound)] = \
            {'schedules': n, 'complete': complete}
        kline = line_batch(ctx, pairs, triples, base, kline, 250)
    k = kline
    while not ctx.out_of_time() and not ctx.too_many_violations():
        k = line_batch(ctx, pairs, triples, base, k, 500)
        if not ctx.out_of_time():
            rng = ctx.case_rng(9 * 10 ** 7 + k)
            causes, bound = RECON_JOBS[k % len(RECON_JOBS)]
            for _ in range(20):
                run_recon_schedule(ctx, causes, [], rng)


def line_batch(ctx, pairs, triples, base, k, n):
    """Seeded random schedules with statement-level yield points."""
    for _ in range(n):
        if ctx.out_of_time() or ctx.too_many_violations():
            break
        rng = ctx.case_rng(k)
        causes = list(rng.choice(pairs + triples))
        run_schedule(ctx, causes, [], rng, None, True, base)
        ctx.count('line_level_schedules')
        k += 1
    return k
