"""C17 Class-based namespace helpers use their own namespace and forward every
argument.  Recorder bound to the *real* method signatures; exhaustive over
classes x helpers x subsets of optional parameters x {keyword, positional}.
"""
import asyncio
import inspect
import itertools

LEVEL = 'exploration'
TIERS = {
    'quick': {'budget': 30, 'watchdog': 300, 'shards': 1},
    'thorough': {'budget': 120, 'watchdog': 600, 'shards': 1},
}
SERVER_HELPERS = ['emit', 'send', 'call', 'enter_room', 'leave_room',
                  'close_room', 'rooms', 'get_session', 'save_session',
                  'session', 'disconnect']
CLIENT_HELPERS = ['emit', 'send', 'call', 'disconnect']
FALSY = [0, '', False, [], 0.0, (), {}]
REG_NAMESPACES = ['/reg', '/', '/x/y', '/é', '*', 'noslash']


class Sentinel:
    def __init__(self, name):
        self.name = name

    def __repr__(self):
        return '<%s>' % self.name


def make_target(kind):
    import socketio
    if kind == 'Namespace':
        return socketio.Server(async_mode='threading'), socketio.Namespace, \
            'server', SERVER_HELPERS
    if kind == 'AsyncNamespace':
        return socketio.AsyncServer(async_mode='asgi'), \
            socketio.AsyncNamespace, 'server', SERVER_HELPERS
    if kind == 'ClientNamespace':
        return socketio.Client(), socketio.ClientNamespace, 'client', \
            CLIENT_HELPERS
    return socketio.AsyncClient(), socketio.AsyncClientNamespace, 'client', \
        CLIENT_HELPERS


def run_kind(ctx, kind, loop):
    target, ns_cls, side, helpers = make_target(kind)
    # invariant at a hook: from the instant a class-based namespace is
    # reachable through the registry (another thread may route a CONNECT or an
    # event to it right then) its helpers must work, i.e. it is already bound
    # to the server / client it forwards to
    class Registry(dict):
        def __setitem__(self_, key, value):
            bound = getattr(value, 'server', None) if side == 'server' \
                else getattr(value, 'client', None)
            ctx.count('registrations_checked')
            if bound is not target:
                ctx.violation(None, '%s.register_namespace made the '
                              'namespace object reachable in the registry '
                              'before binding it (its helpers would raise '
                              'for a handler running at that instant)'
                              % type(target).__name__,
                              {'class': kind, 'namespace': key,
                               'bound_to': repr(bound)})
            if key != value.namespace:
                # events are routed by this key, the helpers default to
                # value.namespace: they must name the same namespace
                ctx.violation(None, '%s.register_namespace filed the object '
                              'under %r although its helpers default to %r'
                              % (type(target).__name__, key,
                                 value.namespace),
                              {'class': kind, 'namespace': key})
            dict.__setitem__(self_, key, value)
    target.namespace_handlers = Registry(target.namespace_handlers)
    # the same namespace object may have been registered with another server /
    # client before (an application factory, a fresh Client per attempt): the
    # helpers must reach the one it is registered with *now*
    decoy = make_target(kind)[0]
    refuser = make_target({'Namespace': 'AsyncNamespace',
                           'AsyncNamespace': 'Namespace',
                           'ClientNamespace': 'AsyncClientNamespace',
                           'AsyncClientNamespace': 'ClientNamespace'}[kind])[0]
    stray = []
    for reg in REG_NAMESPACES:
        nsobj = ns_cls(reg)
        if reg in ('/x/y', '*'):
            decoy.register_namespace(nsobj)
            ctx.count('re_registrations')
        target.register_namespace(nsobj)
        if reg in ('/', '/x/y', 'noslash'):
            # set-up code that runs twice registers the same object with the
            # same owner again: it stays bound to it
            target.register_namespace(nsobj)
            ctx.count('idempotent_re_registrations')
        if reg in ('/reg', '/é'):
            # a registration attempt that is refused (an owner of the other
            # concurrency flavour) leaves the object with the owner it is
            # registered with
            try:
                refuser.register_namespace(nsobj)
            except ValueError:
                ctx.count('refused_registrations')
            else:
                ctx.violation(None, '%s accepted a namespace object of the '
                              'other concurrency flavour' %
                              type(refuser).__name__, {'class': kind})
        if not inspect.iscoroutinefunction(getattr(type(target), 'emit')):
            if not concurrent_helpers(ctx, kind, target, nsobj, reg):
                return
        for helper in helpers:
            if not hasattr(nsobj, helper):
                ctx.violation(None, '%s lacks helper %s' % (kind, helper),
                              {'class': kind, 'helper': helper})
                continue
            real = getattr(type(target), helper)
            real_sig = inspect.signature(real)
            real_params = [p for p in real_sig.parameters.values()
                           if p.name != 'self']
            is_co = inspect.iscoroutinefunction(real)
            calls = []
            result = Sentinel('result-%s-%s' % (kind, helper))

            def recorder(*a, _sig=real_sig, _calls=calls, _res=result,
                         _co=is_co, **k):
                try:
                    b = _sig.bind(target, *a, **k)
                except TypeError as e:
                    _calls.append(('bind-error', str(e), a, k))
                    b = None
                else:
                    _calls.append(('ok', dict(b.arguments)))
                exc = RAISE[0]
                if _co:
                    async def co():
                        if exc is not None:
                            raise exc
                        return _res
                    return co()
                if exc is not None:
                    raise exc
                return _res
            setattr(target, helper, recorder)

            def stray_rec(*a, _h=helper, _co=is_co, **k):
                stray.append(_h)
                if _co:
                    async def co():
                        return None
                    return co()
                return None
            setattr(decoy, helper, stray_rec)
            setattr(refuser, helper, stray_rec)
            try:
                explore_helper(ctx, kind, helper, nsobj, reg, real_params,
                               calls, result, loop)
            finally:
                delattr(target, helper)
                delattr(decoy, helper)
                delattr(refuser, helper)
            if stray:
                ctx.violation(None, '%s.%s of a namespace object that had '
                              'been registered with another %s before '
                              'reached that earlier one' % (
                                  kind, helper, type(target).__name__),
                              {'class': kind, 'helper': helper,
                               'registered_namespace': reg})
                del stray[:]
                return
            if ctx.too_many_violations():
                return


def concurrent_helpers(ctx, kind, target, nsobj, reg):
    """Threaded classes: a helper has the effect of the same-named method
    also while another helper call of the same object is in progress in
    another thread (handlers of one namespace run in a thread each): while
    call() waits for its acknowledgement, emit() and send() still reach the
    server / client at once."""
    import threading
    entered = threading.Event()
    release = threading.Event()
    seen = []

    def blocking_call(*a, **k):
        entered.set()
        release.wait(20)
        return 'acked'

    def rec(name):
        def f(*a, **k):
            seen.append(name)
        return f
    target.call = blocking_call
    target.emit = rec('emit')
    target.send = rec('send')
    out = {}
    try:
        ta = threading.Thread(target=lambda: out.setdefault(
            'call', nsobj.call('q', 1)), daemon=True)
        ta.start()
        if not entered.wait(10):
            ctx.count('concurrent_helper_probes_not_set_up')
            return True
        for name, args in (('emit', ('ev', 1)), ('send', ('data',))):
            tb = threading.Thread(target=lambda n=name, a=args: getattr(
                nsobj, n)(*a), daemon=True)
            tb.start()
            tb.join(15)
            ctx.count('concurrent_helper_probes')
            if name not in seen:
                ctx.violation(None, '%s.%s() did not reach the %s while a '
                              'call() of the same namespace object was '
                              'waiting for its acknowledgement in another '
                              'thread' % (kind, name,
                                          type(target).__name__),
                              {'class': kind, 'helper': name,
                               'registered_namespace': reg,
                               'blocked': tb.is_alive()})
                return False
    finally:
        release.set()
        for n in ('call', 'emit', 'send'):
            try:
                delattr(target, n)
            except AttributeError:
                pass
    return True


# what the underlying method raises in the calls of kind 'raises': the helper
# has exactly the effect of the method, so the same exception comes out
RAISE = [None]


def explore_helper(ctx, kind, helper, nsobj, reg, real_params, calls, result,
                   loop):
    hsig = inspect.signature(getattr(nsobj, helper))
    hparams = list(hsig.parameters.values())
    real_names = {p.name for p in real_params}
    required = [p for p in hparams if p.default is inspect.Parameter.empty
                and p.kind in (p.POSITIONAL_OR_KEYWORD, p.POSITIONAL_ONLY)]
    optional = [p for p in hparams if p.default is not
                inspect.Parameter.empty and p.name in real_names]
    vestigial = [p.name for p in hparams if p.name not in real_names]
    if vestigial:
        ctx.extra.setdefault('vestigial_parameters_skipped', [])
        tag = '%s.%s:%s' % (kind, helper, ','.join(vestigial))
        if tag not in ctx.extra['vestigial_parameters_skipped']:
            ctx.extra['vestigial_parameters_skipped'].append(tag)
    n = 0
    for r in range(len(optional) + 1):
        for subset in itertools.combinations(optional, r):
            for form in ('kw', 'pos'):
                for valkind in ('sentinel', 'falsy', 'container', 'raises0',
                                'raises1', 'raises2', 'raises3', 'raises4',
                                'raises5'):
                    n += 1
                    one_call(ctx, kind, helper, nsobj, reg, hparams,
                             required, subset, form, valkind, calls, result,
                             loop, n)
                    if ctx.too_many_violations():
                        return


def one_call(ctx, kind, helper, nsobj, reg, hparams, required, subset, form,
             valkind, calls, result, loop, n):
    given = {}

    def container(j):
        # (tuples are legitimate room names, lists legitimate targets and
        # payloads: whatever it is, the same object reaches the method)
        return [('table', n), ['a', 'b', n], {'x', n}, {'k': n}][j % 4]
    for j, p in enumerate(required):
        if valkind == 'container':
            given[p.name] = container(n + j)
        elif valkind == 'falsy':
            # (room 0, an empty event name, an empty payload: falsy values
            # are values)
            given[p.name] = FALSY[(n + j + 1) % len(FALSY)]
        else:
            given[p.name] = Sentinel('%s-%d' % (p.name, n))
    for i, p in enumerate(subset):
        if valkind == 'container' and p.name != 'namespace':
            given[p.name] = container(n + i + 1)
        elif valkind == 'falsy' and p.name != 'namespace':
            given[p.name] = FALSY[(n + i) % len(FALSY)]
        elif p.name == 'namespace':
            given[p.name] = '/explicit-%d' % n
        else:
            given[p.name] = Sentinel('%s-%d' % (p.name, n))
    args, kwargs = [], {}
    if form == 'kw':
        for p in required:
            args.append(given[p.name])
        for p in subset:
            kwargs[p.name] = given[p.name]
    else:
        # maximal positional prefix in the helper's own parameter order
        prefix = True
        for p in hparams:
            if p.name in given and prefix and p.kind in (
                    p.POSITIONAL_OR_KEYWORD, p.POSITIONAL_ONLY):
                args.append(given[p.name])
            elif p.name in given:
                kwargs[p.name] = given[p.name]
            else:
                prefix = False
    del calls[:]
    w = {'class': kind, 'helper': helper, 'registered_namespace': reg,
         'args': [repr(a) for a in args],
         'kwargs': {k: repr(v) for k, v in kwargs.items()}, 'form': form}
    boom = None
    if valkind.startswith('raises'):
        import socketio
        import asyncio
        boom = [KeyError('sid-%d' % n), ValueError('sid is not connected'),
                socketio.exceptions.TimeoutError(),
                socketio.exceptions.DisconnectedError(),
                RuntimeError('application'),
                # (the task that awaits the helper is being cancelled)
                asyncio.CancelledError()][int(valkind[6:])]
    RAISE[0] = boom
    try:
        ret = getattr(nsobj, helper)(*args, **kwargs)
        if inspect.iscoroutine(ret):
            ret = loop.run_until_complete(ret)
    except BaseException as e:
        if boom is None or e is not boom:
            ctx.violation(None, '%s.%s raised %r%s' % (
                kind, helper, e, '' if boom is None else
                ' (the underlying method had raised %r)' % boom), w)
            return
        ret = result
        ctx.count('exceptions_passed_through')
    else:
        if boom is not None:
            ctx.violation(None, '%s.%s returned %r although the underlying '
                          'method raised %r' % (kind, helper, ret, boom), w)
            return
    finally:
        RAISE[0] = None
    ctx.count('helper_calls')
    if len(calls) != 1:
        ctx.violation(None, '%s.%s called the underlying method %d times' % (
            kind, helper, len(calls)), w)
        return
    if calls[0][0] != 'ok':
        w['bind_error'] = calls[0][1]
        ctx.violation(None, '%s.%s passes arguments the underlying method '
                      'does not accept: %s' % (kind, helper, calls[0][1]), w)
        return
    got = calls[0][1]
    w['received'] = {k: repr(v) for k, v in got.items() if k != 'self'}
    for name, v in given.items():
        ctx.count('arguments_compared')
        if name not in got or got[name] is not v:
            ctx.violation(None, '%s.%s: argument %r given as %r reached the '
                          'underlying method as %r' % (
                              kind, helper, name, v,
                              got.get(name, '<missing>')), w)
            return
    if 'namespace' in {p.name for p in hparams}:
        want_ns = given.get('namespace', reg)
        ctx.count('namespace_checked')
        if got.get('namespace') != want_ns:
            ctx.violation(None, '%s.%s: namespace reached the underlying '
                          'method as %r, expected %r' % (
                              kind, helper, got.get('namespace'), want_ns), w)
            return
    if ret is not result:
        ctx.violation(None, '%s.%s does not pass the result back' % (
            kind, helper), w)
        return
    ctx.case((kind, helper, tuple(p.name for p in subset), form, valkind,
              reg == '/'), w if n % 37 == 0 else None)


def run(ctx):
    ctx.rule = ('exhaustive: 4 namespace classes x every helper x every '
                'subset of the helper\'s optional parameters (that the '
                'underlying method also has) x {all-keyword, maximal '
                'positional prefix} x {unique sentinel values, falsy values}'
                ' x 4 registration namespaces; the underlying method is '
                'replaced on the real server/client instance by a recorder '
                'that binds with the real signature; distinct = (class, '
                'helper, subset, form, value kind, default-namespace '
                'registration)')
    ctx.assumptions = [
        'defaults of omitted non-namespace arguments are not judged',
        'parameters the underlying method lacks (vestigial) are skipped and '
        'listed', 'explicit namespace values are truthy strings']
    ctx.require('registrations_checked', 8)
    ctx.require('concurrent_helper_probes', 4)
    ctx.require('helper_calls', 500)
    ctx.require('arguments_compared', 500)
    ctx.require('namespace_checked', 500)
    ctx.require('exceptions_passed_through', 100)
    loop = asyncio.new_event_loop()
    asyncio.set_event_loop(loop)
    try:
        for kind in ('Namespace', 'AsyncNamespace', 'ClientNamespace',
                     'AsyncClientNamespace'):
            run_kind(ctx, kind, loop)
            if ctx.too_many_violations():
                break
        else:
            ctx.exhaustive = True
    finally:
        loop.close()
