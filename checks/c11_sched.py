"""C11, threaded server: the application emits with a callback to a client
(or to a room the client is in) in one thread while another thread handles
that client's departure (its DISCONNECT packet, the loss of its transport,
or the application's disconnect()).  Once both threads have finished, the
server holds nothing of the departed client - in particular no callback
filed under its session id, which nobody can ever acknowledge or collect.

Real threads under vlib.sched.ThreadScheduler (world of C03's scheduler
part); every statement start of the manager modules is a pre-emption point;
all schedules with at most one, then two pre-emptions, then seeded random
ones.

Known mechanism (see known_findings.json, emit-callback-filed-after-the-
recipient-departed): emit() copies the members of the room first and files
the callbacks one by one while it sends; when the emitting thread is
pre-empted between those two steps and the departure runs to completion in
between, the callback is filed afterwards.  That needs the departure's steps
to fall inside the emit's; a callback that is left behind by an emit that
ran without interruption is a different defect and is reported.
"""
import time

from vlib import refcodec as R
from vlib import sched as SC

from checks import c03_sched as C3

NS = C3.NS
ROOM = C3.ROOM

EMITS = ['emit_cb_sid', 'emit_cb_room']
ENDS = ['cdisc', 'lose', 'sdisc']


def run_schedule(ctx, pair, choices, rng, bound):
    sp = rng.choice([None, 0.05, 0.2]) if rng is not None else None
    sched = SC.ThreadScheduler(choices=choices, rng=rng,
                               preemption_bound=bound, switch_prob=sp,
                               max_steps=200000)
    w = C3.World(sched)
    d = w.d
    sio = d.sio
    m = sio.manager
    sid = w.sids[2]
    called = []

    def cb(*a):
        called.append(a)
    emit, end = pair
    if emit == 'emit_cb_sid':
        def emitter():
            sio.emit('q', {'n': 1}, to=sid, namespace=NS, callback=cb)
    else:
        def emitter():
            sio.emit('q', {'n': 1}, to=ROOM, namespace=NS, callback=cb)
    if end == 'cdisc':
        def ender():
            w.T[2].send_packet(R.DISCONNECT, NS)
    elif end == 'lose':
        def ender():
            w.T[2].socket.close(wait=False, abort=True,
                                reason=d.eio.reason.TRANSPORT_ERROR)
    else:
        def ender():
            sio.disconnect(sid, namespace=NS)
    sched.spawn('emit', emitter)
    sched.spawn('end', ender)
    import socketio.base_manager
    import socketio.manager
    SC.enable_lines(sched, [socketio.base_manager.__file__,
                            socketio.manager.__file__])
    try:
        trace = sched.run()
    finally:
        SC.disable_lines()
    ctx.count('emit_callback_race_schedules')
    labels = [[a, lbl] for a, lbl in sched.labels]
    wit = {'part': 'emit_callback_race', 'pair': list(pair), 'bound': bound,
           'choices': [c for _, c in trace], 'labels': labels[-80:]}
    if sched.aborted:
        SC.report_abort(ctx, sched, wit, 'emit with a callback / departure '
                        'of the recipient: schedule did not complete')
        return trace
    errs = list(sched.errors) + d.errors()
    if errs:
        wit['errors'] = [{'actor': e.get('actor'), 'exc': e.get('exc'),
                          'tb': (e.get('tb') or '')[-1500:]}
                         for e in errs[:3]]
        in_emit = [e for e in errs if e.get('actor') == 'emit']
        if len(in_emit) == len(errs):
            # emit() itself raising (KeyError: the callback table of the
            # recipient deleted under its feet) is not residue; observed,
            # counted, not judged here
            ctx.count('emit_raised_while_the_recipient_departed')
        else:
            ctx.violation(None, 'emit with a callback while another thread '
                          'handled the recipient\'s %s: %s raised in the '
                          'thread handling the departure' % (
                              end, errs[0].get('exc')), wit)
            return trace
    gone = not m.is_connected(sid, NS)
    ctx.count('departures_judged')
    if not gone:
        ctx.violation(None, 'the client is still connected after its %s'
                      % end, wit)
        return trace
    left = m.callbacks.get(sid)
    if left is not None:
        # was the emit interrupted by the departure?
        # (actors are numbered in spawn order: 0 emits, 1 ends)
        idx = [i for i, (a, _) in enumerate(labels) if a == 0]
        inside = [i for i, (a, _) in enumerate(labels)
                  if a == 1 and idx and idx[0] < i < idx[-1]]
        interrupted = bool(inside)
        wit.update(callbacks_left=[str(k) for k in left],
                   emit_interrupted_by_departure=interrupted,
                   mechanism_hint='emit-callback-filed-after-the-recipient-'
                   'departed' if interrupted else None)
        ctx.count('callbacks_left_behind')
        ctx.violation(wit['mechanism_hint'],
                      'emit(..., callback=fn) to %s in one thread, the '
                      'recipient\'s %s handled by another: once both had '
                      'finished, callbacks[<sid of the departed client>] '
                      'still held %d entries (the emitting thread was %s)' % (
                          'the client' if emit == 'emit_cb_sid' else
                          'a room it was in', end, len(left),
                          'interrupted by the departure between reading the '
                          'members and filing the callback' if interrupted
                          else 'not interrupted by the departure'), wit)
        return trace
    ctx.case(('emit_callback_race', tuple(pair),
              tuple(c for _, c in trace)[:40]), None)
    return trace


def explore(ctx, pair, limit, bound):
    choices = []
    n = 0
    while choices is not None and n < limit and \
            not ctx.too_many_violations():
        trace = run_schedule(ctx, pair, choices, None, bound)
        n += 1
        choices = SC.next_schedule(trace)
    return n, choices is None


def run_part(ctx, seconds):
    t_end = time.time() + seconds
    pairs = [(e, x) for e in EMITS for x in ENDS]
    summary = ctx.extra.setdefault('emit_callback_race_pairs', {})
    limit = 150 if ctx.tier == 'quick' else 4000
    for bound in (1, 2):
        for i, pair in enumerate(pairs):
            if ctx.nshards > 1 and i % ctx.nshards != ctx.shard % len(pairs):
                continue
            if time.time() > t_end or ctx.too_many_violations():
                break
            n, complete = explore(ctx, pair, limit * bound ** 2, bound)
            summary.setdefault('+'.join(pair), {})[
                'at_most_%d_preemptions' % bound] = {'schedules': n,
                                                     'complete': complete}
    k = ctx.shard * 10 ** 5
    while time.time() < t_end and not ctx.too_many_violations():
        rng = ctx.case_rng(13 * 10 ** 7 + k)
        run_schedule(ctx, rng.choice(pairs), [], rng, None)
        k += 1


def replay(ctx, w):
    wi = w['witness']
    run_schedule(ctx, tuple(wi['pair']), wi['choices'], None,
                 wi.get('bound'))
