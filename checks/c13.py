"""C13 Handler resolution follows the documented precedence on server and
client.  Exhaustive over the 2**6 presence grid x event kinds x unrelated
handlers x class-method presence x sync/coroutine x 4 classes; events are
delivered as real packets through the harnesses; the oracle is a precedence
table written from the property text.
"""
import itertools

from vlib import drive as D
from vlib import eioclient as E
from vlib import gen
from vlib import refcodec as R

INTERNAL_EVENTS = ('__disconnect_final',)
LEVEL = 'exploration'
TIERS = {
    'quick': {'budget': 60, 'watchdog': 400, 'shards': 1},
    'thorough': {'budget': 300, 'watchdog': 900, 'shards': 4},
}
TARGET_NAMES = {105: 'a similarly named method of class namespace[ns]',
                106: "a similarly named method of class namespace['*']",
                1: 'handlers[ns][event]', 2: "handlers[ns]['*']",
                3: "handlers['*'][event]", 4: "handlers['*']['*']",
                5: 'class namespace[ns]', 6: "class namespace['*']"}
for _t in range(1, 7):
    TARGET_NAMES[_t + 10] = 'the replacement registered for ' + \
        TARGET_NAMES[_t]


def classify(w):
    if w.get('side') == 'client' and w.get('unrelated') and \
            w.get('expected_target') in (3, 4) and \
            1 not in w.get('present', []) and \
            (2 not in w.get('present', []) or w.get('reserved')) and \
            w.get('got_targets') in ([], [5], [6]):
        return 'client-catchall-elif'
    return None


def expected(present, reserved, base, event, ns):
    order = [1, 3, 5, 6] if reserved else [1, 2, 3, 4, 5, 6]
    for t in order:
        if t in present:
            if t == 1:
                return t, list(base)
            if t == 2:
                return t, [event] + list(base)
            if t == 3:
                return t, [ns] + list(base)
            if t == 4:
                return t, [event, ns] + list(base)
            if t == 5:
                return t, list(base)
            if t == 6:
                return t, [ns] + list(base)
    return None, None


class Rec:
    def __init__(self):
        self.calls = []

    def cancelling(self, target):
        """A coroutine handler that ends in CancelledError (it awaited a task
        of the application that was cancelled)."""
        import asyncio

        async def f(*a):
            self.calls.append((target, list(a)))
            fut = asyncio.get_event_loop().create_future()
            fut.cancel()
            await fut
        return f

    def fn(self, target, legacy_arity=None):
        def f(*a):
            if legacy_arity is not None and len(a) != legacy_arity:
                # a handler written before the `reason` argument existed
                raise TypeError('handler takes %d positional arguments but '
                                '%d were given' % (legacy_arity, len(a)))
            self.calls.append((target, list(a)))
            return None
        return f


# where the on_<event> method of a class-based namespace comes from: the
# class statement, a plain mixin among the bases (before / after the namespace
# base), the class after it was created, the instance
import collections  # noqa: E402
METHOD_HOMES = ['body', 'mixin_first', 'late', 'body', 'mixin_second',
                'instance']
HOME_COUNT = collections.Counter()


def mk_class(base, rec, target, event, has_method, is_async, co, ns,
             legacy_arity=None):
    body = {}
    home = 'body'
    m = None
    if has_method:
        h = D.wrap_handler(rec.fn(target, legacy_arity), is_async, co)
        if is_async and co:
            async def m(self_, *a):
                return await h(*a)
        else:
            def m(self_, *a):
                return h(*a)
        home = rec.rng.choice(METHOD_HOMES) if getattr(rec, 'rng', None) \
            else 'body'
        if home == 'body':
            body['on_' + event] = m
        else:
            bases = (base,)
            if home.startswith('mixin'):
                mixin = type('Mixin', (), {'on_' + event: m})
                bases = (mixin, base) if home == 'mixin_first' else (base,
                                                                     mixin)
            cls = type('N%d' % target, bases, body)
            if home == 'late':
                setattr(cls, 'on_' + event, m)
            obj = cls(ns)
            if home == 'instance':
                if is_async and co:
                    async def im(*a):
                        return await h(*a)
                else:
                    def im(*a):
                        return h(*a)
                setattr(obj, 'on_' + event, im)
            HOME_COUNT[home] += 1
            return obj
    else:
        # a class without on_<event> may well have methods for events with
        # *similar* names (the identifier-like spelling, another case): they
        # are not the event's method
        import re
        for near in {re.sub(r'[^0-9a-zA-Z_]', '_', event), event.lower(),
                     event.upper(), event + '_'} - {event}:
            h = D.wrap_handler(rec.fn(target + 100, legacy_arity), is_async,
                               co)
            if is_async and co:
                async def m2(self_, *a, _h=h):
                    return await _h(*a)
            else:
                def m2(self_, *a, _h=h):
                    return _h(*a)
            body['on_' + near] = m2
    return type('N%d' % target, (base,), body)(ns)


def norm(args, sid=None, environ=None):
    out = []
    for a in args:
        if sid is not None and a == sid and isinstance(a, str):
            out.append('<sid>')
        elif environ is not None and a is environ:
            out.append('<environ>')
        else:
            out.append(a)
    return out


def judge(ctx, w, rec, want_t, want_args, has_method, sid=None, env=None):
    got = [(t, norm(a, sid, env)) for t, a in rec.calls]
    w['got'] = got
    w['got_targets'] = [t for t, _ in got]
    w['expected_target'] = want_t
    w['expected_args'] = want_args
    ctx.count('routings_judged')
    hm = has_method if isinstance(has_method, dict) else \
        {5: has_method, 6: has_method}
    if want_t is None or (want_t in (5, 6) and not hm[want_t]):
        want = []
    else:
        want = [(want_t, want_args)]
    ok = len(got) == len(want) and all(
        g[0] == x[0] and R.deep_eq(g[1], x[1]) for g, x in zip(got, want))
    if not ok:
        ctx.violation(classify(w), '%s %s: event %r routed to %s, expected '
                      '%s' % (w['side'], w['kind'], w['event'],
                              [(TARGET_NAMES[t], a) for t, a in got] or
                              'nobody',
                              [(TARGET_NAMES[t], a) for t, a in want] or
                              'nobody'), w)
        return False
    return True


def split_hm(has_method):
    if isinstance(has_method, tuple):
        return {5: has_method[0], 6: has_method[1]}
    return {5: has_method, 6: has_method}


def server_case(ctx, kind, present, evkind, unrelated, has_method, co, rng,
                cancel=False, legacy=False):
    import socketio
    hm = split_hm(has_method)
    nbase = 2      # (sid, reason) for a disconnect
    arity = {1: nbase - 1, 3: nbase, 5: nbase - 1, 6: nbase} \
        if legacy else {}
    ns = rng.choice(['/', '/a', '/chat'])
    # on the server "connect_error" is an ordinary event name
    event = {'ordinary': rng.choice(['ev', 'my_event', 'x1', 'my-event',
                                     'my event', 'Ev', 'connect_error']),
             'connect': 'connect', 'disconnect': 'disconnect',
             # an event the client literally names "*": an ordinary event
             # name for which no specific handler can exist (that key is the
             # catch-all registration), so targets 1 and 3 are not available
             'star': '*', 'star_ns': 'ev'}[evkind]
    if evkind == 'star':
        present = set(present) - {1, 3}
        ctx.count('events_literally_named_star')
    serializer = 'default'
    if evkind == 'star_ns':
        # a namespace the client literally names "*" (only a serializer that
        # does not require the leading slash can express it): an ordinary
        # namespace for which no specific registration can exist - targets
        # 1, 2 and 5 are not available, the catch-all ones get "*" prepended
        ns = '*'
        event = rng.choice(['ev', 'my_event'])
        present = set(present) - {1, 2, 5}
        serializer = 'msgpack'
        ctx.count('namespaces_literally_named_star')
    reserved = evkind not in ('ordinary', 'star', 'star_ns')
    d = D.make_drive(kind, async_handlers=False, namespaces='*',
                     serializer=serializer)
    rec = Rec()
    rec.rng = rng
    try:
        def reg(ev, target, nsp):
            if cancel:
                d.sio.on(ev, rec.cancelling(target), namespace=nsp)
            else:
                d.on(ev, rec.fn(target, arity.get(target)), nsp, co)
        if 1 in present:
            reg(event, 1, ns)
        if 2 in present:
            reg('*', 2, ns)
        if 3 in present:
            reg(event, 3, '*')
        if 4 in present:
            reg('*', 4, '*')
        base_cls = socketio.AsyncNamespace if d.is_async else \
            socketio.Namespace
        if 5 in present:
            d.sio.register_namespace(mk_class(base_cls, rec, 5, event,
                                              hm[5], d.is_async, co,
                                              ns, arity.get(5)))
        if 6 in present:
            d.sio.register_namespace(mk_class(base_cls, rec, 6, event,
                                              hm[6], d.is_async, co,
                                              '*', arity.get(6)))
        if unrelated:
            d.on('unrelated_event', lambda *a: None, ns, co)
        t = d.open()
        env = d.environs[t.eio_sid]
        args = gen.gen_args(rng, True, 2, maxn=3)
        w = {'side': 'server', 'kind': kind, 'present': sorted(present),
             'event': event, 'reserved': reserved, 'unrelated': unrelated,
             'class_has_method': has_method, 'coroutine': co,
             'namespace': ns, 'args': args, 'handler_cancelled': cancel}
        if evkind == 'connect':
            t.connect(ns)
            sid = t.sids.get(ns)
            base = ['<sid>', '<environ>']
        else:
            t.connect(ns)
            sid = t.sids.get(ns)
            if sid is None:
                ctx.violation(None, 'could not connect', w)
                return
            del rec.calls[:]
            if evkind == 'disconnect':
                t.send_packet(R.DISCONNECT, ns)
                base = ['<sid>', 'client disconnect']
            else:
                t.send_packet(R.EVENT, ns, None, [event] + args)
                base = ['<sid>'] + args
        errs = d.errors()
        if errs:
            w['errors'] = errs
            ctx.violation(None, 'server raised while routing an event: %s'
                          % errs[0]['exc'], w)
            return
        want_t, want_args = expected(present, reserved, base, event, ns)
        if legacy and want_args is not None:
            want_args = want_args[:-1]
            w['legacy_disconnect_signature'] = True
        if judge(ctx, w, rec, want_t, want_args, hm, sid, env):
            if cancel:
                ctx.count('cancelled_handler_routings')
            if legacy:
                ctx.count('legacy_disconnect_routings')
            ctx.case(('server', kind, tuple(sorted(present)), evkind,
                      unrelated, has_method, co, cancel, legacy),
                     w if want_t in (3, 4, 6) and rng.random() < 0.02
                     else None)
    finally:
        d.close()


def incremental_case(ctx, side, kind, co, rng, k):
    """Registrations arrive over time on one server / client, with the same
    event dispatched in between: after every registration the event goes to
    the target the precedence table names for what is registered *now*."""
    import socketio
    ns = rng.choice(['/', '/a', '/chat'])
    event = rng.choice(['ev', 'my_event', 'x1'])
    order = rng.sample([1, 2, 3, 4, 5, 6], rng.randint(2, 6))
    rec = Rec()
    rec.rng = rng
    w = {'side': side, 'kind': kind, 'event': event, 'namespace': ns,
         'coroutine': co, 'registration_order': order, 'case_index': k,
         'part': 'incremental', 'reserved': False, 'unrelated': False}
    if side == 'server':
        d = D.make_drive(kind, async_handlers=False, namespaces='*')
        base_cls = socketio.AsyncNamespace if d.is_async else \
            socketio.Namespace
        is_async = d.is_async
        target = d.sio

        def reg_fn(ev, t, nsp):
            d.on(ev, rec.fn(t, None), nsp, co)
        close = d.close
    else:
        h = E.make_client(kind, client_kw={'reconnection': False})
        base_cls = socketio.AsyncClientNamespace if h.is_async else \
            socketio.ClientNamespace
        is_async = h.is_async
        target = h.c

        def reg_fn(ev, t, nsp):
            h.on(ev, rec.fn(t, None), nsp, co)
        close = h.close
    try:
        if side == 'server':
            tr = d.open()
            tr.connect(ns)
            sid = tr.sids.get(ns)
            env = d.environs[tr.eio_sid]
        else:
            h.api('connect', 'http://x', namespaces=[ns], wait=True)
            sid = env = None
        present = set()
        for step, t in enumerate([None] + order):
            if t is not None:
                if t == 1:
                    reg_fn(event, 1, ns)
                elif t == 2:
                    reg_fn('*', 2, ns)
                elif t == 3:
                    reg_fn(event, 3, '*')
                elif t == 4:
                    reg_fn('*', 4, '*')
                else:
                    target.register_namespace(mk_class(
                        base_cls, rec, t, event, True, is_async, co,
                        ns if t == 5 else '*', None))
                present.add(t)
            del rec.calls[:]
            args = [step] + gen.gen_args(rng, True, 2, maxn=2)
            if side == 'server':
                tr.send_packet(R.EVENT, ns, None, [event] + args)
                errs = d.errors()
                base = ['<sid>'] + args
            else:
                h.server_send(R.EVENT, ns, None, [event] + args)
                errs = h.all_errors()
                base = list(args)
            w2 = dict(w, present=sorted(present), step=step, args=args,
                      class_has_method=True)
            if errs:
                w2['errors'] = errs
                ctx.violation(None, '%s raised while routing an event: %s'
                              % (side, errs[0]['exc']), w2)
                return
            want_t, want_args = expected(present, False, base, event, ns)
            ctx.count('incremental_dispatches')
            if not judge(ctx, w2, rec, want_t, want_args, True, sid, env):
                return
        # registering a slot again replaces what was registered there (a
        # plug-in override, a reload): the event goes to the replacement
        for t in rng.sample(sorted(present), min(2, len(present))):
            if t == 1:
                reg_fn(event, 11, ns)
            elif t == 2:
                reg_fn('*', 12, ns)
            elif t == 3:
                reg_fn(event, 13, '*')
            elif t == 4:
                reg_fn('*', 14, '*')
            else:
                target.register_namespace(mk_class(
                    base_cls, rec, t + 10, event, True, is_async, co,
                    ns if t == 5 else '*', None))
            del rec.calls[:]
            args = ['again', t] + gen.gen_args(rng, True, 1, maxn=1)
            if side == 'server':
                tr.send_packet(R.EVENT, ns, None, [event] + args)
                errs = d.errors()
                base = ['<sid>'] + args
            else:
                h.server_send(R.EVENT, ns, None, [event] + args)
                errs = h.all_errors()
                base = list(args)
            w2 = dict(w, present=sorted(present), replaced=t, args=args,
                      class_has_method=True)
            if errs:
                w2['errors'] = errs
                ctx.violation(None, '%s raised while routing an event: %s'
                              % (side, errs[0]['exc']), w2)
                return
            want_t, want_args = expected(present, False, base, event, ns)
            replaced = getattr(rec, 'replaced', set())
            replaced.add(t)
            rec.replaced = replaced
            if want_t in replaced:
                want_t += 10
            ctx.count('dispatches_after_re_registration')
            if not judge(ctx, w2, rec, want_t, want_args, True, sid, env):
                return
        ctx.case(('incremental', side, kind, co, tuple(order)), None)
    finally:
        close()


class RefusingScript(E.ServerScript):
    def __init__(self, data):
        super().__init__()
        self.data = data

    def on_packet(self, h, pkt):
        if pkt['type'] == R.CONNECT:
            h.deliver(R.CONNECT_ERROR, pkt['nsp'], None, self.data)


def client_case(ctx, kind, present, evkind, unrelated, has_method, co, rng,
                cancel=False, legacy=False):
    import socketio
    hm = split_hm(has_method)
    nbase = 1      # (reason,) for a disconnect
    arity = {1: nbase - 1, 3: nbase, 5: nbase - 1, 6: nbase} \
        if legacy else {}
    ns = rng.choice(['/', '/a', '/chat'])
    event = {'ordinary': rng.choice(['ev', 'my_event', 'x1', 'my-event',
                                     'my event', 'Ev']),
             'connect': 'connect', 'disconnect': 'disconnect',
             'connect_error': 'connect_error'}[evkind]
    reserved = evkind != 'ordinary'
    err_data = rng.choice([{'message': 'no'}, 'denied', ['a', 1], None])
    script = RefusingScript(err_data) if evkind == 'connect_error' else None
    h = E.make_client(kind, script=script,
                      client_kw={'reconnection': False})
    rec = Rec()
    rec.rng = rng
    try:
        def reg(ev, target, nsp):
            if cancel:
                h.c.on(ev, rec.cancelling(target), namespace=nsp)
            else:
                h.on(ev, rec.fn(target, arity.get(target)), nsp, co)
        if 1 in present:
            reg(event, 1, ns)
        if 2 in present:
            reg('*', 2, ns)
        if 3 in present:
            reg(event, 3, '*')
        if 4 in present:
            reg('*', 4, '*')
        base_cls = socketio.AsyncClientNamespace if h.is_async else \
            socketio.ClientNamespace
        if 5 in present:
            h.c.register_namespace(mk_class(base_cls, rec, 5, event,
                                            hm[5], h.is_async, co, ns,
                                            arity.get(5)))
        if 6 in present:
            h.c.register_namespace(mk_class(base_cls, rec, 6, event,
                                            hm[6], h.is_async, co,
                                            '*', arity.get(6)))
        if unrelated:
            h.on('unrelated_event', lambda *a: None, ns, co)
        args = gen.gen_args(rng, True, 2, maxn=3)
        w = {'side': 'client', 'kind': kind, 'present': sorted(present),
             'event': event, 'reserved': reserved, 'unrelated': unrelated,
             'class_has_method': has_method, 'coroutine': co,
             'namespace': ns, 'args': args, 'handler_cancelled': cancel}
        try:
            h.api('connect', 'http://x', namespaces=[ns], wait=True)
        except Exception as e:
            if evkind != 'connect_error' or \
                    type(e).__name__ != 'ConnectionError':
                w['exc'] = repr(e)
                ctx.violation(None, 'client connect raised %r' % e, w)
                return
        if evkind == 'connect':
            base = []
        elif evkind == 'connect_error':
            if err_data is None:
                base = []
            elif isinstance(err_data, list):
                base = list(err_data)
            else:
                base = [err_data]
        else:
            del rec.calls[:]
            if evkind == 'disconnect':
                h.server_send(R.DISCONNECT, ns)
                base = ['server disconnect']
            else:
                h.server_send(R.EVENT, ns, None, [event] + args)
                base = list(args)
        errs = h.all_errors()
        if errs:
            w['errors'] = errs
            ctx.violation(None, 'client raised while routing an event: %s'
                          % errs[0]['exc'], w)
            return
        # (the library's own pseudo-events; a payload string that merely
        # starts with two underscores is application data)
        internal = [c for c in rec.calls if any(
            isinstance(x, str) and x in INTERNAL_EVENTS for x in c[1])]
        if internal:
            ctx.violation(None, 'an internal event reached an application '
                          'handler: %r' % internal, w)
            return
        want_t, want_args = expected(present, reserved, base, event, ns)
        if legacy and want_args is not None:
            want_args = want_args[:-1]
            w['legacy_disconnect_signature'] = True
        if judge(ctx, w, rec, want_t, want_args, hm):
            if cancel:
                ctx.count('cancelled_handler_routings')
            if legacy:
                ctx.count('legacy_disconnect_routings')
            ctx.case(('client', kind, tuple(sorted(present)), evkind,
                      unrelated, has_method, co, cancel, legacy),
                     w if want_t in (3, 4, 6) and rng.random() < 0.02
                     else None)
    finally:
        h.close()


def grid():
    for bits in range(64):
        present = frozenset(i + 1 for i in range(6) if bits >> i & 1)
        for unrelated in (False, True):
            if 5 in present and 6 in present:
                # the two classes have / lack on_<event> independently
                hm_opts = ((True, True), (True, False), (False, True),
                           (False, False))
            elif 5 in present or 6 in present:
                hm_opts = (True, False)
            else:
                hm_opts = (True,)
            for hm in hm_opts:
                yield present, unrelated, hm


def run(ctx):
    ctx.rule = ('exhaustive grid: 64 presence combinations of the six '
                'targets x {ordinary, connect, disconnect(, connect_error on '
                'clients)} x {namespace has unrelated handlers or not} x '
                '{class has/lacks on_<event>} x {Server, AsyncServer, '
                'Client, AsyncClient} x {sync, coroutine handlers for the '
                'asyncio classes}; random namespace, event name and '
                'arguments per case; the routed callable and its argument '
                'list are compared with the documented precedence table')
    ctx.assumptions = [
        'server: the namespace is admitted through namespaces="*"',
        'a class-based namespace that lacks on_<event> is still the chosen '
        'target (nothing runs)']
    ctx.require('routings_judged', 1000)
    ctx.require('cancelled_handler_routings', 20)
    ctx.require('legacy_disconnect_routings', 50)
    n = 0
    combos = []
    for side, kinds in (('server', ('sync', 'async')),
                        ('client', ('sync', 'async'))):
        evkinds = ['ordinary', 'connect', 'disconnect'] + (
            ['star', 'star_ns'] if side == 'server' else []) + (
            ['connect_error'] if side == 'client' else [])
        for kind in kinds:
            for co in ((True, False) if kind == 'async' else (False,)):
                for evkind in evkinds:
                    for present, unrelated, hm in grid():
                        combos.append((side, kind, co, evkind, present,
                                       unrelated, hm))
    ctx.extra['grid_size'] = len(combos)
    done = 0
    for i, (side, kind, co, evkind, present, unrelated, hm) in \
            enumerate(combos):
        if i % ctx.nshards != ctx.shard:
            continue
        rng = ctx.case_rng(i)
        if side == 'server':
            server_case(ctx, kind, present, evkind, unrelated, hm, co, rng)
        else:
            client_case(ctx, kind, present, evkind, unrelated, hm, co, rng)
        done += 1
        if ctx.too_many_violations():
            return
        # handlers written before the `reason` argument existed (the
        # library retries a disconnect notification without it)
        if evkind == 'disconnect' and (present & {1, 3, 5, 6}):
            rng = ctx.case_rng(2 * 10 ** 6 + i)
            if side == 'server':
                server_case(ctx, kind, present, evkind, unrelated, hm, co,
                            rng, legacy=True)
            else:
                client_case(ctx, kind, present, evkind, unrelated, hm, co,
                            rng, legacy=True)
            if ctx.too_many_violations():
                return
        # asyncio: the winning coroutine function handler ends in
        # CancelledError - still exactly one target runs (no fall-through to
        # a class-based namespace)
        if kind == 'async' and co and evkind == 'ordinary' and \
                hm in (True, (True, True)) and \
                (present & {1, 2, 3, 4}) and (present & {5, 6}):
            rng = ctx.case_rng(10 ** 6 + i)
            if side == 'server':
                server_case(ctx, kind, present, evkind, unrelated, hm, co,
                            rng, cancel=True)
            else:
                client_case(ctx, kind, present, evkind, unrelated, hm, co,
                            rng, cancel=True)
            if ctx.too_many_violations():
                return
    ctx.exhaustive = True
    ctx.extra['grid_cases_run'] = done
    for home, n_home in HOME_COUNT.items():
        ctx.count('class_methods_from_' + home, n_home)
    for home in ('mixin_first', 'mixin_second', 'late', 'instance'):
        ctx.require('class_methods_from_' + home, 20)
    # registrations that arrive over time, the event dispatched in between
    ctx.require('incremental_dispatches', 100)
    ctx.require('dispatches_after_re_registration', 30)
    for j in range(60 if ctx.tier == 'quick' else 600):
        if j % ctx.nshards != ctx.shard:
            continue
        rng = ctx.case_rng(3 * 10 ** 6 + j)
        side = ('server', 'client')[j % 2]
        kind = ('sync', 'async')[(j // 2) % 2]
        incremental_case(ctx, side, kind,
                         kind == 'async' and (j // 4) % 2 == 0, rng, j)
        if ctx.too_many_violations():
            return
    # random extra passes with different names/arguments while time remains
    k = len(combos)
    while not ctx.out_of_time() and ctx.tier == 'thorough':
        side, kind, co, evkind, present, unrelated, hm = combos[
            ctx.rng.randrange(len(combos))]
        rng = ctx.case_rng(k)
        k += 1
        if side == 'server':
            server_case(ctx, kind, present, evkind, unrelated, hm, co, rng)
        else:
            client_case(ctx, kind, present, evkind, unrelated, hm, co, rng)
        if ctx.too_many_violations():
            return
