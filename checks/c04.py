"""C04 Server connection lifecycle: accept/reject, disconnect handler exactly
once.  Part (a): sequential histories against a lifecycle model, both servers.
Part (b): asyncio interleavings of concurrent terminating causes (AsyncGate),
see checks/c04_sched.py, merged into this check's evidence.
"""
import collections

from vlib import refcodec as R
from vlib import scenario as S
from vlib.models import cre_error_args

LEVEL = 'exploration'
TIERS = {
    'quick': {'budget': 40, 'watchdog': 400, 'shards': 1},
    'thorough': {'budget': 420, 'watchdog': 900, 'shards': 16},
}
NAMESPACES = ['/', '/a', '/b', '/c']
AUTHS = [None, {}, {'token': 'abc'}, {'u': 1, 'p': [1, 2]}, 'secret', 0, [],
         [1, 'x'], {'nested': {'k': None}}, 'é😀', True]
BEHAVIOURS = ['accept', 'accept', 'accept', 'true', 'false', ['refuse'],
              ['refuse', 'nope'], ['refuse', 'msg', {'code': 7}],
              ['refuse', 'msg', 1, 2, 'x'], ['refuse', 404],
              ['refuse', 'm', None]]
REASONS = ['transport error', 'transport close', 'ping timeout']


class History:
    def __init__(self, ctx, rng, kind, index):
        self.ctx, self.rng, self.kind, self.index = ctx, rng, kind, index
        pool = NAMESPACES[:rng.choice([2, 3, 4])]
        handler_ns = [ns for ns in pool if rng.random() < 0.7] or [pool[0]]
        nopt = rng.choice(['default', 'list', 'star'])
        self.nopt = nopt
        if nopt == 'default':
            namespaces_opt = None
            listed = ['/']
        elif nopt == 'list':
            listed = [ns for ns in pool if rng.random() < 0.6]
            namespaces_opt = listed or None
            listed = listed or ['/']
        else:
            namespaces_opt = '*'
            listed = []
        style = {ns: rng.choice(['func', 'func', 'class'])
                 for ns in handler_ns}
        self.cfg = S.default_config(
            kind=kind, served=handler_ns, style=style,
            serializer=rng.choice(['default', 'default', 'msgpack']),
            async_handlers=False,
            always_connect=rng.random() < 0.5,
            namespaces_opt=namespaces_opt,
            coroutines=rng.random() < 0.7, connect_script={},
            connect_signature={ns: rng.choice(['optional', 'optional',
                                               'required'])
                               for ns in handler_ns},
            # catch-all registrations (function handlers under the '*'
            # namespace) serve the namespaces that are served anyway and have
            # no handlers of their own; they do not open any further namespace
            global_catchall=rng.random() < 0.3)
        if self.cfg['global_catchall']:
            # some namespaces have handlers for their events only and leave
            # connect / disconnect to the catch-all namespace's handlers
            for ns in handler_ns:
                if rng.random() < 0.4:
                    self.cfg['style'][ns] = 'events_only'
        self.pool = pool
        self.handler_ns = set(handler_ns)
        if self.cfg['global_catchall']:
            ctx.count('histories_with_catch_all_namespace_handlers')
        self.listed = set(listed)
        self.r = S.Runner(self.cfg)
        self.conn = {}          # (T, ns) -> sid  (accepted and not ended)
        self.ended = []         # (sid, T, ns)
        self.all_sids = set()
        self.disc_count = collections.Counter()
        self.nT = 0
        self.open_T = []
        self.tok = 0
        self.ops = []
        self.failed = False

    def served(self, ns):
        return ns in self.handler_ns or self.nopt == 'star' or \
            ns in self.listed

    def handled(self, ns):
        return ns in self.handler_ns or self.cfg['global_catchall']

    def witness(self, res, extra=None):
        w = {'case_index': self.index, 'kind': self.kind,
             'config': {k: self.cfg[k] for k in (
                 'serializer', 'served', 'style', 'always_connect',
                 'namespaces_opt', 'coroutines', 'connect_signature')},
             'history': self.ops[-25:], 'failing_op': res.get('op'),
             'sent': {str(k): v for k, v in res.get('sent', {}).items()},
             'events': res.get('events'), 'exc': res.get('exc'),
             'exc_tb': res.get('exc_tb'), 'errors': res.get('errors')}
        if extra:
            w.update(extra)
        return w

    def fail(self, what, res, extra=None):
        self.failed = True
        self.ctx.violation(None, what, self.witness(res, extra))

    def clean(self, res, faulted=False):
        if res.get('decode_errors'):
            self.fail('server sent an undecodable frame', res)
            return False
        if faulted:
            # the disconnect handler was scripted to raise: the exception
            # may reach the caller of disconnect() or the log (not judged),
            # nothing else may
            if res.get('exc') in ('Injected', 'InjectedBase'):
                res = dict(res, exc=None)
            res = dict(res, errors=[e for e in res.get('errors') or []
                                    if e['exc'] not in ('Injected',
                                                        'InjectedBase')])
        if res.get('exc') or res.get('errors'):
            self.fail('operation raised / error escaped: %s' % (
                res.get('exc') or res['errors'][0]['exc']), res)
            return False
        return True

    # ------------------------------------------------------------ connect
    def do_connect(self):
        rng, ctx = self.rng, self.ctx
        T = rng.choice(self.open_T)
        ns = rng.choice(self.pool + (['/unserved'] if rng.random() < 0.15
                                     else []))
        auth = rng.choice(AUTHS)
        beh = rng.choice(BEHAVIOURS)
        dup = (T, ns) in self.conn
        will_run = self.served(ns) and not dup and self.handled(ns)
        if will_run:
            self.cfg['connect_script']
            self.r.connect_script.setdefault(ns, []).append(beh)
        op = ['connect', T, ns, auth]
        self.ops.append(op + [beh if will_run else None])
        res = self.r.step(op)
        if not self.clean(res):
            return
        mine = res['sent'].get(T, [])
        if set(res['sent']) - {T}:
            return self.fail('CONNECT caused packets to other transports',
                             res)
        h = [e for e in res['events'] if e[0] == 'handler']
        ctx.count('connect_requests')
        if not self.served(ns) or dup:
            if h:
                return self.fail('a handler ran for a %s CONNECT' % (
                    'duplicate' if dup else 'not-served'), res)
            if len(mine) != 1 or mine[0]['type'] != R.CONNECT_ERROR or \
                    mine[0]['nsp'] != ns:
                return self.fail('%s CONNECT was not answered by exactly '
                                 'one CONNECT_ERROR on that namespace' % (
                                     'duplicate' if dup else 'not-served'),
                                 res)
            ctx.count('refused_unserved_or_duplicate')
            # a refused request retains no membership anywhere: every member
            # of every room of the manager is a session that was accepted and
            # has not ended
            live = set(self.conn.values())
            for ns2, table in self.r.sio.manager.rooms.items():
                for room, members in table.items():
                    ghosts = [m for m in members if m not in live]
                    if ghosts:
                        return self.fail(
                            'after a refused (%s) CONNECT the room %r of %r '
                            'holds %r, which is not a connected session' % (
                                'duplicate' if dup else 'not-served', room,
                                ns2, ghosts), res)
            ctx.count('room_tables_scanned_after_refusal')
            ctx.case((self.kind, 'dup' if dup else 'unserved', self.nopt,
                      self.cfg['always_connect']), {'op': op, 'dup': dup})
            if dup:
                # the existing connection is unaffected (probed later)
                pass
            return
        # served: handler count
        want_h = 1 if self.handled(ns) else 0
        hc = [e for e in h if e[1] == 'connect']
        if len(hc) != want_h or len(h) != want_h:
            return self.fail('connect handler ran %d times, expected %d'
                             % (len(hc), want_h), res)
        sid = None
        if hc:
            e = hc[0]
            sid = e[4]
            got_auth, env = e[5]
            if e[2] != ns:
                return self.fail('connect handler ran for namespace %r' %
                                 e[2], res)
            if (got_auth or None) != (auth or None) or (
                    auth and not R.deep_eq(got_auth, auth)):
                return self.fail('connect handler saw auth %r, client sent '
                                 '%r' % (got_auth, auth), res)
            if env != self.r.T[T].label:
                return self.fail('connect handler saw the environ of '
                                 'transport %r' % env, res)
        accept = (not hc) or beh in ('accept', 'true')
        always = self.cfg['always_connect']
        types = [p['type'] for p in mine]
        if any(p['nsp'] != ns for p in mine):
            return self.fail('answer sent on another namespace', res)
        if accept:
            if types != [R.CONNECT]:
                return self.fail('accepted CONNECT answered with packet '
                                 'types %r' % types, res)
        elif always:
            if types != [R.CONNECT, R.DISCONNECT]:
                return self.fail('always_connect refusal answered with '
                                 'packet types %r, expected CONNECT then '
                                 'DISCONNECT' % types, res)
        else:
            if types != [R.CONNECT_ERROR]:
                return self.fail('refusal answered with packet types %r'
                                 % types, res)
        if R.CONNECT in types:
            p = mine[0]
            if not isinstance(p['data'], dict) or \
                    list(p['data']) != ['sid'] or \
                    not isinstance(p['data']['sid'], str):
                return self.fail('CONNECT payload is not {sid}', res)
            psid = p['data']['sid']
            if sid is not None and psid != sid:
                return self.fail('CONNECT carries sid %r but the handler '
                                 'was given %r' % (psid, sid), res)
            sid = psid
            ctx.count('sids_checked_fresh')
            if sid in self.all_sids:
                return self.fail('session id %r was used before' % sid, res)
            # always_connect: CONNECT is sent before the handler runs;
            # otherwise after it
            if hc:
                order = [e[0] for e in res['events']
                         if e[0] in ('send', 'handler')]
                first_send = order.index('send')
                first_h = order.index('handler')
                if always and first_send > first_h:
                    return self.fail('always_connect: CONNECT was sent '
                                     'after the connect handler ran', res)
                if not always and first_send < first_h:
                    return self.fail('CONNECT was sent before the connect '
                                     'handler decided', res)
        if sid is not None:
            self.all_sids.add(sid)
        if not accept:
            want = cre_error_args([]) if beh == 'false' else \
                cre_error_args(beh[1:])
            got = mine[-1]['data']
            if not R.deep_eq(got, want):
                return self.fail('refusal carries %r, expected %r' % (
                    got, want), res)
            ctx.count('refusals_checked')
            # no membership anywhere
            if sid is not None:
                if self.r.sio.manager.is_connected(sid, ns) or \
                        list(self.r.d.api('rooms', sid, namespace=ns)):
                    return self.fail('refused connection retains '
                                     'membership', res)
            self.ended.append((sid, T, ns))
        else:
            self.conn[(T, ns)] = sid
            ctx.count('accepted')
            if not self.r.sio.manager.is_connected(sid, ns):
                return self.fail('accepted sid is not connected', res)
        ctx.case((self.kind, self.cfg['serializer'], always, self.nopt,
                  self.cfg['style'].get(ns, 'none'),
                  'accept' if accept else (
                      beh if isinstance(beh, str) else 'refuse%d' %
                      (len(beh) - 1)), bool(auth),
                  len([k for k in self.conn if k[0] == T])),
                 {'op': op, 'behaviour': beh, 'answer': mine})

    # --------------------------------------------------------- terminate
    def expect_disconnects(self, res, want):
        """want: list of (sid, ns, reason)."""
        got = [(e[4], e[2], e[5][0]) for e in res['events']
               if e[0] == 'handler' and e[1] == 'disconnect']
        others = [e for e in res['events'] if e[0] == 'handler' and
                  e[1] != 'disconnect']
        want = [w for w in want if self.handled(w[1])]
        self.ctx.count('terminations_checked')
        if sorted(got) != sorted(want) or others:
            self.fail('disconnect handler invocations %r, expected %r' % (
                got, want), res)
            return False
        for sid, ns, _ in got:
            self.disc_count[sid] += 1
            if self.disc_count[sid] > 1:
                self.fail('disconnect handler ran twice for %r' % sid, res)
                return False
        return True

    def after_end(self, res, sid, T, ns):
        if self.r.sio.manager.is_connected(sid, ns):
            self.fail('sid still connected after its disconnect', res)
            return False
        if list(self.r.d.api('rooms', sid, namespace=ns)):
            self.fail('sid still in rooms after its disconnect', res)
            return False
        return True

    def do_terminate(self):
        rng, ctx = self.rng, self.ctx
        k = rng.random()
        if k < 0.15 and self.ended:
            # repeat: already ended sid / namespace
            sid, T, ns = rng.choice(self.ended)
            if rng.random() < 0.5 or T not in self.open_T or \
                    (T, ns) in self.conn:
                op = ['sdisc', sid, ns]
            else:
                op = ['cdisc', T, ns]
            self.ops.append(op)
            res = self.r.step(op)
            if not self.clean(res):
                return
            if res['sent'] or [e for e in res['events']
                               if e[0] == 'handler']:
                return self.fail('terminating an already ended connection '
                                 'had effects', res)
            ctx.count('repeat_terminations')
            return
        if not self.conn:
            return
        T, ns = rng.choice(sorted(self.conn))
        sid = self.conn[(T, ns)]
        # some disconnect handlers fail: the connection still ends, exactly
        # once, and the transport's other namespaces end / stay as they
        # would have.  A non-Exception (green-thread timeout or kill) is only
        # scripted where a single handler runs.
        faulted = rng.random() < 0.3
        nhandlers = len([k2 for k2 in self.conn if k2[0] == T
                         and self.handled(k2[1])])
        nconn = len([k2 for k2 in self.conn if k2[0] == T])
        if faulted:
            if k < 0.75 or nconn <= 1:
                script = [rng.choice(['exc', 'base'])]
            else:
                script = [rng.choice(['exc', 'exc', 'ok'])
                          for _ in range(nhandlers)]
            self.r.disconnect_script = list(script)
            self.ctx.count('terminations_with_failing_handler')
        if k < 0.45:
            op = ['cdisc', T, ns]
            self.ops.append(op + ([script] if faulted else []))
            res = self.r.step(op)
            self.r.disconnect_script = []
            if not self.clean(res, faulted):
                return
            if not self.expect_disconnects(res, [(sid, ns,
                                                  'client disconnect')]):
                return
            if res['sent']:
                return self.fail('client DISCONNECT was answered with '
                                 'packets', res)
            gone = [(T, ns)]
            cause = 'client'
        elif k < 0.75:
            op = ['sdisc', sid, ns]
            self.ops.append(op + ([script] if faulted else []))
            res = self.r.step(op)
            self.r.disconnect_script = []
            if not self.clean(res, faulted):
                return
            if not self.expect_disconnects(res, [(sid, ns,
                                                  'server disconnect')]):
                return
            mine = res['sent'].get(T, [])
            if [p['type'] for p in mine] != [R.DISCONNECT] or \
                    mine[0]['nsp'] != ns or set(res['sent']) - {T}:
                return self.fail('disconnect() did not send exactly one '
                                 'DISCONNECT to the client on the namespace',
                                 res)
            gone = [(T, ns)]
            cause = 'server'
        else:
            if rng.random() < 0.3:
                op = ['cclose', T]
                reason = 'client disconnect'
            else:
                reason = rng.choice(REASONS)
                op = ['lose', T]
            self.ops.append(op + ([script] if faulted else []))
            if op[0] == 'lose':
                t = self.r.T[T]
                res = {'op': op, '_ev0': len(self.r.events)}
                try:
                    t.lose(reason)
                except Exception as e:
                    res['exc'] = repr(e)
                self.r._collect(res)
            else:
                res = self.r.step(op)
            self.r.disconnect_script = []
            if not self.clean(res, faulted):
                return
            gone = [k2 for k2 in sorted(self.conn) if k2[0] == T]
            if not self.expect_disconnects(
                    res, [(self.conn[k2], k2[1], reason) for k2 in gone]):
                return
            self.open_T.remove(T)
            cause = 'transport'
        for key in gone:
            s = self.conn.pop(key)
            self.ended.append((s, key[0], key[1]))
            if not self.after_end(res, s, key[0], key[1]):
                return
        ctx.case((self.kind, 'end', cause, len(gone),
                  len([k2 for k2 in self.conn if k2[0] == T])),
                 {'op': op, 'ended': gone})
        self.probe()

    def probe(self):
        """Broadcast on every namespace: exactly the connected (T, ns)
        receive it - ended ones never again, siblings unaffected."""
        for ns in self.pool:
            self.tok += 1
            op = ['emit', self.tok, None, None, ns, None]
            self.ops.append(op)
            res = self.r.step(op)
            if not self.clean(res):
                return
            got = collections.Counter()
            for T, pkts in res['sent'].items():
                for p in pkts:
                    got[(T, p['nsp'])] += 1
            want = collections.Counter(
                {k: 1 for k in self.conn if k[1] == ns})
            self.ctx.count('probes')
            if got != want:
                return self.fail('broadcast on %r reached %r, connected are '
                                 '%r' % (ns, sorted(got.items()),
                                         sorted(want)), res)
        for (T, ns), sid in sorted(self.conn.items()):
            rooms = list(self.r.d.api('rooms', sid, namespace=ns))
            if rooms != [sid]:
                return self.fail('rooms(%r) = %r for a connected client '
                                 'that entered no room' % (sid, rooms),
                                 {'op': 'probe'})

    def step(self):
        rng = self.rng
        r = rng.random()
        if not self.open_T or r < 0.06:
            self.nT += 1
            self.open_T.append(self.nT)
            op = ['open', self.nT]
            self.ops.append(op)
            self.r.step(op)
            return
        if r < 0.55 or not self.conn:
            return self.do_connect()
        if r < 0.92:
            return self.do_terminate()
        return self.probe()

    def close(self):
        self.r.close()


def run_case(ctx, k):
    rng = ctx.case_rng(k)
    h = History(ctx, rng, 'sync' if k % 2 == 0 else 'async', k)
    try:
        for _ in range(rng.choice([15, 30, 60])):
            h.step()
            if h.failed:
                break
    finally:
        h.close()


def run(ctx):
    ctx.rule = ('(a) sequential histories over {CONNECT(ns, auth), client '
                'DISCONNECT, server disconnect(), transport loss with each '
                'reason, engine.io CLOSE, repeated terminations} with connect '
                'handlers that accept / return False / raise '
                'ConnectionRefusedError(0..4 args), always_connect x '
                'namespaces{default,list,*} x {function, class-based} '
                'handlers, judged against a lifecycle model with broadcast '
                'probes after every termination; (b) asyncio interleavings, '
                'see schedules_* keys; distinct = configuration x behaviour '
                'x cause signatures')
    ctx.assumptions = [
        'empty and absent auth payloads are not distinguished',
        'threaded server: sequential executions only (its races are C20)']
    ctx.require('connect_requests', 100)
    ctx.require('accepted', 50)
    ctx.require('refusals_checked', 20)
    ctx.require('refused_unserved_or_duplicate', 10)
    ctx.require('histories_with_catch_all_namespace_handlers', 5)
    ctx.require('terminations_checked', 50)
    ctx.require('terminations_with_failing_handler', 10)
    ctx.require('probes', 50)
    ctx.require('sids_checked_fresh', 50)
    try:
        from checks import c04_sched
    except ImportError:
        c04_sched = None
    budget_a = ctx.budget * (0.55 if c04_sched else 1.0)
    k = 0
    import time
    t0 = time.time()
    while time.time() - t0 < budget_a and not ctx.too_many_violations():
        run_case(ctx, k)
        ctx.count('histories')
        k += 1
    if c04_sched and not ctx.too_many_violations():
        c04_sched.run_part(ctx)


def replay(ctx, w):
    wi = w['witness']
    if wi.get('part') == 'sched':
        from checks import c04_sched
        return c04_sched.replay(ctx, w)
    run_case(ctx, wi['case_index'])
