"""C02, threads: an event handler that itself waits for an acknowledgement.

The peer asks with call(); the handler, before it answers, asks the peer
something with call() and returns what it got.  The acknowledgement of the
inner question is handled by another thread (python-engineio's client starts
one per received message; every long-polling request of the threaded server
has its own) while the handler's thread waits for it.  The value the inner
handler returned must arrive as the result of the inner call(), and the value
the outer handler returns must be on the acknowledgement of the outer event.

Real Client / Server objects, real threads under vlib.sched.ThreadScheduler:
the events call() waits on and every lock the socketio modules create are the
scheduler's (a wait that cannot end is reported by the scheduler as a
deadlock, a call() timeout expires only at quiescence - no wall clock in the
verdict); yield points at every statement start of the client / server
modules.
"""
import collections

from vlib import drive as D
from vlib import eioclient as E
from vlib import gen
from vlib import refcodec as R
from vlib import sched as SC
from vlib.core import jsonable

NSS = ['/', '/a']


def _modules():
    import socketio.base_client
    import socketio.base_manager
    import socketio.base_server
    import socketio.client
    import socketio.manager
    import socketio.server
    return [socketio.base_client, socketio.client, socketio.base_manager,
            socketio.manager, socketio.base_server, socketio.server]


def shape_result(args):
    return None if len(args) == 0 else (args[0] if len(args) == 1
                                        else tuple(args))


def run_schedule(ctx, side, k, choices, rng, bound):
    """side == 'client': the client's handler nests a call to the server;
    side == 'server': the server's handler nests a call to the client."""
    prng = ctx.case_rng(2 * 10 ** 8 + k)
    ser = prng.choice(['default', 'msgpack'])
    ns, ns2 = prng.choice(NSS), prng.choice(NSS)
    data = gen.gen_payload_arg(prng, True, 64)
    inner_data = gen.gen_payload_arg(prng, True, 64)
    inner_ret = gen.gen_payload_arg(prng, True, 64)
    inner_args = gen.expected_args(inner_ret)
    want = shape_result(inner_args)
    sched = SC.ThreadScheduler(
        choices=choices, rng=rng, preemption_bound=bound,
        switch_prob=(rng.choice([0.02, 0.05, 0.15]) if rng is not None
                     else None), max_steps=200000)
    mods = _modules()
    undo = SC.patch_module_locks(sched, mods)
    out = {}
    outer_id = 7
    close = None
    try:
        if side == 'client':
            h = E.SyncClientHarness(serializer=ser,
                                    client_kw={'reconnection': False})
            h.api('connect', 'http://x', namespaces=list(NSS))
            h.eio.create_event = lambda *a, **kw: SC.SchedEvent(
                sched, 'call_event')
            close = h.close

            def job(*args):
                out['outer_args'] = list(args)
                try:
                    v = h.c.call('ask', inner_data, namespace=ns2,
                                 timeout=30)
                except Exception as e:
                    out['inner'] = (type(e).__name__, None)
                    raise
                out['inner'] = ('ok', v)
                return v
            h.c.on('job', job, namespace=ns)
            n0 = len(h.sent)

            def sent():
                return h.sent[n0:]

            def deliver_outer():
                h.server_send(R.EVENT, ns, outer_id, ['job'] +
                              gen.expected_args(data))

            def deliver_inner_ack(pid):
                h.server_send(R.ACK, ns2, pid, inner_args)

            def errors():
                return h.all_errors()
            files = [mods[0].__file__, mods[1].__file__]
            n_workers = 0
        else:
            d = D.SyncDrive(serializer=ser, async_handlers=True,
                            autojoin=False, namespaces=list(NSS))
            for n in NSS:
                d.on('connect', lambda sid, env, auth=None: None, n)
            t = d.open()
            t.connect(ns)
            if ns2 != ns:
                t.connect(ns2)
            sid2 = t.sids[ns2]
            t.drain()
            d.eio.create_event = lambda *a, **kw: SC.SchedEvent(
                sched, 'call_event')
            close = d.close
            tasks = collections.deque()
            mains_done = []
            # handlers run in a thread each: here, scheduler actors
            d.sio.start_background_task = \
                lambda target, *a, **kw: tasks.append((target, a, kw))

            def worker():
                while True:
                    sched.block_until(lambda: tasks or len(mains_done) == 2,
                                      'worker.idle')
                    if not tasks:
                        return
                    target, a, kw = tasks.popleft()
                    target(*a, **kw)

            def job(sid, *args):
                out['outer_args'] = list(args)
                try:
                    v = d.sio.call('ask', inner_data, to=sid2,
                                   namespace=ns2, timeout=30)
                except Exception as e:
                    out['inner'] = (type(e).__name__, None)
                    raise
                out['inner'] = ('ok', v)
                return v
            d.sio.on('job', job, namespace=ns)
            n0 = len(t.packets)

            def sent():
                t.drain()
                return t.packets[n0:]

            def deliver_outer():
                try:
                    t.send_packet(R.EVENT, ns, outer_id, ['job'] +
                                  gen.expected_args(data))
                finally:
                    mains_done.append(1)

            def deliver_inner_ack(pid):
                t.send_packet(R.ACK, ns2, pid, inner_args)

            def errors():
                return d.errors()
            files = [m.__file__ for m in mods[2:]]
            n_workers = 2

        def ask_id():
            for p in sent():
                if p['type'] in (R.EVENT, R.BINARY_EVENT) and \
                        p['data'][0] == 'ask':
                    return p['id']
            return None

        def acker():
            try:
                if sched.block_until(lambda: ask_id() is not None,
                                     'peer.got_question', can_timeout=True):
                    out['inner_question'] = True
                    deliver_inner_ack(ask_id())
            finally:
                if side == 'server':
                    mains_done.append(1)
        sched.spawn('request1', deliver_outer)
        sched.spawn('request2', acker)
        for i in range(n_workers):
            sched.spawn('worker%d' % i, worker)
        SC.enable_lines(sched, files)
        try:
            trace = sched.run()
        finally:
            SC.disable_lines()
        ctx.count('nested_call_schedules')
        ctx.count('nested_call_schedules_' + side)
        ctx.count('nested_call_yield_points', len(sched.labels))
        wit = {'part': 'nested_call', 'side': side, 'case_index': k,
               'serializer': ser, 'outer_namespace': ns,
               'inner_namespace': ns2,
               'choices': [c for _, c in trace], 'bound': bound,
               'labels': [[a, lbl] for a, lbl in sched.labels][-60:],
               'inner_handler_returned': jsonable(inner_ret),
               'inner_call': jsonable(out.get('inner'))}
        if sched.aborted:
            SC.report_abort(ctx, sched, wit, 'a handler that waits for an '
                            'acknowledgement while another thread handles '
                            'it')
            return trace
        if not out.get('inner_question'):
            ctx.violation(None, 'the handler\'s call() never reached the '
                          'peer', wit)
            return trace
        got = out.get('inner')
        ctx.count('nested_calls_judged')
        if not got or got[0] != 'ok' or not R.deep_eq(got[1], want) or (
                isinstance(want, tuple) and not isinstance(got[1], tuple)):
            ctx.violation(None, 'call() issued by a %s-side handler: the '
                          'peer acknowledged with %r (another thread handled '
                          'the acknowledgement) but call() ended with %r'
                          % (side, inner_args, got), wit)
            return trace
        errs = list(sched.errors) + errors()
        if errs:
            wit['errors'] = [{'exc': e.get('exc'), 'tb': (e.get('tb') or
                                                          '')[-1200:]}
                             for e in errs[:3]]
            ctx.violation(None, 'a handler that waits for an '
                          'acknowledgement: exception (%s)' %
                          errs[0].get('exc'), wit)
            return trace
        if not R.deep_eq(out.get('outer_args'), gen.expected_args(data)):
            ctx.violation(None, 'outer handler arguments %r, sent %r' % (
                out.get('outer_args'), gen.expected_args(data)), wit)
            return trace
        acks = [p for p in sent() if p['type'] in (R.ACK, R.BINARY_ACK)
                and p['id'] == outer_id and p['nsp'] == ns]
        # what the outer handler returned is what the inner call() returned
        want_outer = [] if want is None else (
            list(want) if isinstance(want, tuple) else [want])
        if len(acks) != 1 or not R.deep_eq(acks[0]['data'], want_outer):
            wit['acks'] = jsonable(acks)
            ctx.violation(None, 'the outer handler returned %r; the '
                          'acknowledgements sent for its event: %r' % (
                              want, [a['data'] for a in acks]), wit)
            return trace
        ctx.case(('nested_call', side, ser, ns == ns2, gen.shape(inner_ret),
                  tuple(c for _, c in trace)[:60]), None)
        return trace
    finally:
        undo()
        if close:
            close()


def run_part(ctx, seconds):
    import time
    t0 = time.time()
    ctx.extra['nested_call'] = {}
    k = ctx.shard * 10 ** 5
    for side in ('client', 'server'):
        # all schedules with at most one pre-emption, for one payload
        choices = []
        n = 0
        t1 = time.time()
        while choices is not None and time.time() - t1 < seconds * 0.3 \
                and not ctx.too_many_violations():
            trace = run_schedule(ctx, side, k, choices, None, 1)
            n += 1
            choices = SC.next_schedule(trace)
        ctx.extra['nested_call'][side] = {
            'schedules_with_at_most_1_preemption': n,
            'complete': choices is None}
    # seeded random schedules over many payloads
    while time.time() - t0 < seconds and not ctx.too_many_violations():
        k += 1
        rng = ctx.case_rng(3 * 10 ** 8 + k)
        run_schedule(ctx, rng.choice(['client', 'server']), k, None, rng,
                     None)


def replay(ctx, w):
    wi = w['witness']
    run_schedule(ctx, wi['side'], wi['case_index'], wi['choices'], None,
                 wi.get('bound'))
