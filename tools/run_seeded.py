#!/venv/bin/python
"""Run checks against the independently seeded breaking changes.

  tools/run_seeded.py [ids|all] [--tier quick] [--also C14,C11] [--jobs N] [--record]

For each /verif/seeded/<id>/ a scratch copy of /repo/src gets patch.diff
applied (outside /repo and /verif, removed afterwards) and the check of the
property the change breaks (plus --also) runs against it through VERIF_REPO;
expected: exit 1 with a VIOLATION line.  --record stores the outcome in
meta.json ('detection').
"""
import json
import os
import shutil
import subprocess
import sys
import tempfile
import time
from concurrent.futures import ThreadPoolExecutor

HERE = os.path.dirname(os.path.dirname(os.path.abspath(__file__)))
SEEDED = os.path.join(HERE, 'seeded')


def run_one(sid, tier, also, seed):
    d = os.path.join(SEEDED, sid)
    meta = json.load(open(os.path.join(d, 'meta.json')))
    if meta.get('neutralised_by'):
        # a later repair of the library made this change harmless (its
        # demonstration passes with it): nothing to detect any more
        return sid, {'neutralised': meta['neutralised_by']}
    root = tempfile.mkdtemp(prefix='seedrun_%s_' % sid, dir='/tmp')
    out = {}
    try:
        shutil.copytree('/repo/src', os.path.join(root, 'src'))
        p = subprocess.run(['patch', '-p1', '-s', '-d', root, '-i',
                            os.path.join(d, 'patch.diff')],
                           capture_output=True, text=True)
        if p.returncode:
            return sid, {'error': 'patch does not apply: ' +
                         (p.stdout + p.stderr)[-300:]}
        props = [meta['breaks_property']] + [a for a in also
                                             if a != meta['breaks_property']]
        for pid in props:
            env = dict(os.environ, VERIF_REPO=root, VERIF_NO_EVIDENCE='1')
            if seed is not None:
                env['VERIF_SEED'] = str(seed)
            t0 = time.time()
            pr = subprocess.run([os.path.join(HERE, 'check'), pid, '--tier',
                                 tier], env=env, capture_output=True,
                                text=True, timeout=7200)
            lines = pr.stdout.splitlines()
            what = [l.strip() for l in lines if l.startswith('  what')]
            caught = pr.returncode == 1 and any(
                l.startswith('VIOLATION') for l in lines)
            out[pid] = {'rc': pr.returncode, 'caught': caught,
                        'seconds': round(time.time() - t0, 1),
                        'what': what[:2], 'tier': tier,
                        'tail': '' if caught else pr.stdout[-300:]}
    finally:
        shutil.rmtree(root, ignore_errors=True)
    return sid, out


def main():
    args = sys.argv[1:]
    sel = args[0] if args and not args[0].startswith('--') else 'all'
    tier = args[args.index('--tier') + 1] if '--tier' in args else 'quick'
    also = args[args.index('--also') + 1].split(',') if '--also' in args \
        else []
    jobs = int(args[args.index('--jobs') + 1]) if '--jobs' in args else 6
    seed = int(args[args.index('--seed') + 1]) if '--seed' in args else None
    ids = sorted(os.listdir(SEEDED))
    if sel != 'all':
        want = sel.split(',')
        ids = [i for i in ids if i in want or i.split('-')[0] in want]
    missed = []
    with ThreadPoolExecutor(max_workers=jobs) as ex:
        futs = [ex.submit(run_one, i, tier, also, seed) for i in ids]
        for f in futs:
            sid, out = f.result()
            if 'neutralised' in out:
                print('%-8s NEUTRALISED by fix %s' % (sid,
                                                      out['neutralised']))
                continue
            for pid, r in out.items():
                if pid == 'error':
                    print('%-8s ERROR %s' % (sid, r))
                    continue
                print('%-8s %s rc=%s %s %ss %s %s' % (
                    sid, pid, r['rc'], 'CAUGHT' if r['caught'] else 'MISSED',
                    r['seconds'], (r['what'][0][:120] if r['what'] else ''),
                    r['tail'].replace('\n', ' | ')[-160:]))
                sys.stdout.flush()
            main_pid = json.load(open(os.path.join(
                SEEDED, sid, 'meta.json')))['breaks_property']
            if not any(r.get('caught') for r in out.values()
                       if isinstance(r, dict)):
                missed.append(sid)
            if '--record' in args:
                mp = os.path.join(SEEDED, sid, 'meta.json')
                meta = json.load(open(mp))
                det = meta.setdefault('detection', {})
                for pid, r in out.items():
                    if isinstance(r, dict) and 'rc' in r:
                        det[pid] = {k: r[k] for k in ('caught', 'rc', 'tier',
                                                      'seconds', 'what')}
                meta['detected_by'] = sorted(p for p, r in det.items()
                                             if r.get('caught'))
                json.dump(meta, open(mp, 'w'), indent=1)
    print('%d seeded changes, not caught by any selected check: %s' % (
        len(ids), missed))


if __name__ == '__main__':
    main()
