#!/venv/bin/python
"""Self-validation: apply a catalogue mutation (a realistic breaking edit) to a
scratch copy of /repo/src, run a check against it (VERIF_REPO), expect exit 1.

  tools/mutate.py list
  tools/mutate.py run <mutant-id[,id..]|all|Cxx> [--tier quick] [--as Cyy]
"""
import json
import os
import shutil
import subprocess
import sys
import tempfile
import time

HERE = os.path.dirname(os.path.dirname(os.path.abspath(__file__)))
sys.path.insert(0, HERE)
from mutants.catalogue import MUTANTS  # noqa: E402


def apply(m, root):
    for f, old, new in m['edits']:
        p = os.path.join(root, 'src', 'socketio', f)
        s = open(p).read()
        if s.count(old) < 1:
            raise ValueError('mutant %s: pattern not found in %s' % (
                m['id'], f))
        s = s.replace(old, new, 1 if not m.get('all') else -1)
        open(p, 'w').write(s)


def run_one(m, tier, keep=False, seed=None):
    root = tempfile.mkdtemp(prefix='mut_%s_' % m['id'], dir='/tmp')
    try:
        shutil.copytree('/repo/src', os.path.join(root, 'src'))
        try:
            apply(m, root)
        except ValueError as e:
            return False, [(p, -1, False, 0, [], 'STALE MUTANT: %s' % e)
                           for p in m['props']]
        out = []
        ok = True
        for pid in m['props']:
            env = dict(os.environ, VERIF_REPO=root, VERIF_NO_EVIDENCE='1')
            if seed is not None:
                env['VERIF_SEED'] = str(seed)
            t0 = time.time()
            pr = subprocess.run([os.path.join(HERE, 'check'), pid, '--tier',
                                 tier], env=env, capture_output=True,
                                text=True, timeout=3600)
            viol = [l for l in pr.stdout.splitlines()
                    if l.startswith('VIOLATION') or l.startswith('  what')]
            caught = pr.returncode == 1 and any(
                l.startswith('VIOLATION') for l in viol)
            ok = ok and caught
            out.append((pid, pr.returncode, caught, time.time() - t0,
                        viol[:2], pr.stdout[-300:] if not caught else ''))
        return ok, out
    finally:
        if not keep:
            shutil.rmtree(root, ignore_errors=True)


def main():
    cmd = sys.argv[1]
    if cmd == 'list':
        for m in MUTANTS:
            print(m['id'], m['props'], m['desc'])
        return
    sel = sys.argv[2]
    tier = 'quick'
    if '--tier' in sys.argv:
        tier = sys.argv[sys.argv.index('--tier') + 1]
    ms = [m for m in MUTANTS if sel == 'all' or m['id'] == sel or
          sel in m['props'] or m['id'].startswith(sel + '-') or
          m['id'] in sel.split(',')]
    if '--as' in sys.argv:
        # run another property's check against the selected mutants
        as_pid = sys.argv[sys.argv.index('--as') + 1]
        ms = [dict(m, props=[as_pid]) for m in ms]
    from concurrent.futures import ThreadPoolExecutor
    results = {}
    with ThreadPoolExecutor(max_workers=int(os.environ.get('MUT_JOBS', '6'))) as ex:
        futs = {m['id']: ex.submit(run_one, m, tier) for m in ms}
        for mid, f in futs.items():
            ok, out = f.result()
            results[mid] = ok
            for pid, rc, caught, dt, viol, tail in out:
                print('%-40s %s rc=%d %s %.0fs %s %s' % (
                    mid, pid, rc, 'CAUGHT' if caught else 'MISSED', dt,
                    viol[0][:110] if viol else '', tail.replace('\n', ' | ')))
            sys.stdout.flush()
    missed = [k for k, v in results.items() if not v]
    print('%d/%d caught; missed: %s' % (len(results) - len(missed),
                                        len(results), missed))


if __name__ == '__main__':
    main()
