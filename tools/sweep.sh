#!/bin/sh
# tools/sweep.sh <tier> <seed> [ids...]: run checks one after another, print one line per check
tier=$1; seed=$2; shift 2
ids=${*:-C01 C02 C03 C04 C05 C06 C07 C08 C09 C10 C11 C12 C13 C14 C15 C16 C17 C18 C19 C20}
for c in $ids; do
  out=$(VERIF_NO_EVIDENCE=1 ./check $c --tier $tier --seed $seed 2>&1); rc=$?
  echo "$c tier=$tier seed=$seed rc=$rc $(echo "$out" | grep -E '^C[0-9]+ tier' | cut -c1-120)"
  if [ $rc -ne 0 ]; then echo "$out" | grep -E 'what:|VIOLATION|INCONCLUSIVE' | head -5; fi
done
