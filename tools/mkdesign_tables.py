#!/venv/bin/python
"""Print the markdown table of seeded changes for DESIGN.md section 6."""
import json
import os

HERE = os.path.dirname(os.path.dirname(os.path.abspath(__file__)))
rows = []
for sid in sorted(os.listdir(os.path.join(HERE, 'seeded'))):
    m = json.load(open(os.path.join(HERE, 'seeded', sid, 'meta.json')))
    det = m.get('detection', {})
    caught = ', '.join('%s (%ss)' % (p, d.get('seconds'))
                       for p, d in sorted(det.items()) if d.get('caught'))
    rows.append('| %s | %s | %s | %s | %s |' % (
        sid, m.get('mechanism', '').replace('|', '/'),
        m.get('needs_to_manifest', '').replace('|', '/'),
        (caught + ' - before repair 49a89d8 neutralised it'
         if m.get('neutralised_by') else caught) or '**not caught**',
        m.get('added_to_checks', '').replace('|', '/')))
print('| seed | change | needs in order to manifest | caught by (quick tier, time to first violation) | added to the checks because of it |')
print('|---|---|---|---|---|')
print('\n'.join(rows))
