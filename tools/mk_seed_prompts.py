#!/venv/bin/python
"""Prepare one seeding round: per property a scratch worktree of /repo HEAD
under /tmp/seed/<id> and a prompt under /tmp/prompts/<id>.md built from
tools/seed_prompt.md (the property's JSON record only - nothing else from
/verif), asking for two changes named by the two letters given.

  tools/mk_seed_prompts.py G H

From the second round on the prompt also lists, in one line each, the
mechanisms of the changes other people already produced for that property
(taken from the agents' own earlier reports, not from the checks), so that
the new ones differ.
"""
import json
import os
import subprocess
import sys

HERE = os.path.dirname(os.path.dirname(os.path.abspath(__file__)))
sys.path.insert(0, os.path.join(HERE, 'tools'))
import seed_notes  # noqa: E402


def main():
    a, b = sys.argv[1], sys.argv[2]
    tmpl = open(os.path.join(HERE, 'tools', 'seed_prompt.md')).read()
    os.makedirs('/tmp/prompts', exist_ok=True)
    os.makedirs('/tmp/seed', exist_ok=True)
    for line in open(os.path.join(HERE, 'properties.jsonl')):
        p = json.loads(line)
        pid = p['id']
        wt = '/tmp/seed/' + pid
        if not os.path.exists(wt):
            subprocess.run(['git', '-C', '/repo', 'worktree', 'add', '--detach',
                            wt, 'HEAD'], check=True, capture_output=True)
        s = tmpl.replace('@ID@', pid).replace(
            '@PROPERTY@', json.dumps(p, indent=1, ensure_ascii=False))
        s = s.replace('(call them A and B;', '(call them %s and %s;' % (a, b))
        s = s.replace('per change X in {A, B}',
                      'per change X in {%s, %s}' % (a, b))
        s = s.replace('for A and B one\nparagraph each',
                      'for %s and %s one\nparagraph each' % (a, b))
        used = [(k, v) for k, v in sorted(seed_notes.N.items())
                if k.startswith(pid + '-')]
        if used:
            s += ('\n## Already taken\n\nOther people have already produced '
                  'the following changes for this property. Yours must be '
                  'DIFFERENT in mechanism and, if possible, in code site; '
                  'prefer changes that need a particular interleaving of '
                  'threads/tasks, a fault at a particular point, a particular '
                  'configuration combination or a multi-step history, and '
                  'prefer parts of the property\'s statement and domain that '
                  'the list below leaves untouched:\n\n')
            for k, v in used:
                s += '* %s (needs: %s)\n' % (v[0], v[1])
        open('/tmp/prompts/%s.md' % pid, 'w').write(s)
    print('prompts in /tmp/prompts, worktrees in /tmp/seed')


if __name__ == '__main__':
    main()
