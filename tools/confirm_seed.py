#!/venv/bin/python
"""Confirm an independently written breaking change (fault seed) and file it
under /verif/seeded/<id>/.

  tools/confirm_seed.py <src-dir with patch.diff demo.py README.md> <id> <property> [--admin]

Confirms, in a scratch worktree of /repo's HEAD (removed afterwards):
  1. demo.py exits 0 on the unchanged tree;
  2. the patch applies, the package imports, demo.py exits non-zero with it;
  3. the non-admin test-suite reports the baseline count with the patch;
  4. (--admin, slow) the 12 baseline-passing admin tests pass with the patch,
     run in a private network namespace so that several confirmations can
     run side by side.
Writes seeded/<id>/{patch.diff,demo.py,README.agent.md,meta.json}.
"""
import json
import os
import shutil
import subprocess
import sys

HERE = os.path.dirname(os.path.dirname(os.path.abspath(__file__)))
PY = '/venv/bin/python'
ADMIN_DESELECT = [
    'tests/async/test_admin.py::TestAsyncAdmin::test_admin_connect_only_admin',
    'tests/async/test_admin.py::TestAsyncAdmin::test_admin_connect_production',
    'tests/async/test_admin.py::TestAsyncAdmin::test_admin_connect_with_others',
    'tests/common/test_admin.py::TestAdmin::test_admin_connect_only_admin',
    'tests/common/test_admin.py::TestAdmin::test_admin_connect_production',
    'tests/common/test_admin.py::TestAdmin::test_admin_connect_with_others',
    'tests/common/test_admin.py::TestAdmin::test_admin_features',
]


def sh(cmd, cwd=None, env=None, timeout=1800):
    p = subprocess.run(cmd, cwd=cwd, env=env, capture_output=True, text=True,
                       timeout=timeout)
    return p.returncode, (p.stdout + p.stderr)


def main():
    src, sid, prop = sys.argv[1:4]
    admin = '--admin' in sys.argv
    wt = '/tmp/confirm/%s' % sid
    os.makedirs('/tmp/confirm', exist_ok=True)
    sh(['git', '-C', '/repo', 'worktree', 'remove', '--force', wt])
    rc, out = sh(['git', '-C', '/repo', 'worktree', 'add', '--detach', wt,
                  'HEAD'])
    if rc:
        print(out)
        sys.exit(2)
    result = {'id': sid, 'property': prop, 'repo_head': sh(
        ['git', '-C', '/repo', 'rev-parse', '--short', 'HEAD'])[1].strip()}
    env = dict(os.environ, PYTHONPATH=os.path.join(wt, 'src'),
               PYTHONHASHSEED='0')
    env.pop('VERIF_REPO', None)
    demo = os.path.join(src, 'demo.py')
    patch = os.path.join(src, 'patch.diff')
    try:
        rc, out = sh([PY, demo], cwd=wt, env=env, timeout=300)
        result['demo_unchanged_rc'] = rc
        result['demo_unchanged_tail'] = out[-400:]
        rc, out = sh(['git', 'apply', patch], cwd=wt)
        result['apply_rc'] = rc
        if rc:
            result['apply_out'] = out[-600:]
        rc, out = sh([PY, '-c', 'import socketio, socketio.admin, '
                      'socketio.async_admin; print(socketio.__file__)'],
                     cwd=wt, env=env)
        result['import_rc'] = rc
        result['import_path'] = out.strip()[-200:]
        rc, out = sh([PY, demo], cwd=wt, env=env, timeout=300)
        result['demo_patched_rc'] = rc
        result['demo_patched_tail'] = out[-1200:]
        rc, out = sh([PY, '-m', 'pytest', '-q', '-p', 'no:cacheprovider',
                      '--timeout=900', '-n', '8',
                      '--ignore=tests/common/test_admin.py',
                      '--ignore=tests/async/test_admin.py'], cwd=wt, env=env)
        result['tests_rc'] = rc
        result['tests_summary'] = out.strip().splitlines()[-1][-200:]
        if admin:
            cmd = 'ip link set lo up; exec %s -m pytest -q -p ' \
                'no:cacheprovider --timeout=900 tests/common/test_admin.py ' \
                'tests/async/test_admin.py %s' % (
                    PY, ' '.join('--deselect ' + d for d in ADMIN_DESELECT))
            rc, out = sh(['unshare', '-n', 'sh', '-c', cmd], cwd=wt, env=env,
                         timeout=2400)
            result['admin_rc'] = rc
            result['admin_summary'] = out.strip().splitlines()[-1][-200:]
    finally:
        sh(['git', '-C', '/repo', 'worktree', 'remove', '--force', wt])
        shutil.rmtree(wt, ignore_errors=True)
    ok = (result.get('demo_unchanged_rc') == 0 and
          result.get('apply_rc') == 0 and result.get('import_rc') == 0 and
          result.get('demo_patched_rc') not in (0, None) and
          result.get('tests_rc') == 0 and
          '579 passed' in result.get('tests_summary', '') and
          (not admin or (result.get('admin_rc') == 0 and
                         '12 passed' in result.get('admin_summary', ''))))
    result['confirmed'] = ok
    print(json.dumps(result, indent=1))
    if ok:
        dst = os.path.join(HERE, 'seeded', sid)
        os.makedirs(dst, exist_ok=True)
        shutil.copy(patch, os.path.join(dst, 'patch.diff'))
        shutil.copy(demo, os.path.join(dst, 'demo.py'))
        readme = os.path.join(src, 'README.md')
        if os.path.exists(readme):
            shutil.copy(readme, os.path.join(dst, 'README.agent.md'))
        meta_path = os.path.join(dst, 'meta.json')
        meta = {}
        if os.path.exists(meta_path):
            meta = json.load(open(meta_path))
        meta.update({
            'id': sid, 'breaks_property': prop,
            'origin': 'independent sub-agent given only the property text '
                      'and a scratch worktree (tools/seed_prompt.md)',
            'confirmation': result,
            'what_i_ran': [
                'demo.py on a clean worktree of /repo HEAD (exit 0)',
                'git apply patch.diff; import socketio; demo.py (exit != 0)',
                'pytest -n 8 without the two admin files: 579 passed'] + (
                    ['the 12 baseline-passing admin tests in a private '
                     'network namespace: 12 passed'] if admin else []),
        })
        meta.setdefault('needs_to_manifest', 'see README.agent.md')
        json.dump(meta, open(meta_path, 'w'), indent=1)
    sys.exit(0 if ok else 1)


if __name__ == '__main__':
    main()
