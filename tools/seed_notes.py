#!/venv/bin/python
"""Short descriptions of the independently seeded changes (from the agents'
READMEs), merged into seeded/<id>/meta.json: mechanism, what it needs in order
to manifest, and what (if anything) had to be added to the checks to see it."""
import json
import os

HERE = os.path.dirname(os.path.dirname(os.path.abspath(__file__)))
N = {
 'C01-A': ('decode(): namespace cut with urlsplit().path instead of at the first "?"', 'a namespace containing "#", starting with "//" or containing TAB/CR/LF', None),
 'C01-B': ('encode(): equal byte strings share one attachment (placeholder num = index of first equal blob)', 'a binary payload with two equal bytes leaves; only visible to an independent reading of the wire format (own round trip still works)', None),
 'C02-A': ('_deconstruct_binary_internal rewrites the application payload in place', 'default serializer, bytes nested in a container, the same payload object sent twice (or compared with the object passed to emit)', None),
 'C02-B': ('ack id = len(outstanding callbacks)+1 (client and manager)', 'two callbacks outstanding, the older acknowledged, then another emit with callback', 'C02: overlapping-callback scenario (several emits outstanding, answers out of order, further emit meanwhile); C06/C09 caught it unchanged'),
 'C03-A': ('get_participants fast path: a room named like a connected sid yields only that client', 'another client entered a room named after a live sid, then emit(to=sid) / close_room(sid)', None),
 'C03-B': ('get_participants iterates the live room instead of a copy', 'a member of the addressed room is found dead (ping timeout) by the emit itself, or membership changes from another thread during the emit', 'C03: new terminating cause "client found dead by the send" (back-dated last ping); emit must not raise and every other member receives once'),
 'C04-A': ('disconnect() re-resolves the session by (transport, namespace) after its DISCONNECT write', 'asyncio only: disconnect(S1) parked in its write while the client DISCONNECTs and re-CONNECTs the namespace (fresh S2 torn down with reason "server disconnect")', 'C04 part (b) built: await-point interleaving explorer with a per-sid cause/reason oracle'),
 'C04-B': ('refusal rollback guarded by is_connected()', 'always_connect=True and a refusing connect handler: the refused sid keeps its rooms', None),
 'C05-A': ('_handle_event gate: "sid is None" instead of is_connected() (pending disconnects ignored)', 'an event processed while its client\'s disconnect is in progress (handler suspended / blocked)', 'C05: racing-event scenarios (asyncio via the C04 explorer, threaded with a blocked disconnect handler in another thread)'),
 'C05-B': ('AsyncNamespace.trigger_event refactor loses the return value of plain (non-coroutine) methods', 'AsyncServer + class-based namespace + plain def on_<event> + ack id + non-None return', None),
 'C06-A': ('server ack id = len(outstanding)+1', 'two outstanding, older acknowledged, new emit with callback', None),
 'C06-B': ('trigger_callback removes the entry after the callback ran (try/finally pop)', 'a duplicate ACK handled while the first callback invocation is still running (other task / thread)', 'C06: duplicate-ACK race op (concurrent receives, awaiting / sleeping callback)'),
 'C07-A': ('_handle_callback: "if sid and id and args" drops empty acknowledgements', 'emit with callback to a client on another host that acknowledges with no arguments', 'C07: acknowledgements with no / falsy arguments'),
 'C07-B': ('pubsub emit to a locally connected sid skips the channel', 'a client on another host is a member of the local client\'s personal room; emit(to=sid) issued on the owning host', None),
 'C08-A': ('callbacks / partial packet reset only "if self.connected" in _handle_eio_disconnect', 'connection ends while connected is already False (server ended last namespace, failed connect), then a new connect() on the same object and an ACK with a reused id', 'C08: no-survivor probes after every successful connect()'),
 'C08-B': ('self.namespaces = {} moved after eio.connect()', 'threaded client: the read-loop thread handles the CONNECT answers before eio.connect() returns', 'client harness: schedule choice "read loop before connect() returns" (eager_after_connect)'),
 'C09-A': ('client _handle_ack pops the callback after invoking it', 'duplicate ACK dispatched while the first callback is still running (task / thread per message)', 'C09: duplicate-ACK race op'),
 'C09-B': ('client ack id = len(outstanding)+1', 'emit a, emit b, ACK(a), emit c', None),
 'C10-A': ('public disconnect() also sets _reconnect_abort; connect() calls disconnect() on a late namespace', 'a namespace-level refusal during a reconnection attempt ends the whole effort', None),
 'C10-B': ('cap applied only to doubled delays, not to the initial reconnection_delay', 'reconnection_delay > reconnection_delay_max', None),
 'C11-A': ('BaseManager.connect enters the personal room before the namespace room', 'duplicate CONNECT to a namespace on one transport, then the client leaves: ghost personal room', None),
 'C11-B': ('_handle_eio_disconnect re-raises a disconnect-handler exception before deleting environ / partial packet', 'disconnect handler raises AND the cause is transport loss', None),
 'C12-A': ('decode() validates placeholder numbers with list(range(declared count))', 'a binary header declaring a huge attachment count: allocation proportional to the number declared', None),
 'C12-B': ('namespace validated with a regex that backtracks exponentially', 'a namespace field with a run of >= ~22 allowed characters followed by a disallowed one: the whole server stalls (only timing shows it)', 'C12: CPU-time budget per offender frame (ITIMER_VIRTUAL, check runs in the main thread) + graded long-run frames'),
 'C13-A': ('client _get_event_handler: "elif" instead of "if handler is None" (revert of fix def411c)', 'namespace has an unrelated handler, event only registered under the catch-all namespace', None),
 'C13-B': ('server _get_event_handler hoists "args = (namespace, *args)": class-based fallback gets a spurious leading namespace', 'a non-matching "*"-namespace function handler exists and a class-based namespace is the rightful target', None),
 'C14-A': ('AsyncNamespace.trigger_event returns not_handled for a missing method (threaded twin returns None)', 'class-based namespace, event without method, ack id', None),
 'C14-B': ('AsyncServer only treats bytes frames as attachments', 'a text frame while a binary attachment of the same client is outstanding', None),
 'C15-A': ('listen generator created once outside the restart loop', 'the backend listen iterator raises (then the listener ends for good)', None),
 'C15-B': ('AsyncManager.trigger_callback no longer swallows CancelledError', 'a coroutine callback completed through the channel raises CancelledError (awaited a cancelled task)', 'C15: application callbacks that raise, incl. CancelledError on asyncio'),
 'C16-A': ('save_session merges into the stored dict', 'a second save whose dict lacks a key of the stored one', None),
 'C16-B': ('threaded server resets the namespace session on every CONNECT, before the duplicate check', 'duplicate CONNECT for an already connected namespace after a session was saved', 'C16: duplicate CONNECT op followed by a session read'),
 'C17-A': ('call() helpers forward "timeout or self.call_timeout"', 'an explicit falsy timeout (0)', None),
 'C17-B': ('decorator makes namespace keyword-only on 27 helpers', 'namespace (or a later argument) passed positionally', None),
 'C18-A': ('credentials frozen into frozenset(items()); payloads with unhashable values raise TypeError', 'nested / list-valued auth payload: neither CONNECT nor CONNECT_ERROR, the session stays a member', None),
 'C18-B': ('admin _trigger_event wrapper swallows ConnectionRefusedError of application connect handlers', 'development mode + application connect handler refusing with custom arguments: refusal data lost', None),
 'C19-A': ('input_event.clear() moved before the wait', 'an arrival between the emptiness check and the wait (lost wake-up)', None),
 'C19-B': ('SimpleClient.connect() resets the buffer after the handshake', 'events dispatched while the application is still inside connect()', 'C19: connect-time arrivals scenario'),
 'C20-A': ('pre_disconnect: is_connected() test outside the lock', 'two threads both pass the test before either marks', None),
 'C20-B': ('basic_disconnect releases the pending mark before leaving the rooms', 'a second terminating action in exactly that window', None),
 # ---- second round (agents were told what had been used before) ----
 'C01-C': ('attachment buffer became a class-level (shared) list, cleared on completion', 'two binary packets reassembled at the same time (interleaved hand-back), or one abandoned half-way', 'C01: interleaved reassembly of 2-4 packets, one optionally abandoned (C05 caught it unchanged)'),
 'C01-D': ('"<n>-" omitted for binary-typed packets with zero attachments', 'Packet(binary=True) without bytes; only an independent reading of the wire format sees it', None),
 'C02-C': ('client: _binary_packet reset after the handler instead of before (try/finally refactor)', 'a binary event/ack whose handler is still running when the next frame is dispatched (task/thread per message)', 'C02: overlapping-callback scenario now carries byte strings (C09 catches it too)'),
 'C02-D': ('"too many attachments" guard compares the count (>10) instead of the digits', 'a message with 11 or more bytes leaves', None),
 'C03-C': ('basic_disconnect leaves the namespace room last (re-uses get_rooms)', 'threaded: enter_room(sid) from another thread while sid is being disconnected', 'C03: room join racing a disconnect under the controlled scheduler (this also exposed a genuine, narrower race of the pinned tree: known finding room-join-races-disconnect)'),
 'C03-D': ('refusal rollback moved into the non-always_connect branch', 'always_connect=True and a refusing connect handler: refused client stays in its rooms', 'C03: histories now contain connections refused by the connect handler (C04 and C11 caught it unchanged)'),
 'C04-C': ('basic_disconnect drops the whole pending list when called for a non-pending sid', 'asyncio: S1 disconnect suspended, another transport\'s CONNECT refused (rollback), second cause hits S1', 'C04 part (b): refused-other-transport actor'),
 'C04-D': ('pre_disconnect idempotent + is_connected pre-check dropped in _handle_disconnect (each harmless alone)', 'a second cause while the first is suspended in its handler / DISCONNECT write', None),
 'C05-C': ('server: _binary_packet entry deleted after the dispatch', 'a binary event whose dispatch raises (async_handlers off), then further events of that client', 'C05: handler-fault recovery scenario'),
 'C05-D': ('_get_event_handler hoists the namespace prefix (same idea as C13-B)', 'a non-matching function handler under the "*" namespace and a class-based namespace as target', 'C05: configurations with a specific handler under the "*" namespace (C13 caught it unchanged)'),
 'C06-C': ('call() timeout discards the callback and, if none is left, the client\'s whole callbacks dict (id counter restarts)', 'call() times out, another call/emit-with-callback, late ACK of the first arrives first', None),
 'C06-D': ('call() returns "result or None"', 'an ACK carrying exactly one falsy value', None),
 'C07-C': ('_handle_disconnect also pops callbacks[sid]', 'ack relay on the channel, the issuing host handles a disconnect request for that sid before consuming the relay', 'C07: ack-then-disconnect op (disconnect via the issuing or a third host while the acknowledgement is in flight)'),
 'C07-D': ('get_participants: one try/except around the whole union', 'emit to a list of rooms on a host that has no member of an earlier listed room', None),
 'C08-C': ('connect(): re-check of the namespace table after a timed-out wait dropped', 'the connect handler of the last accepted namespace runs longer than wait_timeout', 'C08: slow-connect-handler scenario (virtual time on asyncio, real threads + real Event on the threaded client)'),
 'C08-D': ('_handle_error clears connected whenever the namespace table is empty', 'wait=False, a non-default namespace refused before any acceptance, another accepted later', None),
 'C09-C': ('client: _binary_packet reset after the dispatch', 'binary handler still running / raising when the next packet is dispatched', 'C09: binary handler fault / overlap recovery'),
 'C09-D': ('client _get_event_handler elif (same as C13-A)', 'handler under the "*" namespace is the rightful target, the namespace has other handlers', 'C09: a specific handler under the "*" namespace (C13 caught it unchanged)'),
 'C10-C': ('_handle_eio_disconnect resets namespaces only "if self.connected"', 'transport lost inside the connect handler of a reconnection attempt (after the acknowledgements, before connect() returns)', 'C10: fault mode H (loss inside the connect handler of an attempt)'),
 'C10-D': ('_reconnect_task cleared whenever will_reconnect is False', 'namespace-level refusal during an attempt, then shutdown() in a later back-off (or a loss during a later handshake)', None),
 'C11-C': ('pre_disconnect appends to the pending list before knowing the sid is connected', 'always_connect=True, transport ends while the connect handler runs, handler then refuses, nobody else in the namespace', 'C11: refusal-race scenario (transport ends while the connect handler is suspended / blocked)'),
 'C11-D': ('Server.disconnect passes its ignore_queue argument through', 'message-queue manager + sio.disconnect(sid) on the owning host', 'C11: a quarter of the cases run on a pub/sub manager (C07 caught it unchanged); exposed the known finding pubsub-callback-for-departed-client-never-freed'),
 'C12-C': ('msgpack decoding through one shared class-level Unpacker', 'a frame that is not exactly one msgpack document, then a frame of another client', None),
 'C12-D': ('is_connected() simplified to "sid in rooms[namespace]" (None is a room name)', 'event for a namespace the sender never joined while somebody else is in it: handler runs with sid None', 'C12: a handler may only run on behalf of a session of the sender (C05 caught it unchanged)'),
 'C13-C': ('AsyncClient._trigger_event: CancelledError branch falls through to the class-based namespace', 'coroutine function handler that ends in CancelledError + class-based namespace implementing the event', 'C13: cancelled coroutine handlers'),
 'C13-D': ('server reserved_events gains connect_error', 'a client event literally named connect_error whose rightful target is a catch-all', 'C13: connect_error as an ordinary event name on servers'),
 'C14-C': ('AsyncClient._handle_disconnect bookkeeping in try/finally (threaded twin unchanged)', 'server DISCONNECT + application disconnect handler raises', None),
 'C14-D': ('AsyncPubSubManager.emit publishes before delivering locally', 'a fault in one half of the emit (unserialisable payload / publish fails)', 'C14 (P): emits whose local delivery or publication fails'),
 'C15-C': ('Redis _listen: unsubscribe moved into try/finally', 'asyncio: a payload forcing a restart; the abandoned generator is closed late and cancels the new subscription', 'C15: bundled Redis managers end to end on a fake broker that honours subscriptions'),
 'C15-D': ('Redis retry loop keeps listening on a local copy of the pubsub object', 'one dropped broker connection (the dead object keeps failing)', 'C15: fake connections stay dead once dropped'),
 'C16-C': ('get_session uses .get instead of .setdefault', 'never-saved session + two overlapping session() blocks', 'C16: nested session() blocks'),
 'C16-D': ('session() restores an entry-time snapshot when the block raises', 'a session() block left through an exception after a modification', 'C16: session() blocks left by an exception'),
 'C17-C': ('register_namespace stores the object before binding it', 'threaded: a CONNECT/event for that namespace handled between the two statements', 'C17: invariant hook on the registry (object must be bound when it becomes reachable)'),
 'C17-D': ('ClientNamespace.disconnect guarded by client.connected', 'helper called before connect() has finished (e.g. from on_connect)', None),
 'C18-C': ('admin _trigger_event: timestamp recorded after the connect handler', 'transport closes while the connect handler is blocked: KeyError in the disconnect branch, application disconnect handler skipped', None),
 'C18-D': ('admin _basic_leave_room indexes rooms[namespace][room] unprotected', 'application leave_room() for a room without members', None),
 'C19-C': ('disconnect handler also sets connected=False', 'temporary loss between connected_event.wait() returning and the read of self.connected', None),
 'C19-D': ('connection check factored into _wait_connected(): receive() loses its buffer re-check', 'event + final disconnection delivered before receive() reads connected', None),
 'C20-C': ('_handle_eio_disconnect iterates the live namespace view with a manager call per step', 'transport loss pre-empted while another thread removes the last member of a sibling namespace', None),
 'C20-D': ('is_connected rebuilt on eio_sid_from_sid (check-then-read on a half-dismantled table)', 'late thread evaluates is_connected while the winner is between two basic_leave_room calls', None),
}



def main():
    for sid, (mech, needs, added) in sorted(N.items()):
        mp = os.path.join(HERE, 'seeded', sid, 'meta.json')
        if not os.path.exists(mp):
            print('missing', sid)
            continue
        m = json.load(open(mp))
        m['mechanism'] = mech
        m['needs_to_manifest'] = needs
        m['added_to_checks'] = added or 'nothing: caught by the check as it was'
        json.dump(m, open(mp, 'w'), indent=1)


if __name__ == '__main__':
    main()
