#!/venv/bin/python
"""Short descriptions of the independently seeded changes (from the agents'
READMEs), merged into seeded/<id>/meta.json: mechanism, what it needs in order
to manifest, and what (if anything) had to be added to the checks to see it."""
import json
import os

HERE = os.path.dirname(os.path.dirname(os.path.abspath(__file__)))
N = {
 'C01-A': ('decode(): namespace cut with urlsplit().path instead of at the first "?"', 'a namespace containing "#", starting with "//" or containing TAB/CR/LF', None),
 'C01-B': ('encode(): equal byte strings share one attachment (placeholder num = index of first equal blob)', 'a binary payload with two equal bytes leaves; only visible to an independent reading of the wire format (own round trip still works)', None),
 'C02-A': ('_deconstruct_binary_internal rewrites the application payload in place', 'default serializer, bytes nested in a container, the same payload object sent twice (or compared with the object passed to emit)', None),
 'C02-B': ('ack id = len(outstanding callbacks)+1 (client and manager)', 'two callbacks outstanding, the older acknowledged, then another emit with callback', 'C02: overlapping-callback scenario (several emits outstanding, answers out of order, further emit meanwhile); C06/C09 caught it unchanged'),
 'C03-A': ('get_participants fast path: a room named like a connected sid yields only that client', 'another client entered a room named after a live sid, then emit(to=sid) / close_room(sid)', None),
 'C03-B': ('get_participants iterates the live room instead of a copy', 'a member of the addressed room is found dead (ping timeout) by the emit itself, or membership changes from another thread during the emit', 'C03: new terminating cause "client found dead by the send" (back-dated last ping); emit must not raise and every other member receives once'),
 'C04-A': ('disconnect() re-resolves the session by (transport, namespace) after its DISCONNECT write', 'asyncio only: disconnect(S1) parked in its write while the client DISCONNECTs and re-CONNECTs the namespace (fresh S2 torn down with reason "server disconnect")', 'C04 part (b) built: await-point interleaving explorer with a per-sid cause/reason oracle'),
 'C04-B': ('refusal rollback guarded by is_connected()', 'always_connect=True and a refusing connect handler: the refused sid keeps its rooms', None),
 'C05-A': ('_handle_event gate: "sid is None" instead of is_connected() (pending disconnects ignored)', 'an event processed while its client\'s disconnect is in progress (handler suspended / blocked)', 'C05: racing-event scenarios (asyncio via the C04 explorer, threaded with a blocked disconnect handler in another thread)'),
 'C05-B': ('AsyncNamespace.trigger_event refactor loses the return value of plain (non-coroutine) methods', 'AsyncServer + class-based namespace + plain def on_<event> + ack id + non-None return', None),
 'C06-A': ('server ack id = len(outstanding)+1', 'two outstanding, older acknowledged, new emit with callback', None),
 'C06-B': ('trigger_callback removes the entry after the callback ran (try/finally pop)', 'a duplicate ACK handled while the first callback invocation is still running (other task / thread)', 'C06: duplicate-ACK race op (concurrent receives, awaiting / sleeping callback)'),
 'C07-A': ('_handle_callback: "if sid and id and args" drops empty acknowledgements', 'emit with callback to a client on another host that acknowledges with no arguments', 'C07: acknowledgements with no / falsy arguments'),
 'C07-B': ('pubsub emit to a locally connected sid skips the channel', 'a client on another host is a member of the local client\'s personal room; emit(to=sid) issued on the owning host', None),
 'C08-A': ('callbacks / partial packet reset only "if self.connected" in _handle_eio_disconnect', 'connection ends while connected is already False (server ended last namespace, failed connect), then a new connect() on the same object and an ACK with a reused id', 'C08: no-survivor probes after every successful connect()'),
 'C08-B': ('self.namespaces = {} moved after eio.connect()', 'threaded client: the read-loop thread handles the CONNECT answers before eio.connect() returns', 'client harness: schedule choice "read loop before connect() returns" (eager_after_connect)'),
 'C09-A': ('client _handle_ack pops the callback after invoking it', 'duplicate ACK dispatched while the first callback is still running (task / thread per message)', 'C09: duplicate-ACK race op'),
 'C09-B': ('client ack id = len(outstanding)+1', 'emit a, emit b, ACK(a), emit c', None),
 'C10-A': ('public disconnect() also sets _reconnect_abort; connect() calls disconnect() on a late namespace', 'a namespace-level refusal during a reconnection attempt ends the whole effort', None),
 'C10-B': ('cap applied only to doubled delays, not to the initial reconnection_delay', 'reconnection_delay > reconnection_delay_max', None),
 'C11-A': ('BaseManager.connect enters the personal room before the namespace room', 'duplicate CONNECT to a namespace on one transport, then the client leaves: ghost personal room', None),
 'C11-B': ('_handle_eio_disconnect re-raises a disconnect-handler exception before deleting environ / partial packet', 'disconnect handler raises AND the cause is transport loss', None),
 'C12-A': ('decode() validates placeholder numbers with list(range(declared count))', 'a binary header declaring a huge attachment count: allocation proportional to the number declared', None),
 'C12-B': ('namespace validated with a regex that backtracks exponentially', 'a namespace field with a run of >= ~22 allowed characters followed by a disallowed one: the whole server stalls (only timing shows it)', 'C12: CPU-time budget per offender frame (ITIMER_VIRTUAL, check runs in the main thread) + graded long-run frames'),
 'C13-A': ('client _get_event_handler: "elif" instead of "if handler is None" (revert of fix def411c)', 'namespace has an unrelated handler, event only registered under the catch-all namespace', None),
 'C13-B': ('server _get_event_handler hoists "args = (namespace, *args)": class-based fallback gets a spurious leading namespace', 'a non-matching "*"-namespace function handler exists and a class-based namespace is the rightful target', None),
 'C14-A': ('AsyncNamespace.trigger_event returns not_handled for a missing method (threaded twin returns None)', 'class-based namespace, event without method, ack id', None),
 'C14-B': ('AsyncServer only treats bytes frames as attachments', 'a text frame while a binary attachment of the same client is outstanding', None),
 'C15-A': ('listen generator created once outside the restart loop', 'the backend listen iterator raises (then the listener ends for good)', None),
 'C15-B': ('AsyncManager.trigger_callback no longer swallows CancelledError', 'a coroutine callback completed through the channel raises CancelledError (awaited a cancelled task)', 'C15: application callbacks that raise, incl. CancelledError on asyncio'),
 'C16-A': ('save_session merges into the stored dict', 'a second save whose dict lacks a key of the stored one', None),
 'C16-B': ('threaded server resets the namespace session on every CONNECT, before the duplicate check', 'duplicate CONNECT for an already connected namespace after a session was saved', 'C16: duplicate CONNECT op followed by a session read'),
 'C17-A': ('call() helpers forward "timeout or self.call_timeout"', 'an explicit falsy timeout (0)', None),
 'C17-B': ('decorator makes namespace keyword-only on 27 helpers', 'namespace (or a later argument) passed positionally', None),
 'C18-A': ('credentials frozen into frozenset(items()); payloads with unhashable values raise TypeError', 'nested / list-valued auth payload: neither CONNECT nor CONNECT_ERROR, the session stays a member', None),
 'C18-B': ('admin _trigger_event wrapper swallows ConnectionRefusedError of application connect handlers', 'development mode + application connect handler refusing with custom arguments: refusal data lost', None),
 'C19-A': ('input_event.clear() moved before the wait', 'an arrival between the emptiness check and the wait (lost wake-up)', None),
 'C19-B': ('SimpleClient.connect() resets the buffer after the handshake', 'events dispatched while the application is still inside connect()', 'C19: connect-time arrivals scenario'),
 'C20-A': ('pre_disconnect: is_connected() test outside the lock', 'two threads both pass the test before either marks', None),
 'C20-B': ('basic_disconnect releases the pending mark before leaving the rooms', 'a second terminating action in exactly that window', None),
}


def main():
    for sid, (mech, needs, added) in sorted(N.items()):
        mp = os.path.join(HERE, 'seeded', sid, 'meta.json')
        if not os.path.exists(mp):
            print('missing', sid)
            continue
        m = json.load(open(mp))
        m['mechanism'] = mech
        m['needs_to_manifest'] = needs
        m['added_to_checks'] = added or 'nothing: caught by the check as it was'
        json.dump(m, open(mp, 'w'), indent=1)


if __name__ == '__main__':
    main()
