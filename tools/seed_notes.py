#!/venv/bin/python
"""Short descriptions of the independently seeded changes (from the agents'
READMEs), merged into seeded/<id>/meta.json: mechanism, what it needs in order
to manifest, and what (if anything) had to be added to the checks to see it."""
import json
import os

HERE = os.path.dirname(os.path.dirname(os.path.abspath(__file__)))
N = {
 'C01-A': ('decode(): namespace cut with urlsplit().path instead of at the first "?"', 'a namespace containing "#", starting with "//" or containing TAB/CR/LF', None),
 'C01-B': ('encode(): equal byte strings share one attachment (placeholder num = index of first equal blob)', 'a binary payload with two equal bytes leaves; only visible to an independent reading of the wire format (own round trip still works)', None),
 'C02-A': ('_deconstruct_binary_internal rewrites the application payload in place', 'default serializer, bytes nested in a container, the same payload object sent twice (or compared with the object passed to emit)', None),
 'C02-B': ('ack id = len(outstanding callbacks)+1 (client and manager)', 'two callbacks outstanding, the older acknowledged, then another emit with callback', 'C02: overlapping-callback scenario (several emits outstanding, answers out of order, further emit meanwhile); C06/C09 caught it unchanged'),
 'C03-A': ('get_participants fast path: a room named like a connected sid yields only that client', 'another client entered a room named after a live sid, then emit(to=sid) / close_room(sid)', None),
 'C03-B': ('get_participants iterates the live room instead of a copy', 'a member of the addressed room is found dead (ping timeout) by the emit itself, or membership changes from another thread during the emit', 'C03: new terminating cause "client found dead by the send" (back-dated last ping); emit must not raise and every other member receives once'),
 'C04-A': ('disconnect() re-resolves the session by (transport, namespace) after its DISCONNECT write', 'asyncio only: disconnect(S1) parked in its write while the client DISCONNECTs and re-CONNECTs the namespace (fresh S2 torn down with reason "server disconnect")', 'C04 part (b) built: await-point interleaving explorer with a per-sid cause/reason oracle'),
 'C04-B': ('refusal rollback guarded by is_connected()', 'always_connect=True and a refusing connect handler: the refused sid keeps its rooms', None),
 'C05-A': ('_handle_event gate: "sid is None" instead of is_connected() (pending disconnects ignored)', 'an event processed while its client\'s disconnect is in progress (handler suspended / blocked)', 'C05: racing-event scenarios (asyncio via the C04 explorer, threaded with a blocked disconnect handler in another thread)'),
 'C05-B': ('AsyncNamespace.trigger_event refactor loses the return value of plain (non-coroutine) methods', 'AsyncServer + class-based namespace + plain def on_<event> + ack id + non-None return', None),
 'C06-A': ('server ack id = len(outstanding)+1', 'two outstanding, older acknowledged, new emit with callback', None),
 'C06-B': ('trigger_callback removes the entry after the callback ran (try/finally pop)', 'a duplicate ACK handled while the first callback invocation is still running (other task / thread)', 'C06: duplicate-ACK race op (concurrent receives, awaiting / sleeping callback)'),
 'C07-A': ('_handle_callback: "if sid and id and args" drops empty acknowledgements', 'emit with callback to a client on another host that acknowledges with no arguments', 'C07: acknowledgements with no / falsy arguments'),
 'C07-B': ('pubsub emit to a locally connected sid skips the channel', 'a client on another host is a member of the local client\'s personal room; emit(to=sid) issued on the owning host', None),
 'C08-A': ('callbacks / partial packet reset only "if self.connected" in _handle_eio_disconnect', 'connection ends while connected is already False (server ended last namespace, failed connect), then a new connect() on the same object and an ACK with a reused id', 'C08: no-survivor probes after every successful connect()'),
 'C08-B': ('self.namespaces = {} moved after eio.connect()', 'threaded client: the read-loop thread handles the CONNECT answers before eio.connect() returns', 'client harness: schedule choice "read loop before connect() returns" (eager_after_connect)'),
 'C09-A': ('client _handle_ack pops the callback after invoking it', 'duplicate ACK dispatched while the first callback is still running (task / thread per message)', 'C09: duplicate-ACK race op'),
 'C09-B': ('client ack id = len(outstanding)+1', 'emit a, emit b, ACK(a), emit c', None),
 'C10-A': ('public disconnect() also sets _reconnect_abort; connect() calls disconnect() on a late namespace', 'a namespace-level refusal during a reconnection attempt ends the whole effort', None),
 'C10-B': ('cap applied only to doubled delays, not to the initial reconnection_delay', 'reconnection_delay > reconnection_delay_max', None),
 'C11-A': ('BaseManager.connect enters the personal room before the namespace room', 'duplicate CONNECT to a namespace on one transport, then the client leaves: ghost personal room', None),
 'C11-B': ('_handle_eio_disconnect re-raises a disconnect-handler exception before deleting environ / partial packet', 'disconnect handler raises AND the cause is transport loss', None),
 'C12-A': ('decode() validates placeholder numbers with list(range(declared count))', 'a binary header declaring a huge attachment count: allocation proportional to the number declared', None),
 'C12-B': ('namespace validated with a regex that backtracks exponentially', 'a namespace field with a run of >= ~22 allowed characters followed by a disallowed one: the whole server stalls (only timing shows it)', 'C12: CPU-time budget per offender frame (ITIMER_VIRTUAL, check runs in the main thread) + graded long-run frames'),
 'C13-A': ('client _get_event_handler: "elif" instead of "if handler is None" (revert of fix def411c)', 'namespace has an unrelated handler, event only registered under the catch-all namespace', None),
 'C13-B': ('server _get_event_handler hoists "args = (namespace, *args)": class-based fallback gets a spurious leading namespace', 'a non-matching "*"-namespace function handler exists and a class-based namespace is the rightful target', None),
 'C14-A': ('AsyncNamespace.trigger_event returns not_handled for a missing method (threaded twin returns None)', 'class-based namespace, event without method, ack id', None),
 'C14-B': ('AsyncServer only treats bytes frames as attachments', 'a text frame while a binary attachment of the same client is outstanding', None),
 'C15-A': ('listen generator created once outside the restart loop', 'the backend listen iterator raises (then the listener ends for good)', None),
 'C15-B': ('AsyncManager.trigger_callback no longer swallows CancelledError', 'a coroutine callback completed through the channel raises CancelledError (awaited a cancelled task)', 'C15: application callbacks that raise, incl. CancelledError on asyncio'),
 'C16-A': ('save_session merges into the stored dict', 'a second save whose dict lacks a key of the stored one', None),
 'C16-B': ('threaded server resets the namespace session on every CONNECT, before the duplicate check', 'duplicate CONNECT for an already connected namespace after a session was saved', 'C16: duplicate CONNECT op followed by a session read'),
 'C17-A': ('call() helpers forward "timeout or self.call_timeout"', 'an explicit falsy timeout (0)', None),
 'C17-B': ('decorator makes namespace keyword-only on 27 helpers', 'namespace (or a later argument) passed positionally', None),
 'C18-A': ('credentials frozen into frozenset(items()); payloads with unhashable values raise TypeError', 'nested / list-valued auth payload: neither CONNECT nor CONNECT_ERROR, the session stays a member', None),
 'C18-B': ('admin _trigger_event wrapper swallows ConnectionRefusedError of application connect handlers', 'development mode + application connect handler refusing with custom arguments: refusal data lost', None),
 'C19-A': ('input_event.clear() moved before the wait', 'an arrival between the emptiness check and the wait (lost wake-up)', None),
 'C19-B': ('SimpleClient.connect() resets the buffer after the handshake', 'events dispatched while the application is still inside connect()', 'C19: connect-time arrivals scenario'),
 'C20-A': ('pre_disconnect: is_connected() test outside the lock', 'two threads both pass the test before either marks', None),
 'C20-B': ('basic_disconnect releases the pending mark before leaving the rooms', 'a second terminating action in exactly that window', None),
 # ---- second round (agents were told what had been used before) ----
 'C01-C': ('attachment buffer became a class-level (shared) list, cleared on completion', 'two binary packets reassembled at the same time (interleaved hand-back), or one abandoned half-way', 'C01: interleaved reassembly of 2-4 packets, one optionally abandoned (C05 caught it unchanged)'),
 'C01-D': ('"<n>-" omitted for binary-typed packets with zero attachments', 'Packet(binary=True) without bytes; only an independent reading of the wire format sees it', None),
 'C02-C': ('client: _binary_packet reset after the handler instead of before (try/finally refactor)', 'a binary event/ack whose handler is still running when the next frame is dispatched (task/thread per message)', 'C02: overlapping-callback scenario now carries byte strings (C09 catches it too)'),
 'C02-D': ('"too many attachments" guard compares the count (>10) instead of the digits', 'a message with 11 or more bytes leaves', None),
 'C03-C': ('basic_disconnect leaves the namespace room last (re-uses get_rooms)', 'threaded: enter_room(sid) from another thread while sid is being disconnected', 'C03: room join racing a disconnect under the controlled scheduler (this also exposed a genuine, narrower race of the pinned tree: known finding room-join-races-disconnect)'),
 'C03-D': ('refusal rollback moved into the non-always_connect branch', 'always_connect=True and a refusing connect handler: refused client stays in its rooms', 'C03: histories now contain connections refused by the connect handler (C04 and C11 caught it unchanged)'),
 'C04-C': ('basic_disconnect drops the whole pending list when called for a non-pending sid', 'asyncio: S1 disconnect suspended, another transport\'s CONNECT refused (rollback), second cause hits S1', 'C04 part (b): refused-other-transport actor'),
 'C04-D': ('pre_disconnect idempotent + is_connected pre-check dropped in _handle_disconnect (each harmless alone)', 'a second cause while the first is suspended in its handler / DISCONNECT write', None),
 'C05-C': ('server: _binary_packet entry deleted after the dispatch', 'a binary event whose dispatch raises (async_handlers off), then further events of that client', 'C05: handler-fault recovery scenario'),
 'C05-D': ('_get_event_handler hoists the namespace prefix (same idea as C13-B)', 'a non-matching function handler under the "*" namespace and a class-based namespace as target', 'C05: configurations with a specific handler under the "*" namespace (C13 caught it unchanged)'),
 'C06-C': ('call() timeout discards the callback and, if none is left, the client\'s whole callbacks dict (id counter restarts)', 'call() times out, another call/emit-with-callback, late ACK of the first arrives first', None),
 'C06-D': ('call() returns "result or None"', 'an ACK carrying exactly one falsy value', None),
 'C07-C': ('_handle_disconnect also pops callbacks[sid]', 'ack relay on the channel, the issuing host handles a disconnect request for that sid before consuming the relay', 'C07: ack-then-disconnect op (disconnect via the issuing or a third host while the acknowledgement is in flight)'),
 'C07-D': ('get_participants: one try/except around the whole union', 'emit to a list of rooms on a host that has no member of an earlier listed room', None),
 'C08-C': ('connect(): re-check of the namespace table after a timed-out wait dropped', 'the connect handler of the last accepted namespace runs longer than wait_timeout', 'C08: slow-connect-handler scenario (virtual time on asyncio, real threads + real Event on the threaded client)'),
 'C08-D': ('_handle_error clears connected whenever the namespace table is empty', 'wait=False, a non-default namespace refused before any acceptance, another accepted later', None),
 'C09-C': ('client: _binary_packet reset after the dispatch', 'binary handler still running / raising when the next packet is dispatched', 'C09: binary handler fault / overlap recovery'),
 'C09-D': ('client _get_event_handler elif (same as C13-A)', 'handler under the "*" namespace is the rightful target, the namespace has other handlers', 'C09: a specific handler under the "*" namespace (C13 caught it unchanged)'),
 'C10-C': ('_handle_eio_disconnect resets namespaces only "if self.connected"', 'transport lost inside the connect handler of a reconnection attempt (after the acknowledgements, before connect() returns)', 'C10: fault mode H (loss inside the connect handler of an attempt)'),
 'C10-D': ('_reconnect_task cleared whenever will_reconnect is False', 'namespace-level refusal during an attempt, then shutdown() in a later back-off (or a loss during a later handshake)', None),
 'C11-C': ('pre_disconnect appends to the pending list before knowing the sid is connected', 'always_connect=True, transport ends while the connect handler runs, handler then refuses, nobody else in the namespace', 'C11: refusal-race scenario (transport ends while the connect handler is suspended / blocked)'),
 'C11-D': ('Server.disconnect passes its ignore_queue argument through', 'message-queue manager + sio.disconnect(sid) on the owning host', 'C11: a quarter of the cases run on a pub/sub manager (C07 caught it unchanged); exposed the known finding pubsub-callback-for-departed-client-never-freed'),
 'C12-C': ('msgpack decoding through one shared class-level Unpacker', 'a frame that is not exactly one msgpack document, then a frame of another client', None),
 'C12-D': ('is_connected() simplified to "sid in rooms[namespace]" (None is a room name)', 'event for a namespace the sender never joined while somebody else is in it: handler runs with sid None', 'C12: a handler may only run on behalf of a session of the sender (C05 caught it unchanged)'),
 'C13-C': ('AsyncClient._trigger_event: CancelledError branch falls through to the class-based namespace', 'coroutine function handler that ends in CancelledError + class-based namespace implementing the event', 'C13: cancelled coroutine handlers'),
 'C13-D': ('server reserved_events gains connect_error', 'a client event literally named connect_error whose rightful target is a catch-all', 'C13: connect_error as an ordinary event name on servers'),
 'C14-C': ('AsyncClient._handle_disconnect bookkeeping in try/finally (threaded twin unchanged)', 'server DISCONNECT + application disconnect handler raises', None),
 'C14-D': ('AsyncPubSubManager.emit publishes before delivering locally', 'a fault in one half of the emit (unserialisable payload / publish fails)', 'C14 (P): emits whose local delivery or publication fails'),
 'C15-C': ('Redis _listen: unsubscribe moved into try/finally', 'asyncio: a payload forcing a restart; the abandoned generator is closed late and cancels the new subscription', 'C15: bundled Redis managers end to end on a fake broker that honours subscriptions'),
 'C15-D': ('Redis retry loop keeps listening on a local copy of the pubsub object', 'one dropped broker connection (the dead object keeps failing)', 'C15: fake connections stay dead once dropped'),
 'C16-C': ('get_session uses .get instead of .setdefault', 'never-saved session + two overlapping session() blocks', 'C16: nested session() blocks'),
 'C16-D': ('session() restores an entry-time snapshot when the block raises', 'a session() block left through an exception after a modification', 'C16: session() blocks left by an exception'),
 'C17-C': ('register_namespace stores the object before binding it', 'threaded: a CONNECT/event for that namespace handled between the two statements', 'C17: invariant hook on the registry (object must be bound when it becomes reachable)'),
 'C17-D': ('ClientNamespace.disconnect guarded by client.connected', 'helper called before connect() has finished (e.g. from on_connect)', None),
 'C18-C': ('admin _trigger_event: timestamp recorded after the connect handler', 'transport closes while the connect handler is blocked: KeyError in the disconnect branch, application disconnect handler skipped', None),
 'C18-D': ('admin _basic_leave_room indexes rooms[namespace][room] unprotected', 'application leave_room() for a room without members', None),
 'C19-C': ('disconnect handler also sets connected=False', 'temporary loss between connected_event.wait() returning and the read of self.connected', None),
 'C19-D': ('connection check factored into _wait_connected(): receive() loses its buffer re-check', 'event + final disconnection delivered before receive() reads connected', None),
 'C20-C': ('_handle_eio_disconnect iterates the live namespace view with a manager call per step', 'transport loss pre-empted while another thread removes the last member of a sibling namespace', None),
 'C20-D': ('is_connected rebuilt on eio_sid_from_sid (check-then-read on a half-dismantled table)', 'late thread evaluates is_connected while the winner is between two basic_leave_room calls', None),
 'C01-E': ('_data_is_binary returns the verdict of the first nested container instead of continuing with the siblings', 'a payload in which a list/dict without bytes precedes the sibling that is or holds the bytes leaf (the packet is not promoted, encode() raises TypeError)', 'C01: an exception from encode() on a well-formed packet is a violation (it was reported as a harness error before)'),
 'C01-F': ('"too many attachments" limits the declared count (> 10) instead of its digits', 'a binary packet with 11 or more bytes leaves', None),
 'C02-E': ('msgpack packets omit a falsy payload', 'msgpack serializer + emit with acknowledgement + handler returning nothing (the empty ACK cannot be decoded)', None),
 'C02-F': ('client _handle_eio_disconnect no longer drops a half-received binary packet', 'default serializer; the connection is lost after the header and before the last attachment of a server message; the same client object connects again (the CONNECT reply is eaten as the attachment)', 'C02: reconnect-after-partial-message op on the bridge (connect() must succeed, no handler sees anything that was not sent, the new connection is as transparent as the first); C08 caught it unchanged'),
 'C03-E': ('basic_enter_room looks the client up with eio_sid_from_sid (None for an unknown sid) instead of indexing the namespace room', 'enter_room() with the session id of a client that has gone while the namespace still has another client: ghost member', None),
 'C03-F': ('disconnect paths use "except Exception: log" + fall-through instead of try/finally around the disconnect handler', 'the disconnect handler ends with a non-Exception (green-thread Timeout / kill): the client stays in its rooms and is still delivered to', 'C03 + C04: scripted failing disconnect handlers (Exception and BaseException subclass)'),
 'C04-E': ('AsyncServer._handle_eio_disconnect: one try/finally around the namespace loop instead of try/except per namespace', 'asyncio, a transport connected to several namespaces is lost and the disconnect handler of an earlier namespace raises: the later namespaces are never ended', 'C04: scripted failing disconnect handlers'),
 'C04-F': ('ConnectionRefusedError drops falsy refusal data from error_args', 'ConnectionRefusedError(msg, x) with falsy x (0, None, "", [], {})', None),
 'C05-E': ('ACK only sent if the client is still connected when the handler returns', 'the handler itself disconnects its client and returns a value; or a DISCONNECT processed while the handler is blocked', 'C05: self-disconnecting handler op (added before the run, from the report)'),
 'C05-F': ('a tuple returned by a handler is handed to the ACK packet as is', 'default serializer, ack id, handler returns a tuple with a bytes member (binary auto-detection does not look into tuples)', None),
 'C06-E': ('the slot of a completed binary packet is released after the dispatch instead of before', 'a BINARY_ACK with attachments whose callback raises or is still running when the next frame of that transport is handled', 'C06: raising application callbacks; duplicate-ACK race with a multi-frame acknowledgement (second copy fed while the first callback runs, event-ordered instead of timed)'),
 'C06-F': ('AsyncServer: manager.disconnect() of a refused connection moved into the non-always_connect branch', 'asyncio + always_connect + connect handler that emits with a callback and then refuses; the client acknowledges afterwards', 'C06: /rej namespace whose connect handler emits with a callback and then accepts / refuses (always_connect on and off)'),
 'C07-E': ('listener skips a message equal to the previous one ("backend redelivery")', 'one host issues the same emit (same event, data, room, skip_sid, no callback) twice in a row', 'C07: identical emits repeated back to back (immediate mode): two deliveries per addressed client'),
 'C07-F': ('manager_initialized set after manager.initialize() instead of before', 'threaded server + message queue: the first connections of a fresh host overlap while the backend connection is being established: two listeners, every remote emit delivered twice', 'C07: fresh-host scenario (checks/c07_init.py) with a backend whose every _listen() call is its own subscription'),
 'C08-E': ('client _handle_disconnect rebuilds self.namespaces from a snapshot taken before the handler ran (lost update)', 'the server ends two namespaces back to back while the first disconnect handler is still running', 'C08: overlapping server DISCONNECTs (added before the run, from the report)'),
 'C09-E': ('client: a tuple returned by a handler is handed to the ACK packet as is', 'default serializer, event with id, handler returns a tuple with a bytes member', None),
 'C09-F': ('client call() collapses the acknowledged arguments with "or None"', 'an ACK with exactly one falsy argument consumed through call()', None),
 'C10-E': ('client sets connected=False before the disconnect handlers only if the namespace table says it is the last one', 'the server disconnects every namespace and the handlers overlap: connected stays True, the transport is never closed by the client, a later loss starts a reconnection', 'C10: cause "server ends every namespace with overlapping handlers, then the server closes the transport"; C08 caught it unchanged'),
 'C10-F': ('a namespace disconnected by the server is dropped from connection_namespaces', 'several namespaces, the server ends one of them, later accidental loss: the retries ask for fewer namespaces', 'C10: namespace ended before the loss (added before the run, from the report)'),
 'C11-E': ('basic_enter_room looks the client up with eio_sid_from_sid', 'enter_room() for a departed sid while another client keeps the namespace alive: entry that nothing removes', None),
 'C11-F': ('basic_disconnect drops the pending-disconnect mark before leaving the rooms instead of after', 'threaded: a second party passes can_disconnect/pre_disconnect in the window; handler twice, sid left in pending_disconnect', 'C11: concurrent terminations of one client (scheduler scenarios of C20, context-bounded) judged with the residue oracle; C20 caught it unchanged'),
 'C12-E': ('event payload check relaxed from list to Sequence', 'an event packet whose payload is a non-empty string: a handler runs with garbage arguments', None),
 'C12-F': ('_reconstruct_binary_internal leaves a placeholder whose index does not exist in place (LookupError swallowed)', 'a complete binary event with a placeholder num >= number of attachments (or < -number)', 'C12: crafted packets "complete binary event with one bad placeholder index": no handler may run'),
 'C13-E': ('threaded client: the legacy-disconnect retry uses the argument list without the catch-all namespace prefix', 'Client + disconnect + function handler of the "*" namespace that takes no reason argument', 'C13: legacy disconnect signatures (added before the run, from the report)'),
 'C13-F': ('server falls back to the "*" class-based namespace when the namespace\'s own class lacks on_<event>', 'own class-based namespace without the method + a "*" class-based namespace', 'C13: independent method flags for the own and the catch-all class (added before the run)'),
 'C14-E': ('AsyncServer accepts CONNECT on any namespace once a catch-all handler exists', 'catch-all handler registered, namespaces option not "*", CONNECT to an unlisted namespace', None),
 'C14-F': ('AsyncClient keeps pending callbacks across an automatic reconnection', 'callback outstanding, accidental loss, reconnection, ACK with the old id', None),
 'C15-E': ('listener restart handler logs the last message (unbound before the first message)', 'the listen iterator fails before it has delivered any message (UnboundLocalError ends the listener)', 'C15: listen failures at position 0 (added before the run, from the report)'),
 'C15-F': ('table-driven dispatch: own-host echoes of enter_room / leave_room are applied again', 'an own-host echo of enter_room/leave_room for a sid connected to this server', 'C15: room view after own-host echoes (added before the run)'),
 'C16-E': ('threaded server discards the namespace\'s user session after manager.disconnect() returned', 'threaded: a re-CONNECT of the namespace on the same transport handled by another thread in that window; the session its connect handler saved is wiped', 'C16: checks/c16_sched.py, re-CONNECT racing the end of the old connection, all schedules with pre-emption at manager calls, engine.io sends and session-store accesses'),
 'C16-F': ('AsyncServer.save_session stores a copy of the dict', 'three session() blocks of one client, the first suspended across the others: its later modifications go to a dict that is no longer the stored one', 'C16: sequential inner blocks inside an outer block (added before the run)'),
 'C17-E': ('Namespace.emit/send/call raise for the catch-all namespace', 'a class-based namespace registered for "*" calling emit() without namespace', 'C17: "*" registration namespace (added before the run)'),
 'C17-F': ('_set_server/_set_client bind only once', 'the same namespace object registered with a second server / client', 'C17: re-registration with a decoy (added before the run)'),
 'C18-E': ('admin _emit wrapper serialises emits with a non-reentrant lock', 'a silently dead client is found by an emit: the disconnect processing inside the emit reports to the admin namespace and blocks on the lock its own thread holds', 'C18: scripts with silently dead clients (back-dated ping) + hang guard (a run that is stuck on the same stack after 40 s while the plain server finished is a violation); this also exposed a genuine defect, fixed in 49a89d8'),
 'C18-F': ('admin serialize_socket reports the namespace\'s user session as "data"', 'admin connected, development mode, a session holding a non-serialisable object, namespace re-connect on the same transport (or a ping cycle)', 'C18: scripts that store a Python object in a session, leave the namespace and come back'),
 'C19-E': ('catch-all handler only signals the empty -> non-empty transition', 'threaded: the application drains the buffer and starts waiting between the handler\'s emptiness test and its append', None),
 'C19-F': ('client _handle_eio_disconnect no longer drops a half-received binary packet (same edit as C02-F, found independently)', 'loss between header and last attachment of an event, reconnection succeeds: receive() returns an event nobody sent', 'C19: loss in the middle of an event with successful reconnection (receive() returns exactly the complete events, in order)'),
 'C20-E': ('server.disconnect() drops the client\'s half-received binary packet with get + del', 'threaded: the transport loss is processed between the get and the del: KeyError after the gate was won, handler never runs, client never removed', 'C20: the per-transport tables (_binary_packet, environ) are pre-emption points; iterative context bounding (all schedules with <= 1 and <= 2 pre-emptions first)'),
 'C20-F': ('the namespace\'s user session is popped from the engine.io session when the namespace is disconnected', 'threaded: the transport loss completes while the first terminating action is between the gate and its finally: eio.get_session raises KeyError', None),
}



def main():
    for sid, (mech, needs, added) in sorted(N.items()):
        mp = os.path.join(HERE, 'seeded', sid, 'meta.json')
        if not os.path.exists(mp):
            print('missing', sid)
            continue
        m = json.load(open(mp))
        m['mechanism'] = mech
        m['needs_to_manifest'] = needs
        m['added_to_checks'] = added or 'nothing: caught by the check as it was'
        json.dump(m, open(mp, 'w'), indent=1)


if __name__ == '__main__':
    main()
