#!/venv/bin/python
"""Regenerate MANIFEST.json from the table below + which checks exist."""
import json
import os

HERE = os.path.dirname(os.path.dirname(os.path.abspath(__file__)))
ALL = ['C%02d' % i for i in range(1, 21)]

TABLE = {
 'C01': dict(cat='exploration',
   text='every generated packet is run through the real Packet.encode/decode and compared with an independent specification-derived codec in both directions; exhaustive over a header-adjacency grid (7 types x namespaces x ids x payload heads), seeded random over payload trees; interleaved reassembly of 2-4 binary packets (one optionally abandoned): each completes on its own last attachment with its own payload; an exception from encode() on a well-formed packet is a violation; encode purity: the same packet encodes to the same frames again and the payload object is left unmodified',
   note='trusts vlib/refcodec.py as the reading of the v5 protocol; bare top-level numbers directly after the id position are unrepresentable in the format itself and are skipped (counted in evidence)',
   tech='runtime monitoring: differential oracle (specification-derived reference codec) over generated inputs'),
 'C03': dict(cat='exploration',
   text='online-generated operation histories against real Server/AsyncServer objects; every emit carries a unique token and its recipient multiset, read off the real engine.io socket queues with an independent decoder, must equal the rooms reference model; rooms() compared after every operation; one terminating cause is the client found dead by the emit itself (back-dated ping: engine.io closes the transport with reason ping timeout from inside the send): the emit must not raise and every other addressed member receives once; threaded server under the controlled scheduler: emit(room) racing with leave/disconnect/loss/enter/close_room by other threads (no exception, untouched members exactly once, touched at most once) and a room join racing the disconnect of the same client; connections refused by the connect handler with and without always_connect; disconnect handlers that fail (Exception, and a BaseException subclass where one handler runs) in 30% of the terminations; disconnect handlers that leave a room and emit to it for the departing client; room-table races (a client removed while others add / remove rooms or connect) under statement-level schedules',
   note='sequential executions; room names truthy non-sequence hashables; operations on a client\'s own personal room are not generated (statement ambiguous there); one known finding (room join racing a disconnect on the threaded server)',
   tech='runtime monitoring: history + executable reference model (rooms as sets), unique tokens, multiset equality'),
 'C05': dict(cat='exploration',
   text='generated histories of EVENT/BINARY_EVENT packets with colliding ids from several clients and namespaces against real Server/AsyncServer; each event carries a unique token; handler invocations (who, sid, args) and ACKs (id, namespace, payload, recipient transport) are accounted for exactly; bursts with pausing handlers check strict arrival order when async_handlers is off; events racing with a disconnect in progress (asyncio: enumerated await-point schedules; threaded: disconnect handler blocked in another thread): an event fed while the client is no longer connected is neither handled nor acknowledged; a handler that disconnects its own client and then returns a value (still exactly one ACK); an event followed at once by the client\'s DISCONNECT / transport end, processed before the handler\'s task or thread gets its first turn (async_handlers on): the handler still runs exactly once',
   note='background handler threads/tasks are joined before judging; client frames produced by the reference codec; engine.io delivers frames in order (trusted)',
   tech='runtime monitoring: token-matched exactly-once accounting over recorded handler/ACK events'),
 'C06': dict(cat='exploration',
   text='generated histories mixing emit-with-callback/call() with ACKs carrying correct, duplicate, never-issued, zero and foreign ids, disconnects and reconnects; an ack model (outstanding ids per session id) decides which callback may fire; call() is driven through scripted orders of ACK / timeout / disconnect / loss on virtual time; duplicate-ACK race: the same ACK arrives again while the callback started by the first is still running (concurrent tasks / threads): one invocation; application callbacks that raise; duplicate-ACK race with a multi-frame acknowledgement, event-ordered; callbacks registered inside a connect handler that then accepts or refuses the connection (always_connect on/off): never invoked for a refused client; acknowledgements without an id; two threads emitting with callbacks to one client at the same time under statement-level schedules (sys.monitoring LINE yield points, all schedules with at most one pre-emption + random): distinct ids, each callback once with its own arguments; call() waiting in one thread while its acknowledgement is handled in another (scheduler-aware event, statement-level schedules): the acknowledged values are returned whenever the waiter wakes',
   note='timeouts are observed at the wait primitive (VirtualEvent) or on a virtual asyncio clock, never wall clock; multi-recipient callbacks excluded as documented',
   tech='runtime monitoring: history + executable ack model, escape monitor, virtual time'),
 'C16': dict(cat='exploration',
   text='generated histories of connects, save_session/get_session/session() blocks, namespace disconnects, server disconnects, transport losses and re-connects on the same or new transports against real Server/AsyncServer; every read is compared with a dict model keyed by (sid, namespace); stored values carry unique origin markers so a leak names its source; duplicate CONNECT for an already connected namespace leaves the session untouched; nested session() blocks for the same client and namespace and blocks left through an exception (everything modified inside a block is persisted when it exits); sequential inner session() blocks inside an outer one; threaded server: re-CONNECT of the namespace racing the end of the old connection (all schedules, pre-emption at manager calls, engine.io sends and session-store accesses): the session the new connection saved reads back; a session() block held open across the client\'s DISCONNECT + re-CONNECT of the namespace; disconnect handlers that read the departing client\'s session',
   note='dictionaries returned by get_session() are not mutated by the harness; one known finding (session-survives-namespace-reconnect) is matched only when the leaked data comes from an earlier epoch of the same (transport, namespace)',
   tech='runtime monitoring: history + executable session model with origin markers'),
 'C04': dict(cat='exploration',
   text='(a) generated sequential histories of CONNECT/DISCONNECT/disconnect()/transport loss/CLOSE against real Server/AsyncServer, crossed with always_connect, namespaces option, function vs class-based handlers and connect handlers that accept / return False / raise ConnectionRefusedError with 0-4 arguments; a lifecycle model per (transport, namespace) decides handler counts, answers, reasons, sid freshness and membership, with broadcast probes after every termination; (b) for the asyncio server, 23 scenarios of concurrent actors ({disconnect(), client DISCONNECT, transport loss, sibling DISCONNECT, DISCONNECT + re-CONNECT, client events}, pairs and triples) whose schedules over the await points of coroutine handlers and eio sends are enumerated by DFS (capped per scenario in the quick tier, completeness reported) plus seeded random schedules; per schedule: handler at most once per session id and exactly once iff it is no longer connected, reason among the causes in progress for that id, final broadcast reaches exactly the connected ids, racing events handled iff connected when fed; disconnect handlers that fail (Exception / BaseException subclass): every namespace of a lost transport still ends, each handler exactly once; connect handlers that declare auth as a required positional parameter',
   note='threaded server explored sequentially here (its thread races are C20); empty and absent auth are not distinguished; one known finding (session accepted while its transport is being torn down)',
   tech='runtime monitoring: history + lifecycle reference model; controlled await-point scheduler for asyncio interleavings'),
 'C13': dict(cat='exploration',
   text='exhaustive enumeration of the 2**6 presence combinations of the six kinds of target, crossed with ordinary/reserved events, unrelated handlers, class-method presence, sync/coroutine handlers and the four classes (4704 cases); each case delivers a real packet through the direct-drive server or the scripted engine.io client and compares the callable that ran and its argument list with a precedence table written from the documentation; winning coroutine handlers that end in CancelledError (asyncio classes); connect_error as an ordinary event name on servers; legacy disconnect handler signatures; independent method flags for the own and the catch-all class-based namespace',
   note='server namespaces admitted through namespaces="*"; event names are identifier-safe so that on_<event> exists; random names/arguments per case',
   tech='runtime monitoring: exhaustive configuration grid, recorder on every registered callable, table oracle'),
 'C17': dict(cat='exploration',
   text='exhaustive enumeration of 4 namespace classes x helper methods x subsets of optional parameters x {keyword, positional} x {sentinel, falsy} values x registration namespaces (9376 calls); the underlying method on the real server/client instance is replaced by a recorder that binds with the real method signature; identity of every given argument, the namespace rule and the returned value are checked; invariant hook on the namespace registry: an object must already be bound to its server/client when it becomes reachable; objects registered for the \'*\' namespace; the same object registered again with a second server / client; slash-less registration namespace and registry key == helper default; concurrent helper probes (emit/send reach the target while a call() of the same object waits in another thread)',
   note='defaults of omitted non-namespace arguments and vestigial parameters are outside the property and skipped (listed in evidence)',
   tech='runtime monitoring: recorder bound to real signatures, exhaustive argument-subset grid'),
 'C08': dict(cat='fault_enumeration',
   text='real Client/AsyncClient on a scripted engine.io transport against a scripted server: generated histories of connect(namespaces, auth value/callable/coroutine, wait) with every acceptance/refusal/silence plan, emits on connected and unconnected namespaces, server DISCONNECT, client disconnect(), engine.io CLOSE and transport loss (also mid binary packet and with callbacks outstanding), automatic and manual reconnects; after every step namespaces/get_sid/connected are compared with the script-side model and connect/connect_error/disconnect handler invocations are accounted per namespace and connection epoch; no-survivor probes (late ACK, first event) after every successful connect(); for the threaded client the schedule in which the read-loop thread handles the CONNECT answers before the connect() of engine.io returns; the server ending two namespaces back to back while the first disconnect handler is still running; callable auth that returns a fresh value per call (also asked again by automatic reconnections); handlers registered under the catch-all namespace only; connect() on a connected client is refused and changes nothing',
   note='network replaced below engine.io (its state machine is the real one); two known findings pinned by the existing suite are matched by mechanism only; a connection that went through CONNECT_ERROR on / with other namespaces is abandoned unjudged after the finding is recorded',
   tech='runtime monitoring: scripted peer + script-side acceptance model, fault injection at frame boundaries'),
 'C09': dict(cat='exploration',
   text='real Client/AsyncClient on a scripted transport: generated sequences of server EVENT/BINARY_EVENT/ACK/BINARY_ACK packets with colliding ids on several namespaces interleaved with client emits (with/without callbacks) and call(); token-matched accounting of handler invocations, ACKs sent (id, namespace, payload) and callback invocations; ack ids unique among outstanding ones; call() through scripted ACK/timeout orders on virtual waits; duplicate-ACK race (second ACK dispatched while the first callback invocation is still running): one invocation; binary-typed packets without attachments (50-[..], 60-[..], msgpack types 5/6); two threads emitting with callbacks on one namespace at the same time under statement-level schedules',
   note='background handler tasks run in FIFO order at quiescent points (threaded client) or as real asyncio tasks on a virtual-time loop',
   tech='runtime monitoring: token-matched exactly-once accounting + ack model on the client side'),
 'C10': dict(cat='fault_enumeration',
   text='fault enumeration on real Client/AsyncClient over a scripted transport: every failure pattern over {transport refusal, namespace refusal, loss during the attempt} up to length 3-4 (T/N up to 6) crossed with the full 108-point grid of delay/delay_max/randomization/attempts, abort by shutdown() at every back-off wait, every intentional cause of ending, and further losses after a successful reconnection; attempts are read at the scripted engine.io connect, back-off delays at the wait primitive (VirtualEvent / wrapped asyncio.wait_for on a virtual loop) and compared with the documented formula; fault mode H: the transport is lost inside the connect handler of a reconnection attempt after every namespace was acknowledged; a namespace ended by the server before the accidental loss (retries still ask for every namespace); the server ending every namespace with overlapping disconnect handlers and then closing the transport (no reconnection); losses with disconnect handlers that outlast the first back-off delays; efforts that exceed 60 back-off waits are cut off and reported',
   note='jitter is judged as a range; the thread-schedule window between connect() returning in the reconnect thread and the task reference being cleared is outside the quantifier; one known finding (stale reconnect task after an unsuccessful effort) pinned by the suite',
   tech='runtime monitoring: fault enumeration with scripted transport, back-off oracle on virtual waits'),
 'C11': dict(cat='fault_enumeration',
   text='client generations built from the quantifier\'s history elements run one after another on one persistent real server; for a history with K application-handler invocations every single fault position (that invocation raises; quick tier samples up to 7) plus the fault-free run, every end cause, optional application operations on the departed sid; after each transport ends: API-level residue (rooms, is_connected, get_environ, get_participants over all rooms), manager listings and the number of objects reachable from the server (gc reachability) must equal the baseline taken after a clean warm-up generation, and a probe client must be served exactly as on the fresh server; a quarter of the cases on a message-queue manager; refusal race: the transport ends while the connect handler is suspended/blocked and the handler then accepts / returns False / raises ConnectionRefusedError; concurrent terminations of one client on the threaded server (scheduler scenarios of C20, context-bounded and random) judged by the residue oracle; late work for a client being torn down: a frame of its transport delivered while one of its disconnect handlers runs, and (asyncio) an emit with callback issued while the loss is already queued; late operations on a departed session id while a bystander keeps the namespace alive; packets that follow a CLOSE in one payload; room-table races at statement level',
   note='closed engine.io sockets are removed the way engineio.Server.handle_request does; GraphSize skips types/modules/functions/loggers and shared immutable scalars; one known finding (callback registered for an absent client on a message-queue manager)',
   tech='runtime monitoring: fault injection at every handler invocation + leak monitor (gc reachability count) + API residue + differential probe trace'),
 'C12': dict(cat='exploration',
   text='attacks on a real Server/AsyncServer: one offender sends 30-120 generated frames (grammar-based mutations of valid packets, raw random text/bytes, mutated msgpack maps, a quarter of them through engine.io\'s own packet decoding) interleaved with well-formed bystander events, broadcasts and pending callbacks; monitors: no handler invocation or frame for a bystander during offender input, bystander rooms/session/connection unchanged, handler arguments derivable from the offending frame, post-attack probes (bystander callbacks complete, fresh client served), per-frame allocation bound with tracemalloc under RLIMIT_AS; CPU-time budget (3 s of process CPU time, ITIMER_VIRTUAL) around every single offender frame, with graded long-run frames aimed at super-linear scanners; complete binary events in which one placeholder index does not exist (no handler may run); allocation peaks over the bound are measured again on a warm process before they count; event / namespace names that collide with the catch-all registry key, carrying a bystander\'s session id; msgpack frames with declared sizes far beyond their length; room broadcasts with a callback during the attack; stray binary frames spelling text packets; unpaired surrogates relayed to the bystanders\' room, every queued packet being put through the engine.io transports\' serialisation',
   note='engine.io contains the exceptions raised by the message callback (trusted); the offender\'s own connection may be left unusable; allocation bound 400 B per input byte + 600 kB',
   tech='runtime monitoring: grammar-based hostile workload + bystander trace/state monitors + allocation monitor (tracemalloc)'),
 'C15': dict(cat='fault_enumeration',
   text='(a) a real PubSubManager/AsyncPubSubManager with an in-memory backend and local clients; its real listener thread/task is fed sequences of bad channel messages (undecodable bytes, pickles/JSON of non-dicts incl. strings and lists containing "method", dicts with missing/surplus/wrong-typed fields, unknown methods, own-host echoes of every method, callback messages for other hosts/unknown ids; as bytes, text or dict), a quarter combined with an injected fault (server operation raises, send raises, the listen iterator raises and is restarted); after each one a sentinel emit from another host must reach its local client exactly once and echoes/foreign callbacks must have no effect; (b) the bundled Redis backends driven with a fake redis client whose connections/subscriptions fail on schedule: every broker message yielded once, retry sleeps equal to the 1,2,4..60 schedule; valid callback messages whose application callback raises (Exception; CancelledError of a coroutine callback on asyncio); (c) the bundled Redis managers end to end: real Server/AsyncServer + RedisManager/AsyncRedisManager on a fake in-memory broker that honours subscriptions per pub/sub object and keeps dropped connections dead; bad payloads and broker drops, sentinel exactly once after each; listen failures before the first message; room view after own-host echoes of room operations; pickles whose loading raises (ValueError, SystemExit, CancelledError, BaseException subclass); callbacks returning a pending future; remote emits whose sends fail or are cancelled',
   note='injected faults are Exception subclasses; undecodable bytes start with a non-opcode byte because unpickling hostile pickle programs is outside what python-socketio can contain; redis is a harness-provided fake module',
   tech='runtime monitoring: fault injection + sentinel exactly-once oracle on the real listener loop'),
 'C07': dict(cat='exploration',
   text='clusters of 2-4 real Server/AsyncServer objects with real PubSubManager/AsyncPubSubManager instances joined by an in-memory pickle channel (their real listener threads/tasks consume one message at a time under harness control) plus a write-only manager; generated histories of connects, room operations, emits (with skip_sid / callbacks) and disconnects issued via arbitrary hosts; immediate mode: exact recipient multiset per emit against the single-server rooms model, rooms(), disconnect handler once, callback once on the issuing host; delayed mode with random per-host lag: at-most-once, eligibility within the flight window (extended over membership operations that are themselves in flight) and exactness for emits not raced; acknowledgements with no, falsy and several arguments; the same emit issued twice in a row is delivered twice; fresh threaded hosts whose first connections arrive together on a backend where every _listen() call is its own subscription (each client of the host still receives a remote broadcast once); payload values that pickle by reference to a class',
   note='FIFO reliable channel; delayed mode issues a membership operation only when no membership message is in flight (crossing operations are order-dependent for any implementation); callbacks only for emits addressed to the client\'s own sid',
   tech='runtime monitoring: history + single-server reference model over the union of clients, logical-time flight windows'),
 'C20': dict(cat='exploration',
   text='the real threaded Server with real threads under a controlled scheduler (one thread runs at a time): bounded-exhaustive DFS over all schedules of every pair of the four terminating causes with pre-emption at each client-manager / engine.io call and inside the disconnect handler (pre-emption-bounded for triples), plus seeded random schedules with statement-level yield points injected through sys.monitoring LINE events in server.py, base_manager.py and manager.py; per schedule: disconnect handler exactly once, no exception in any thread or engine.io log, no API-level residue and object-graph size equal to the clean baseline; six scenarios in which a terminating cause races with the client\'s own DISCONNECT + re-CONNECT and with a client event (per-session cause/reason oracle); the server\'s per-transport tables (_binary_packet, environ) are pre-emption points; iterative context bounding (all schedules with <=1 and <=2 pre-emptions) before the unbounded DFS, with and without a half-received binary packet; locks created by the code under test during a schedule are scheduler-aware; unfinished schedules: scheduler-found deadlock = violation, stuck outside the scheduler = counted (more than two per run: inconclusive); statement-level DFS with at most one pre-emption for every pair',
   note='interleavings inside a single bytecode instruction are not explored; DFS is capped per pair in the quick tier (completeness per pair is reported in evidence); locks of the manager are replaced by scheduler-aware ones; one known finding (session accepted while its transport is being torn down, threaded twin of the C04 finding)',
   tech='runtime monitoring: controlled thread scheduler (systematic + randomized schedule exploration) with exactly-once / escape / residue monitors'),
 'C19': dict(cat='exploration',
   text='real SimpleClient over a real Client over the scripted engine.io, its two Events and input buffer replaced by scheduler-aware equivalents; producer (handler) threads, consumer, network (final loss / loss with successful reconnection) and emitter actors run under a controlled scheduler: every interleaving (DFS, capped per scenario, completeness reported) at the granularity of the client\'s event/buffer operations for 11 small scenarios, seeded random schedules (60% with statement-level yield points in simple_client.py via sys.monitoring) for random larger ones; AsyncSimpleClient: every release order of the parked tasks at delivery and wake-up points on a virtual-time loop; oracles: returned sequence = arrival sequence prefix, TimeoutError only with nothing unreturned (timeouts fire only at quiescence), DisconnectedError only after a final end with every event that arrived before it returned, emit() never fails except DisconnectedError after a final end; connect-time arrivals: events dispatched while the application is still inside connect() are returned by receive() in arrival order; loss in the middle of a multi-frame event with successful reconnection: receive() returns exactly the complete events in order; application disconnect() (buffered events, then DisconnectedError from receive/emit/call, never an endless wait); non-blocking polls receive(timeout=0); call() in flight across a loss and a successful reconnection',
   note='arrival order = order of the real appends; the instant of the final end is taken at the assignment connected=False',
   tech='runtime monitoring: controlled scheduler (bounded-exhaustive + randomized), unique tokens, order/exactly-once trace oracle'),
 'C02': dict(cat='exploration',
   text='(fidelity anchor, ~12% of the budget: an unmodified Client with python-engineio\'s real threaded long-polling client against an unmodified threaded Server behind a wsgiref server on 127.0.0.1, emit+callback and call() both ways) a real Client/AsyncClient connected to a real Server/AsyncServer through a bridge in which every frame is re-encoded by the real engine.io framing (polling payload with base64 attachments, or websocket packets with raw binary), rotating over all 8 configurations {threaded, asyncio} x {default, msgpack} x {polling, websocket}; generated messages in both directions via emit, emit+callback, call() and send() with random event names, JSON+bytes payloads (tuple / None / other at top level) and handler return values; handler arguments, callback arguments and call() results compared with the argument rule; bursts of up to 50 consecutive emits checked for order; overlapping callbacks (several emits with callbacks outstanding at once on the asyncio pairing, handlers finishing out of order, a further emit meanwhile): every callback gets the value returned by its own handler exactly once; reconnect after a partial message: the connection is lost on both sides while a multi-frame message is half-way to the client and the same client object connects again (connect() succeeds, no handler sees anything that was not sent, the new connection is as transparent as the first); late acknowledgement: a call() times out while its handler is busy, a second call follows, the first ACK arrives while the second is outstanding (asyncio pairing, virtual time): the second call returns its own handler\'s value',
   note='network replaced below engine.io; thread-per-message dispatch (threaded engine.io client; threaded server with async_handlers=True) defines no order and is not judged for it; 64-bit integers, finite floats, no lone surrogates',
   tech='runtime monitoring: end-to-end differential oracle (argument rule) over real client and server objects with unique sequence numbers'),
 'C14': dict(cat='exploration',
   text='differential monitor: one generated script (configuration + operations that refer to session ids symbolically) is executed against the threaded class and against its asyncio twin and the two normalised traces must be identical. Five script families: Server/Manager vs AsyncServer/AsyncManager on the direct-drive harness (client packets valid and malformed, partial binary packets, API calls incl. emit/call()/rooms/sessions/disconnect, handler faults, transport losses); Client vs AsyncClient on the scripted engine.io transport (connect plans with refusals/silence, server packets valid and malformed, emit/send/call, losses with reconnection plans, back-off waits and attempt parameters); PubSubManager vs AsyncPubSubManager on the in-memory channel (API calls, injected cluster messages of every method and malformed ones, own-host echoes; published messages compared); Namespace/ClientNamespace helper forwarding and trigger_event dispatch; SimpleClient vs AsyncSimpleClient (receive/emit/call/loss/reconnect sequences); failing disconnect handlers aimed at separately; raising callbacks in server scripts; disconnect handlers that emit, departure template with an observer on every namespace, sessions modified in place',
   note='compares frames per peer in per-peer order, handler/callback invocations with arguments, API results with type distinction (tuple/list, int/float/bool, bytes/str) or exception types, types of contained errors, pub/sub messages, reconnection attempts and back-off waits; the global interleaving of sends to different peers is not compared; a defect present in both implementations is invisible by construction (the other properties cover it); one known finding (vestigial room parameter of ClientNamespace.send)',
   tech='runtime monitoring: differential trace oracle (threaded vs asyncio twin on the same generated script)'),
 'C18': dict(cat='exploration',
   text='three monitors on real Server/AsyncServer objects instrumented with the real sio.instrument(): (A) credential gate - generated auth payloads (exact, permuted, absent, None, non-dicts, sub/supersets, type-confused, nested, other credential sets) through real CONNECT packets against auth configured as dict / list of dicts / sync predicate / async predicate / False, crossed with mode and read_only; the answer must match the documented predicate and, after every attempt, the admin namespace must list exactly the accepted sessions and a probe broadcast must reach exactly the accepted transports; (B) read-only - an authenticated admin sends emit/join/leave/_disconnect requests: no frame to an application client, no change of its rooms or connection, no application handler call (with read_only off the same requests do have effect: positive control); (C) transparency - the application scripts of the C14 server family run on a plain server and on an instrumented one (development/production, admin connected or not); the application clients\' normalised traces must be identical; transparency scripts with silently dead clients (found by the next send) and with Python objects stored in sessions followed by DISCONNECT + re-CONNECT; hang guard: an instrumented run stuck on one stack while the plain run finished is a violation; partial auth predicates (raise for payloads of unexpected shape): never accepted, no membership; W: conversations over the real websocket handler of engine.io (fake websocket), plain vs instrumented',
   note='direct-drive transports (the HTTP/websocket byte counters of the instrumentation are not exercised); server_stats task parked on virtual sleep; transient frames sent to a to-be-refused admin about itself during its connect handler are counted, not judged; events named connect/disconnect sent by application clients are outside the application-scenario domain',
   tech='runtime monitoring: predicate oracle on CONNECT answers + membership probes, inertness monitor with positive control, differential trace oracle (instrumented vs plain server)'),
}
# filled in as checks are built; see bottom of file for the not-built reason

# what the sixth round of independent seeding added (DESIGN.md section 3,
# "Round 6" of each property)
ROUND6 = {
 'C01': 'namespaces ending in or repeating a slash and with odd characters in every packet type',
 'C02': 'nested exchanges: the handler of a call() itself calls the peer and returns what it got while another thread / task handles the inner acknowledgement - threads under the controlled scheduler (checks/c02_nested.py: scheduler-owned events and locks, statement-level yield points, all schedules with at most one pre-emption + random; deadlock and quiescence timeouts instead of wall clock), asyncio through the bridge; an acknowledgement outstanding on one namespace while the server disconnects a sibling namespace of the same client',
 'C03': 'emits with byte-string payloads (several frames per recipient) to rooms, room lists and broadcasts with several recipients',
 'C04': 'observer actor after the disconnect handler has finished (scheduler part)',
 'C05': 'a binary event whose header arrived before a sibling namespace of the transport was disconnected by the server',
 'C06': 'the same acknowledgement handled by two threads at once (statement-level schedules, at most one pre-emption; found the defect repaired in bd5e471); refused namespaces, acknowledgements without id',
 'C07': 'emit followed at once (same coroutine / next statement) by leave_room / close_room / disconnect of a recipient or enter_room of an outsider; a host without clients that uses the API (emit with callback, emit, room operations) before its first client arrives, on a backend with one subscription per _listen() call (threads and asyncio): every later broadcast exactly once, callback at most once; byte-string payloads',
 'C08': 'the automatic reconnection sends CONNECT for exactly the namespaces requested by connect() (handlers registered for more)',
 'C09': 'the same acknowledgement dispatched on two threads by the threaded client (statement-level schedules)',
 'C11': 'silent clients found dead by the write of the server\'s DISCONNECT packet or of an emit',
 'C12': 'threaded server under the controlled scheduler (checks/c12_sched.py): the offender\'s well-formed CONNECT / DISCONNECT / transport loss / room-joining event handled by one thread while another handles a bystander\'s DISCONNECT, loss, CONNECT or event - 20 pairs, statement-level yield points in the manager modules, all schedules with at most one then two pre-emptions, then random; unsolicited acknowledgements as the offender\'s opening followed by room broadcasts with a callback',
 'C13': 'near-miss method names of class-based namespaces (my-event / my event vs on_my_event); catch-all class-based namespace with a client on the literal namespace "*" (msgpack)',
 'C14': 'falsy emit payloads, callback templates, always_connect with crashing connect handlers',
 'C15': 'bursts of bad messages and listen failures followed by a valid message',
 'C16': 'refused CONNECTs of a further namespace on a transport that has a session; first touch of a session by two handler threads at once (checks/c16_sched.py, statement-level schedules with at most one and two pre-emptions)',
 'C17': 'container-valued room / to / skip_sid arguments; a registration refused by an owner of the other flavour',
 'C18': 'auth predicates answering None / 0 / ""; application emits of falsy values through an instrumented server',
}
for _k, _v in ROUND6.items():
    TABLE[_k]['text'] += '; round 6: ' + _v

ROUND7 = {
 'C04': 'function handlers registered under the catch-all namespace next to a namespace list: they serve listed namespaces without own handlers and open no further namespace',
 'C06': 'an acknowledgement id is never issued twice on one client connection',
 'C08': 'lifecycle handlers under the catch-all namespace with event handlers per namespace',
 'C09': 'acknowledgements without id; ids never issued twice on one connection and namespace',
 'C10': 'jitter oracle with the random source of the client modules pinned to the top / bottom of its range: the wait is at that end of the documented interval, also at the cap',
 'C11': 'the application leaves / closes the client\'s personal room before the client departs',
 'C12': 'class-based catch-all namespace in the attack configurations',
 'C13': 'on_<event> methods inherited from mixins, attached to the class after its creation, set on the instance',
 'C14': 'departure template with server- and client-initiated ends of a client that is a member of the room its departure is announced to',
 'C15': 'callbacks of clients of other servers: the relayed acknowledgement completes once, messages naming another or no server and repeated ids complete nothing, ids never issued twice per client',
 'C16': 'handlers of different clients using their sessions at the same time (statement-level schedules with at most one and two pre-emptions)',
 'C17': 'the same namespace object registered twice with the same owner',
 'C19': 'reconnections that need several attempts (transport refusals, namespace rejections) with emit / receive issued meanwhile; breadth-first pass over the small scenarios',
}
for _k, _v in ROUND7.items():
    TABLE[_k]['text'] += '; round 7: ' + _v

ROUND8 = {
 'C02': 'bursts handled by coroutine and plain handlers alike (asyncio pairing)',
 'C03': 'emit whose awaiting coroutine is cancelled / times out while the send to some members is still in progress (slow transport): every member still receives once',
 'C04': 'room tables scanned for ghost members after every refused CONNECT',
 'C06': 'call() whose acknowledgement is handled from within the send of the event',
 'C07': 'delivered payloads compared with the emitted ones on every host',
 'C09': 'events named like lifecycle notifications',
 'C10': 'attempts in which one of several namespaces is refused; follow-up losses after attempts that lost the transport',
 'C11': 'module-level containers of the package are roots of the measured object graph',
 'C12': 'id / attachment-count fields of several hundred thousand digits under the per-frame CPU budget; accept-all servers; CONNECTs with non-string namespaces (msgpack); a bystander leaves after the attack (handler once, forgotten)',
 'C13': 'a slot or class-based namespace registered again replaces the earlier registration',
 'C14': 'acknowledgements with the right id and a non-list payload; receive(timeout=0) in SimpleClient scripts; engine.io heartbeat steps in server scripts',
 'C15': 'application callbacks that use the server again while the listener runs them; the threaded manager\'s locks detect a thread acquiring one it holds (self-deadlock) instead of hanging',
 'C16': 'a fresh session saved while a session() block is open',
 'C17': 'exceptions raised by the underlying method come out of the helper unchanged',
 'C18': 'engine.io heartbeat step (ping task of a transport) on plain vs instrumented servers in every mode',
 'C19': 'non-blocking polls after the connection has ended for good (found the defect repaired in 30e1f79)',
}
for _k, _v in ROUND8.items():
    TABLE[_k]['text'] += '; round 8: ' + _v

ROUND9 = {
 'C02': 'a message emitted right before disconnect() (no pause in between) still reaches its handler once',
 'C04': 'namespaces whose connects and disconnects are handled by lifecycle handlers under the catch-all namespace',
 'C06': 'binary acknowledgement straddling the server-side end of the client\'s other namespace',
 'C07': 'callbacks addressed through a custom room with one member',
 'C08': 'class-based namespace and function handler on the same namespace: one CONNECT per namespace',
 'C11': 'cancelled coroutine disconnect handlers; accept-all servers with a fresh namespace per client generation',
 'C12': 'identical payloads kept by a bystander and the offender, the offender\'s copy edited in place',
 'C14': 'rooms named like session ids; handlers that disconnect the sender before they return',
 'C15': 'empty payloads; sentinel published by a second manager of the same process',
 'C17': 'falsy values for required arguments',
 'C18': 'bursts of more than a thousand room changes within one statistics interval',
 'C19': 'the server disconnecting the namespace as an end for good',
 'C20': 'a bystander on the namespace in every world; reentrant locks of the code under test are scheduler-aware',
}
for _k, _v in ROUND9.items():
    TABLE[_k]['text'] += '; round 9: ' + _v

ROUND10 = {
 'C01': 'payloads nested 9-40 containers deep',
 'C02': 'bursts of up to 300 outstanding callbacks; a handler that itself waits for an acknowledgement handled by another thread (thread scheduler, both sides)',
 'C03': 'connect handlers that crash; an emit abandoned by its awaiting coroutine',
 'C05': 'an event literally named "*"',
 'C06': 'acknowledgements bearing ids of an ended session after a failing disconnect handler; ids never reissued',
 'C07': 'relay tokens never issued twice at the publishing side',
 'C08': 'connect() with an empty namespace list; connect() again after a late CONNECT answer of the lost connection',
 'C09': 'the server ending one namespace in mid-history; a second connection receiving acknowledgements of the first',
 'C10': 'the transport closed right after the server\'s last DISCONNECT; shutdown() while an attempt is in flight, then a further loss',
 'C11': 'threaded: an emit with a callback racing the recipient\'s departure, statement-level schedules (known finding emit-callback-filed-after-the-recipient-departed)',
 'C12': 'threaded: application emits and bystander arrivals / departures racing a busy offender, statement-level schedules',
 'C13': 'class namespaces registered after function handlers; methods inherited from mixins or added later',
 'C14': 'disconnect handlers that look the environ up; a call() answered at its second emission',
 'C15': 'application callbacks that use the manager again from inside the listener; JSON delivered as bytes',
 'C16': 'mapping objects as sessions; sessions asked for under the wrong namespace',
 'C17': 'underlying methods that raise, CancelledError included',
 'C19': 'a receive() blocked at the final end; non-blocking polls after the end',
}
for _k, _v in ROUND10.items():
    TABLE[_k]['text'] += '; round 10: ' + _v


SCHED_PARTS = {
 'C02': '; controlled thread scheduler for a handler that waits for an acknowledgement handled by another thread',
 'C03': '; controlled thread scheduler (context-bounded, statement-level yield points) for emits racing membership changes',
 'C06': '; controlled thread scheduler for concurrent emits with callbacks and duplicate acknowledgements',
 'C09': '; controlled thread scheduler for concurrent emits with callbacks and duplicate acknowledgements',
 'C11': '; controlled thread scheduler (context-bounded, statement-level yield points) for concurrent ends and for emit-with-callback racing a departure',
 'C12': '; controlled thread scheduler (statement-level yield points) for a busy offender racing bystanders and application emits',
 'C16': '; controlled thread scheduler for handler threads sharing a session',
}
for _k, _v in SCHED_PARTS.items():
    TABLE[_k]['tech'] += _v


def main():
    checks = []
    na = []
    for pid in ALL:
        path = os.path.join(HERE, 'checks', pid.lower() + '.py')
        if os.path.exists(path) and pid in TABLE:
            t = TABLE[pid]
            checks.append({
                'property_id': pid,
                'quick_cmd': './check %s --tier quick' % pid,
                'thorough_cmd': './check %s --tier thorough' % pid,
                'evidence_file': '/verif/evidence/%s.json' % pid,
                'replay_cmd_template': './check %s --replay {path}' % pid,
                'level_claimed': {'category': t['cat'], 'text': t['text'],
                                  'design_ref': 'DESIGN.md section 3, ' + pid},
                'level_note': t['note'],
                'technique': t['tech'],
            })
        else:
            na.append({'property_id': pid,
                       'reason': 'not claimed yet: the runtime monitor for '
                       'this property is designed (DESIGN.md section 3) but '
                       'not built/validated at this commit'})
    m = {
        'version': 1,
        'setup_cmd': "/venv/bin/python -c \"import sys; sys.path.insert(0,'/repo/src'); import socketio, engineio, bidict, msgpack; print('setup ok')\"",
        'hooks': {
            'guard': 'PYTHON_SOCKETIO_VERIF',
            'enable': 'no source hooks in /repo: the harness imports /repo/src directly and installs its own wrappers / sys.monitoring tools; the harness sets PYTHON_SOCKETIO_VERIF=1 for itself only',
            'baseline_off_cmd': 'cd /repo && /venv/bin/python -m pytest -ra -q -p no:cacheprovider --timeout=900 --continue-on-collection-errors',
            'source_commits': [],
            'add_only': True,
        },
        'engines': [{
            'name': 'vlib', 'path': '/verif/vlib',
            'serves_properties': [c['property_id'] for c in checks],
            'kind_free_text': 'runtime monitoring harness: direct-drive of real socketio/engineio objects, reference codec and models, trace oracles, schedulers',
        }],
        'checks': checks,
        'notes': 'All checks: ./check <id> --tier quick|thorough [--seed N]; env VERIF_SEED / VERIF_TIER honoured. Known findings: /verif/known_findings.json.',
        'not_applicable': na,
    }
    with open(os.path.join(HERE, 'MANIFEST.json'), 'w') as f:
        json.dump(m, f, indent=1)
        f.write('\n')
    print('claimed:', [c['property_id'] for c in checks])


if __name__ == '__main__':
    main()
